"""python -m harness.report : regenerates the tables of DESIGN.md section 9.3 / 9.4 from known_findings.json and seeded/*/meta.json"""
import glob
import json
import os
import re

from harness.common import coq

V = coq.VERIF


def findings_table():
    d = json.load(open(os.path.join(V, 'known_findings.json')))['findings']
    rows = ['| property | status | commit | what |', '|---|---|---|---|']
    for e in sorted(d, key=lambda e: (e['property'], e['status'])):
        what = e['what']
        what = re.sub(r'^fixed: property=C\d+ \w+ ', '', what)
        rows.append('| %s | %s | %s | %s |' % (e['property'], e['status'], e.get('commit', ''), what.replace('|', '\\|')))
    return '\n'.join(rows)


def seeds_table():
    rows = ['| seed | property | what the change does | needs to manifest | confirmed | caught by |', '|---|---|---|---|---|---|']
    for m in sorted(glob.glob(os.path.join(V, 'seeded', '*', 'meta.json'))):
        e = json.load(open(m))
        det = e.get('detected_by')
        extra = e.get('strengthened', '')
        rows.append('| %s | %s | %s | %s | %s | %s%s |' % (
            e.get('seed_id'), e.get('property'), str(e.get('summary', '')).replace('|', '\\|')[:220],
            str(e.get('needs_to_manifest', '')).replace('|', '\\|')[:220], 'yes' if e.get('confirmed') else 'NO',
            ('bin/check ' + det) if det else 'MISSED', (' — ' + extra) if extra else ''))
    return '\n'.join(rows)


def main():
    p = os.path.join(V, 'DESIGN.md')
    s = open(p).read()
    for name, gen in (('findings', findings_table), ('seeds', seeds_table)):
        b, e = '<!-- BEGIN %s -->' % name, '<!-- END %s -->' % name
        if b in s and e in s:
            s = s[:s.index(b) + len(b)] + '\n' + gen() + '\n' + s[s.index(e):]
    open(p, 'w').write(s)
    print('DESIGN.md tables regenerated')


if __name__ == '__main__':
    main()
