"""bin/check Cnn [--tier quick|thorough] [--replay FILE]

Generic driver (DESIGN.md section 2.1 / 2.5):
  1. regenerate theories/Gen/*.v from /repo's working tree (translators of the property module)
  2. build the model targets, then the property's Props/Cnn.vo cone (full .vo build, make)
  3. count obligations, grep the cone for forbidden constructs, collect Print Assumptions
  4. run the property's correspondence + spec-oracle check against the real implementation
  5. verdict, evidence
"""
import argparse
import importlib
import json
import os
import random
import shutil
import sys
import time
import traceback

from harness.common import coq
from harness.common import findings

VERIF = coq.VERIF


class Ctx:
    def __init__(self, pid, tier, seed, replay=None):
        self.pid = pid
        self.tier = tier
        self.seed = seed
        self.replay = replay
        self.rng = random.Random('%s-%d' % (pid, seed))
        self.workdir = os.path.join(VERIF, '.work', '%s-%d' % (pid, os.getpid()))
        os.makedirs(self.workdir, exist_ok=True)
        self.notes = []
        self.proof_ok = True
        self.model_ok = True

    def n(self, quick, thorough):
        return thorough if self.tier == 'thorough' else quick

    def log(self, *a):
        print('[%s]' % self.pid, *a, file=sys.stderr, flush=True)

    def cleanup(self):
        shutil.rmtree(self.workdir, ignore_errors=True)
        try:
            os.rmdir(os.path.join(VERIF, '.work'))
        except OSError:
            pass


def new_result():
    return {
        'evaluations': 0,
        'distinct_nontrivial': 0,
        'rule': '',
        'samples': [],
        'distribution': {},
        'tie_failures': [],   # model and implementation disagree (or a translator could not read the source)
        'violations': [],     # implementation contradicts the specification oracle: {'key': {...}, 'what': str, 'case': ...}
        'assumptions': [],
        'trusted_base': [],
        'exhaustive': False,
        'extra': {},
    }


def write_json(path, obj):
    os.makedirs(os.path.dirname(path), exist_ok=True)
    tmp = path + '.tmp'
    with open(tmp, 'w') as f:
        json.dump(obj, f, indent=1, default=str)
        f.write('\n')
    os.replace(tmp, path)


def main(argv=None):
    ap = argparse.ArgumentParser()
    ap.add_argument('pid')
    ap.add_argument('--tier', default=os.environ.get('VERIF_TIER', 'quick'), choices=['quick', 'thorough'])
    ap.add_argument('--replay', default=None)
    args = ap.parse_args(argv)
    pid = args.pid.upper()
    seed = int(os.environ.get('VERIF_SEED', '0') or 0)
    t0 = time.time()
    ctx = Ctx(pid, args.tier, seed, args.replay)
    try:
        rc = _run(ctx, t0)
    finally:
        ctx.cleanup()
    sys.exit(rc)


def _run(ctx, t0):
    pid = ctx.pid
    mod = importlib.import_module('harness.props.%s' % pid.lower())
    res = new_result()
    proof_problems = []
    tie_problems = []

    # 1. translators
    for tr in getattr(mod, 'TRANSLATORS', []):
        try:
            info = tr(ctx)
        except Exception as e:  # fail closed
            info = {'status': 'untranslatable', 'detail': '%s: %s' % (type(e).__name__, e)}
        ctx.log('translator %s: %s' % (tr.__module__.split('.')[-1] + '.' + tr.__name__, info.get('status')))
        res['extra'].setdefault('translators', []).append(
            {'name': tr.__module__ + '.' + tr.__name__, **{k: v for k, v in info.items() if k != 'table'}}
        )
        if info.get('status') != 'ok':
            tie_problems.append('translator %s: %s' % (tr.__name__, info.get('detail')))

    # 2. build
    props_v = mod.PROPS
    model_targets = [t[:-2] + '.vo' if t.endswith('.v') else t for t in getattr(mod, 'MODEL_TARGETS', [])]
    ok_m, log_m, wall_m, cmd_m = coq.build(model_targets) if model_targets else (True, '', 0, '')
    if not ok_m:
        ctx.model_ok = False
        tie_problems.append('model does not compile against the regenerated definitions: ' + _tail(log_m))
    ok_p, log_p, wall_p, cmd_p = coq.build([props_v[:-2] + '.vo'])
    if not ok_p:
        ctx.proof_ok = False
        proof_problems.append('proof obligation no longer checks: ' + _tail(log_p))
    ctx.log('build model=%s props=%s (%.1fs)' % (ok_m, ok_p, wall_m + wall_p))

    # 3. obligations
    cone = coq.cone(props_v)
    obligations, per_file = coq.count_obligations(cone)
    done = coq.compiled(cone)
    discharged = sum(per_file[v] for v in done)
    bad = coq.forbidden(cone)
    if bad:
        proof_problems.append('forbidden construct in cone: ' + '; '.join(bad[:5]))
    assumptions = []
    if ok_p:
        ok_a, out_a = coq.print_assumptions(props_v)
        assumptions = coq.parse_assumptions(out_a)
        if not ok_a:
            proof_problems.append('Props file failed to re-check: ' + _tail(out_a))
        allowed = set(getattr(mod, 'ALLOWED_AXIOMS', []))
        for a in assumptions:
            if a.startswith('axioms:'):
                names = [x.strip() for x in a[len('axioms:'):].split(',') if x.strip()]
                extra = [x for x in names if x.split('.')[-1] not in allowed and x not in allowed]
                if extra:
                    proof_problems.append('unexpected axioms: ' + ', '.join(extra))

    chk_note = None
    if ok_p and ctx.tier == 'thorough' and not os.environ.get('VERIF_NO_COQCHK'):
        ok_c, ax_c, out_c = coq.coqchk(props_v, getattr(mod, 'COQCHK_TIMEOUT', 1500))
        if ok_c is None:
            chk_note = 'coqchk -o on %s: %s (it re-checks vm_compute casts by lazy conversion; not counted either way)' % (props_v, out_c)
        else:
            chk_note = 'coqchk -o on %s and its dependencies: %s; axioms: %s' % (
                props_v, 'accepted' if ok_c else 'FAILED', ', '.join(ax_c) or 'none')
        ctx.log(chk_note)
        if ok_c is None:
            pass
        elif not ok_c:
            proof_problems.append('coqchk rejects the compiled development: ' + _tail(out_c))
        elif ax_c:
            proof_problems.append('coqchk reports axioms: ' + ', '.join(ax_c))

    # 4. property check (correspondence + spec oracle)
    try:
        mod.check(ctx, res)
    except Exception:
        tb = traceback.format_exc()
        ctx.log(tb)
        tie_problems.append('harness failed: ' + tb[-1500:])
    tie_problems += [_short(t) for t in res['tie_failures'][:20]]

    # 5. verdict
    known = findings.load(pid)
    new_viol, known_hits = [], {}
    for v in res['violations']:
        k = findings.match(known, v)
        if k is None:
            new_viol.append(v)
        else:
            known_hits.setdefault(k['what'], v)

    if not new_viol and (proof_problems or tie_problems) and hasattr(mod, 'search'):
        ctx.log('proof/tie broken; searching for a failing input')
        extra = new_result()
        try:
            mod.search(ctx, extra)
        except Exception:
            ctx.log(traceback.format_exc())
        res['evaluations'] += extra['evaluations']
        for v in extra['violations']:
            k = findings.match(known, v)
            if k is None:
                new_viol.append(v)
            else:
                known_hits.setdefault(k['what'], v)

    rc = 0
    lines = []
    replay_dir = os.path.join(coq.EVIDENCE, 'replay')
    if new_viol:
        v = new_viol[0]
        path = os.path.join(replay_dir, '%s-%d.json' % (pid, ctx.seed))
        write_json(path, {
            'property': pid, 'kind': 'failing-input', 'what': v.get('what'), 'key': v.get('key'),
            'case': v.get('case'), 'expected': v.get('expected'), 'observed': v.get('observed'),
            'how_to_replay': getattr(mod, 'REPLAY_HELP', 'bin/check %s --replay <this file>' % pid),
            'others': [{'what': w.get('what'), 'key': w.get('key'), 'case': w.get('case')} for w in new_viol[1:10]],
            'proof_problems': proof_problems, 'tie_problems': tie_problems,
        })
        lines.append('VIOLATION property=%s replay=%s' % (pid, path))
        rc = 1
    elif proof_problems or tie_problems:
        path = os.path.join(replay_dir, '%s-%d-unproved.json' % (pid, ctx.seed))
        write_json(path, {
            'property': pid, 'kind': 'no-failing-input-found',
            'theorem_or_correspondence_that_no_longer_checks': proof_problems + tie_problems,
            'props_file': props_v,
        })
        lines.append('VIOLATION property=%s replay=%s no-failing-input-found' % (pid, path))
        rc = 1
    for what in known_hits:
        lines.append('KNOWN-FINDING: property=%s %s' % (pid, what))

    # 6. evidence
    tb = [
        'Coq 8.16.1 kernel (coqc, vm_compute; no native_compute)',
        'Print Assumptions under every theorem of %s: %s' % (props_v, '; '.join(assumptions) or 'n/a (not built)'),
    ] + ([chk_note] if chk_note else []) + list(getattr(mod, 'TRUSTED_BASE', [])) + res['trusted_base']
    ev = {
        'property_id': pid,
        'tier': ctx.tier,
        'seed': ctx.seed,
        'level': 'proof',
        'coverage': {
            'obligations': obligations,
            'discharged': discharged,
            'checker_cmd': 'cd %s && %s' % (coq.COQ, cmd_p),
            'trusted_base': tb,
            'evaluations': res['evaluations'],
            'distinct_nontrivial': res['distinct_nontrivial'],
            'rule': res['rule'],
            'samples': res['samples'][:12],
            'exhaustive': bool(res['exhaustive']),
            'input_distribution': res['distribution'],
            'tie': getattr(mod, 'TIE', ''),
            'cone_files': cone,
            'proof_problems': proof_problems,
            'tie_problems': tie_problems[:20],
            'known_findings_reported': list(known_hits),
            **res['extra'],
        },
        'assumptions': list(getattr(mod, 'ASSUMPTIONS', [])) + res['assumptions'],
        'wall_s': round(time.time() - t0, 2),
        'violations': len(new_viol) + (1 if (rc and not new_viol) else 0),
    }
    write_json(os.path.join(coq.EVIDENCE, '%s.json' % pid), ev)
    for line in lines:
        print(line, flush=True)
    ctx.log('done rc=%d evaluations=%d wall=%.1fs' % (rc, res['evaluations'], time.time() - t0))
    return rc


def _tail(log, n=1200):
    log = log.strip()
    return log[-n:]


def _short(t, n=600):
    s = t if isinstance(t, str) else json.dumps(t, default=str)
    return s[:n]


if __name__ == '__main__':
    main()
