"""Translator (tie T) for C16: regenerates theories/Gen/C16Gen.v from
qtoggleserver/core/expressions/{__init__,base,timeprocessing}.py and core/main.py.

Reads
  * TIME_JUMP_THRESHOLD (int constant), DelayFunction.HISTORY_SIZE, FMAvgFunction.QUEUE_SIZE, FMedianFunction.QUEUE_SIZE;
  * for every time-processing class, the list of `self.pause_asap_eval(<arg>)` statements of `_eval`, each with the chain of
    enclosing `if` tests (and which branch) and the text of its argument.  The list must be one of the shapes below
    (HELD has two known shapes: the one that pauses for ever in both branches of state WAITING, and the one that pauses
    until start + duration while still waiting); anything else is untranslatable (fail closed);
  * for each of the fourteen classes, where `self.eval_args(context)` / `self.args[i].eval(context)` stand relative to the early
    `return` / `raise` statements (and what is written to the object before an argument is evaluated): ARG_SHAPES, the order
    C16/ArgModel.v (ostep: SAMPLE evaluates nothing while holding, FREEZE nothing while its timer runs, ...) was written against;
  * the bodies of BasePort.push_eval / has_pending_eval / _eval_loop (ports.py: one queued evaluation per push, FIFO);
  * the bodies of Expression.pause_asap_eval / is_asap_eval_paused / eval (base.py) and the skip rule of
    main.handle_value_changes, which must have exactly the text the model (C16/Model.v: deadline, is_paused, loop_pauses)
    was written against.
Emits Gen/C16Gen.v: the constants and `held_pause_fixed : bool`.
"""
import ast

from harness.common import coq, repo


class Untranslatable(Exception):
    pass


T, F = True, False

PAUSE_SHAPES = {
    'DelayFunction': {
        'std': [((('self._queue', T),), 'self._queue[0][0] + delay'),
                ((('self._queue', F),), 'context.now_ms + delay')],
    },
    'SampleFunction': {
        'std': [((('context.now_ms - self._last_time_ms < self._last_duration_ms', T),),
                 'self._last_time_ms + self._last_duration_ms')],
    },
    'FreezeFunction': {
        'std': [((('self._last_time_ms == 0', T), ('value != self._last_value', F)), ''),
                ((('self._last_time_ms == 0', F), ('context.now_ms - self._last_time_ms > self._last_duration_ms', F)),
                 'self._last_time_ms + self._last_duration_ms')],
    },
    'HeldFunction': {
        'old': [((('value == fixed_value', T), ('self._state == self.STATE_OFF', T)), 'self._start_time_ms + duration'),
                ((('value == fixed_value', T), ('self._state == self.STATE_OFF', F), ('self._state == self.STATE_WAITING', T)), ''),
                ((('value == fixed_value', F),), '')],
        'fixed': [((('value == fixed_value', T), ('self._state == self.STATE_OFF', T)), 'self._start_time_ms + duration'),
                  ((('value == fixed_value', T), ('self._state == self.STATE_OFF', F), ('self._state == self.STATE_WAITING', T),
                    ('delta >= duration', T)), ''),
                  ((('value == fixed_value', T), ('self._state == self.STATE_OFF', F), ('self._state == self.STATE_WAITING', T),
                    ('delta >= duration', F)), 'self._start_time_ms + duration'),
                  ((('value == fixed_value', F),), '')],
    },
    'DerivFunction': {
        'std': [((('self._last_value is not None', T), ('delta < sampling_interval', T)), 'self._last_time_ms + sampling_interval')],
    },
    'IntegFunction': {
        'std': [((('self._last_value is not None', T), ('delta < sampling_interval', T)), 'self._last_time_ms + sampling_interval')],
    },
    'FMAvgFunction': {
        'std': [((('self._last_time_ms > 0', T), ('delta < sampling_interval', T)), 'self._last_time_ms + sampling_interval')],
    },
    'FMedianFunction': {
        'std': [((('self._last_time_ms > 0', T), ('delta < sampling_interval', T)), 'self._last_time_ms + sampling_interval')],
    },
}

EAGER = [('args', ()), ('return', ())]
_SKIPS = lambda first: [('args', ()),                                                      # noqa: E731
                        ('raise', ((first, T), ('delta < sampling_interval', T))),
                        ('raise', ((first, T), ('delta > TIME_JUMP_THRESHOLD', T))),
                        ('return', ())]
_FZ_IDLE, _FZ_CHG = ('self._last_time_ms == 0', T), ('value != self._last_value', T)
_FZ_EXP = (('self._last_time_ms == 0', F), ('context.now_ms - self._last_time_ms > self._last_duration_ms', T))
# order of argument evaluation relative to the early exits (and to what is written before an argument is evaluated);
# C16/ArgModel.v (ostep) was written against exactly these shapes
ARG_SHAPES = {
    'timeprocessing.py': {
        'DelayFunction': EAGER,
        'SampleFunction': [('return', (('context.now_ms - self._last_time_ms < self._last_duration_ms', T),)), ('args', ()), ('return', ())],
        'FreezeFunction': [('arg', 0, (_FZ_IDLE,)), ('write', '_last_time_ms', (_FZ_IDLE, _FZ_CHG)), ('arg', 1, (_FZ_IDLE, _FZ_CHG)),
                           ('recurse', _FZ_EXP), ('return', _FZ_EXP), ('return', ())],
        'HeldFunction': EAGER,
        'DerivFunction': _SKIPS('self._last_value is not None'),
        'IntegFunction': _SKIPS('self._last_value is not None'),
        'FMAvgFunction': _SKIPS('self._last_time_ms > 0'),
        'FMedianFunction': _SKIPS('self._last_time_ms > 0'),
    },
    'various.py': {
        'RisingFunction': [('arg', 0, ()), ('return', ())],
        'FallingFunction': [('arg', 0, ()), ('return', ())],
        'AccFunction': EAGER, 'AccIncFunction': EAGER, 'HystFunction': EAGER,
        'SequenceFunction': [('write', '_last_time_ms', (('self._last_time_ms == 0', T),)), ('args', ()), ('return', ())],
    },
}

BASE_BODIES = {
    'pause_asap_eval': 'self._asap_eval_paused_until_ms = pause_until_ms or int(10000000000000.0)',
    'is_asap_eval_paused': 'return now_ms < self._asap_eval_paused_until_ms',
    'eval': ('self._asap_eval_paused_until_ms = 0\n'
             'try:\n    return await self._eval(context)\n'
             'except EvalSkipped:\n    raise\n'
             'except ValueUnavailable:\n    raise\n'
             'except ExpressionEvalError:\n    self.pause_asap_eval(context.now_ms + 1000)\n    raise'),
}

# the hub's scheduling of evaluations (core/ports.py BasePort): every push queues an evaluation with the snapshot and the time
# of the push (no coalescing), evaluated in FIFO order; C16's loop model (one evaluation per non-skipped tick, on that tick's
# values) and the real-port stream of harness/props/c16_worker.py rely on it
PORT_BODIES = {
    'push_eval': ("port_values = {p.get_id(): p.get_last_read_value() for p in get_all() if p.is_enabled()}\n"
                  "now_ms = int(time.time() * 1000)\n"
                  "try:\n    self._eval_queue.put_nowait(self._make_eval_context(port_values, now_ms))\n"
                  "except asyncio.QueueFull:\n    self.warning('eval queue full')"),
    'has_pending_eval': 'return self._eval_queue.qsize() > 0 or self._evaling',
    '_eval_loop': ("while True:\n    try:\n        context = await self._eval_queue.get()\n"
                   "        await self._eval_and_write(context)\n"
                   "    except Exception:\n        self.error('eval failed', exc_info=True)\n"
                   "    except asyncio.CancelledError:\n        self.debug('eval task cancelled')\n        break"),
}

SKIP_RULE = ("if 'asap' in deps and len(changed_deps) == 1:\n"
             "    if expression.is_asap_eval_paused(now_ms):\n        continue\n"
             "    if port.has_pending_eval():\n        continue")


def _pause_calls(fn):
    """[(path, argtext)] of the `self.pause_asap_eval(...)` statements of an _eval body; path = ((test text, branch), ...)"""
    found = []

    def is_pause(st):
        return (isinstance(st, ast.Expr) and isinstance(st.value, ast.Call) and isinstance(st.value.func, ast.Attribute)
                and st.value.func.attr == 'pause_asap_eval' and isinstance(st.value.func.value, ast.Name)
                and st.value.func.value.id == 'self' and not st.value.keywords and len(st.value.args) <= 1)

    def walk(stmts, path):
        for st in stmts:
            if is_pause(st):
                found.append((tuple(path), ast.unparse(st.value.args[0]) if st.value.args else ''))
            elif isinstance(st, ast.If):
                t = ast.unparse(st.test)
                walk(st.body, path + [(t, T)])
                walk(st.orelse, path + [(t, F)])
            # pause calls inside loops / try / with are not a known shape: caught by the count below
    walk(fn.body, [])
    total = sum(1 for n in ast.walk(fn) if isinstance(n, ast.Attribute) and n.attr in ('pause_asap_eval', '_asap_eval_paused_until_ms'))
    if total != len(found):
        raise Untranslatable('%d uses of pause_asap_eval, %d recognised' % (total, len(found)))
    return found


def _arg_events(fn):
    """the order of argument evaluation relative to the early exits of an `_eval` body:
    [('args', path)] for `self.eval_args(context)`, [('arg', i, path)] for `self.args[i].eval(context)`,
    ('return', path) / ('raise', path) / ('recurse', path) for the exits; path = enclosing if tests with their branch
    (loops add ('loop', True)).  Any other use of `self.args` is not a known shape."""
    events = []

    def scan_expr(node, path):
        n_args = 0
        for x in ast.walk(node):
            if isinstance(x, ast.Call) and isinstance(x.func, ast.Attribute):
                f = x.func
                if f.attr == 'eval_args' and isinstance(f.value, ast.Name) and f.value.id == 'self':
                    events.append(('args', tuple(path)))
                elif (f.attr == 'eval' and isinstance(f.value, ast.Subscript) and isinstance(f.value.value, ast.Attribute)
                      and f.value.value.attr == 'args' and isinstance(f.value.slice, ast.Constant)):
                    events.append(('arg', f.value.slice.value, tuple(path)))
                    n_args += 1
                elif f.attr == '_eval' and isinstance(f.value, ast.Name) and f.value.id == 'self':
                    events.append(('recurse', tuple(path)))
            if isinstance(x, ast.Attribute) and x.attr == 'args' and isinstance(x.value, ast.Name) and x.value.id == 'self':
                n_args -= 1
        if n_args != 0:
            raise Untranslatable('self.args used other than as self.args[<const>].eval(...)')

    def walk(stmts, path):
        for st in stmts:
            if isinstance(st, ast.If):
                scan_expr(st.test, path)
                t = ast.unparse(st.test)
                walk(st.body, path + [(t, T)])
                walk(st.orelse, path + [(t, F)])
            elif isinstance(st, (ast.While, ast.For)):
                scan_expr(st.test if isinstance(st, ast.While) else st.iter, path)
                walk(st.body, path + [('loop', T)])
                walk(st.orelse, path + [('loop', F)])
            elif isinstance(st, ast.Return):
                if st.value is not None:
                    scan_expr(st.value, path)
                events.append(('return', tuple(path)))
            elif isinstance(st, ast.Raise):
                events.append(('raise', tuple(path)))
            elif isinstance(st, (ast.Assign, ast.AugAssign, ast.AnnAssign, ast.Expr)):
                scan_expr(st, path)
                targets = st.targets if isinstance(st, ast.Assign) else [getattr(st, 'target', None)]
                for tg in targets:
                    for x in (ast.walk(tg) if tg is not None else []):
                        if isinstance(x, ast.Attribute) and isinstance(x.value, ast.Name) and x.value.id == 'self' \
                                and isinstance(x.ctx, ast.Store):
                            events.append(('write', x.attr, tuple(path)))
            elif isinstance(st, (ast.Break, ast.Continue, ast.Pass)):
                pass
            else:
                raise Untranslatable('statement %s in _eval' % type(st).__name__)
    walk(fn.body, [])
    # what is written to the object BEFORE an argument is evaluated matters (it stays written when the argument fails);
    # writes after the last argument evaluation do not
    last = max([i for i, e in enumerate(events) if e[0] in ('args', 'arg')], default=-1)
    return [e for i, e in enumerate(events) if e[0] != 'write' or i < last]


def _int_const(node, what):
    if isinstance(node, ast.Constant) and isinstance(node.value, int) and not isinstance(node.value, bool):
        return node.value
    raise Untranslatable('%s is not an int constant' % what)


def _class_const(cls, name):
    for st in cls.body:
        if isinstance(st, ast.Assign) and len(st.targets) == 1 and isinstance(st.targets[0], ast.Name) and st.targets[0].id == name:
            return _int_const(st.value, '%s.%s' % (cls.name, name))
    raise Untranslatable('%s.%s not found' % (cls.name, name))


def read():
    with open(repo.path('qtoggleserver/core/expressions/__init__.py')) as f:
        tree = ast.parse(f.read())
    thr = None
    for st in tree.body:
        if isinstance(st, ast.Assign) and len(st.targets) == 1 and isinstance(st.targets[0], ast.Name) \
                and st.targets[0].id == 'TIME_JUMP_THRESHOLD':
            thr = _int_const(st.value, 'TIME_JUMP_THRESHOLD')
    if thr is None:
        raise Untranslatable('TIME_JUMP_THRESHOLD not found')

    with open(repo.path('qtoggleserver/core/expressions/timeprocessing.py')) as f:
        tree = ast.parse(f.read())
    classes = {n.name: n for n in tree.body if isinstance(n, ast.ClassDef)}
    shapes = {}
    for cname, known in PAUSE_SHAPES.items():
        cls = classes.get(cname)
        if cls is None:
            raise Untranslatable('class %s not found' % cname)
        fns = [n for n in cls.body if isinstance(n, ast.AsyncFunctionDef) and n.name == '_eval']
        if len(fns) != 1:
            raise Untranslatable('%s._eval not found' % cname)
        calls = _pause_calls(fns[0])
        hit = [k for k, v in known.items() if v == calls]
        if not hit:
            raise Untranslatable('%s._eval: pause_asap_eval calls have an unknown shape: %r' % (cname, calls))
        shapes[cname] = hit[0]
        # no other method of the class touches the pause
        for n in cls.body:
            if n is not fns[0] and any(isinstance(x, ast.Attribute) and x.attr in ('pause_asap_eval', '_asap_eval_paused_until_ms')
                                       for x in ast.walk(n)):
                raise Untranslatable('%s: pause used outside _eval' % cname)
    for fname, shapes_by_class in ARG_SHAPES.items():
        with open(repo.path('qtoggleserver/core/expressions/' + fname)) as f:
            t2 = ast.parse(f.read())
        cl2 = {n.name: n for n in t2.body if isinstance(n, ast.ClassDef)}
        for cname, want in shapes_by_class.items():
            if cname not in cl2:
                raise Untranslatable('class %s not found' % cname)
            fns = [n for n in cl2[cname].body if isinstance(n, ast.AsyncFunctionDef) and n.name == '_eval']
            if len(fns) != 1:
                raise Untranslatable('%s._eval not found' % cname)
            got = _arg_events(fns[0])
            if got != want:
                raise Untranslatable('%s._eval: arguments are evaluated in an unknown order relative to the early exits: %r'
                                     % (cname, got))
    consts = {
        'time_jump_threshold': thr,
        'delay_history_size': _class_const(classes['DelayFunction'], 'HISTORY_SIZE'),
        'fmavg_queue_size': _class_const(classes['FMAvgFunction'], 'QUEUE_SIZE'),
        'fmedian_queue_size': _class_const(classes['FMedianFunction'], 'QUEUE_SIZE'),
    }

    with open(repo.path('qtoggleserver/core/expressions/base.py')) as f:
        tree = ast.parse(f.read())
    expr_cls = [n for n in tree.body if isinstance(n, ast.ClassDef) and n.name == 'Expression']
    if len(expr_cls) != 1:
        raise Untranslatable('base.Expression not found')
    for name, want in BASE_BODIES.items():
        fns = [n for n in expr_cls[0].body if isinstance(n, (ast.FunctionDef, ast.AsyncFunctionDef)) and n.name == name]
        if len(fns) != 1:
            raise Untranslatable('Expression.%s not found' % name)
        body = [s for s in fns[0].body if not (isinstance(s, ast.Expr) and isinstance(s.value, ast.Constant))]
        got = '\n'.join(ast.unparse(s) for s in body)
        if got != want:
            raise Untranslatable('Expression.%s has an unknown body: %r' % (name, got))

    with open(repo.path('qtoggleserver/core/ports.py')) as f:
        tree = ast.parse(f.read())
    bp = [n for n in tree.body if isinstance(n, ast.ClassDef) and n.name == 'BasePort']
    if len(bp) != 1:
        raise Untranslatable('ports.BasePort not found')
    for name, want in PORT_BODIES.items():
        fns = [n for n in bp[0].body if isinstance(n, (ast.FunctionDef, ast.AsyncFunctionDef)) and n.name == name]
        if len(fns) != 1:
            raise Untranslatable('BasePort.%s not found' % name)
        body = [st for st in fns[0].body if not (isinstance(st, ast.Expr) and isinstance(st.value, ast.Constant))]
        got = '\n'.join(ast.unparse(st) for st in body)
        if got != want:
            raise Untranslatable('BasePort.%s has an unknown body: %r' % (name, got))

    with open(repo.path('qtoggleserver/core/main.py')) as f:
        tree = ast.parse(f.read())
    hv = [n for n in tree.body if isinstance(n, ast.AsyncFunctionDef) and n.name == 'handle_value_changes']
    if len(hv) != 1:
        raise Untranslatable('main.handle_value_changes not found')
    rules = [ast.unparse(n) for n in ast.walk(hv[0]) if isinstance(n, ast.If) and 'is_asap_eval_paused' in ast.unparse(n.test) + ast.unparse(n)
             and "'asap' in deps" in ast.unparse(n.test)]
    if rules != [SKIP_RULE]:
        raise Untranslatable('main.handle_value_changes: skip rule has an unknown shape: %r' % (rules,))
    uses = sum(1 for n in ast.walk(hv[0]) if isinstance(n, ast.Attribute) and n.attr == 'is_asap_eval_paused')
    if uses != 1:
        raise Untranslatable('main.handle_value_changes: %d uses of is_asap_eval_paused' % uses)
    return consts, shapes


def translate(ctx=None):
    consts, shapes = read()
    fixed = shapes['HeldFunction'] == 'fixed'
    text = (
        '(* generated by harness/translate/timefuncs.py from %s — do not edit *)\n'
        'From Coq Require Import ZArith.\nOpen Scope Z_scope.\n' % repo.path('qtoggleserver/core/expressions/timeprocessing.py')
        + ''.join('Definition %s : Z := %s.\n' % (k, coq.z(v)) for k, v in consts.items())
        + '(* HELD in state WAITING: true = pauses until start + duration while delta < duration; false = pauses for ever *)\n'
        + 'Definition held_pause_fixed : bool := %s.\n' % coq.boolean(fixed)
    )
    coq.write_gen('C16Gen.v', text)
    return {'status': 'ok', 'detail': 'constants %r; pause shapes %r' % (consts, shapes)}
