"""Translator (tie T) for C16: regenerates theories/Gen/C16Gen.v from
qtoggleserver/core/expressions/{__init__,base,timeprocessing}.py and core/main.py.

Reads
  * TIME_JUMP_THRESHOLD (int constant), DelayFunction.HISTORY_SIZE, FMAvgFunction.QUEUE_SIZE, FMedianFunction.QUEUE_SIZE;
  * for every time-processing class, the list of `self.pause_asap_eval(<arg>)` statements of `_eval`, each with the chain of
    enclosing `if` tests (and which branch) and the text of its argument.  The list must be one of the shapes below
    (HELD has two known shapes: the one that pauses for ever in both branches of state WAITING, and the one that pauses
    until start + duration while still waiting); anything else is untranslatable (fail closed);
  * the bodies of Expression.pause_asap_eval / is_asap_eval_paused / eval (base.py) and the skip rule of
    main.handle_value_changes, which must have exactly the text the model (C16/Model.v: deadline, is_paused, loop_pauses)
    was written against.
Emits Gen/C16Gen.v: the constants and `held_pause_fixed : bool`.
"""
import ast

from harness.common import coq, repo


class Untranslatable(Exception):
    pass


T, F = True, False

PAUSE_SHAPES = {
    'DelayFunction': {
        'std': [((('self._queue', T),), 'self._queue[0][0] + delay'),
                ((('self._queue', F),), 'context.now_ms + delay')],
    },
    'SampleFunction': {
        'std': [((('context.now_ms - self._last_time_ms < self._last_duration_ms', T),),
                 'self._last_time_ms + self._last_duration_ms')],
    },
    'FreezeFunction': {
        'std': [((('self._last_time_ms == 0', T), ('value != self._last_value', F)), ''),
                ((('self._last_time_ms == 0', F), ('context.now_ms - self._last_time_ms > self._last_duration_ms', F)),
                 'self._last_time_ms + self._last_duration_ms')],
    },
    'HeldFunction': {
        'old': [((('value == fixed_value', T), ('self._state == self.STATE_OFF', T)), 'self._start_time_ms + duration'),
                ((('value == fixed_value', T), ('self._state == self.STATE_OFF', F), ('self._state == self.STATE_WAITING', T)), ''),
                ((('value == fixed_value', F),), '')],
        'fixed': [((('value == fixed_value', T), ('self._state == self.STATE_OFF', T)), 'self._start_time_ms + duration'),
                  ((('value == fixed_value', T), ('self._state == self.STATE_OFF', F), ('self._state == self.STATE_WAITING', T),
                    ('delta >= duration', T)), ''),
                  ((('value == fixed_value', T), ('self._state == self.STATE_OFF', F), ('self._state == self.STATE_WAITING', T),
                    ('delta >= duration', F)), 'self._start_time_ms + duration'),
                  ((('value == fixed_value', F),), '')],
    },
    'DerivFunction': {
        'std': [((('self._last_value is not None', T), ('delta < sampling_interval', T)), 'self._last_time_ms + sampling_interval')],
    },
    'IntegFunction': {
        'std': [((('self._last_value is not None', T), ('delta < sampling_interval', T)), 'self._last_time_ms + sampling_interval')],
    },
    'FMAvgFunction': {
        'std': [((('self._last_time_ms > 0', T), ('delta < sampling_interval', T)), 'self._last_time_ms + sampling_interval')],
    },
    'FMedianFunction': {
        'std': [((('self._last_time_ms > 0', T), ('delta < sampling_interval', T)), 'self._last_time_ms + sampling_interval')],
    },
}

BASE_BODIES = {
    'pause_asap_eval': 'self._asap_eval_paused_until_ms = pause_until_ms or int(10000000000000.0)',
    'is_asap_eval_paused': 'return now_ms < self._asap_eval_paused_until_ms',
    'eval': ('self._asap_eval_paused_until_ms = 0\n'
             'try:\n    return await self._eval(context)\n'
             'except EvalSkipped:\n    raise\n'
             'except ValueUnavailable:\n    raise\n'
             'except ExpressionEvalError:\n    self.pause_asap_eval(context.now_ms + 1000)\n    raise'),
}

SKIP_RULE = ("if 'asap' in deps and len(changed_deps) == 1:\n"
             "    if expression.is_asap_eval_paused(now_ms):\n        continue\n"
             "    if port.has_pending_eval():\n        continue")


def _pause_calls(fn):
    """[(path, argtext)] of the `self.pause_asap_eval(...)` statements of an _eval body; path = ((test text, branch), ...)"""
    found = []

    def is_pause(st):
        return (isinstance(st, ast.Expr) and isinstance(st.value, ast.Call) and isinstance(st.value.func, ast.Attribute)
                and st.value.func.attr == 'pause_asap_eval' and isinstance(st.value.func.value, ast.Name)
                and st.value.func.value.id == 'self' and not st.value.keywords and len(st.value.args) <= 1)

    def walk(stmts, path):
        for st in stmts:
            if is_pause(st):
                found.append((tuple(path), ast.unparse(st.value.args[0]) if st.value.args else ''))
            elif isinstance(st, ast.If):
                t = ast.unparse(st.test)
                walk(st.body, path + [(t, T)])
                walk(st.orelse, path + [(t, F)])
            # pause calls inside loops / try / with are not a known shape: caught by the count below
    walk(fn.body, [])
    total = sum(1 for n in ast.walk(fn) if isinstance(n, ast.Attribute) and n.attr in ('pause_asap_eval', '_asap_eval_paused_until_ms'))
    if total != len(found):
        raise Untranslatable('%d uses of pause_asap_eval, %d recognised' % (total, len(found)))
    return found


def _int_const(node, what):
    if isinstance(node, ast.Constant) and isinstance(node.value, int) and not isinstance(node.value, bool):
        return node.value
    raise Untranslatable('%s is not an int constant' % what)


def _class_const(cls, name):
    for st in cls.body:
        if isinstance(st, ast.Assign) and len(st.targets) == 1 and isinstance(st.targets[0], ast.Name) and st.targets[0].id == name:
            return _int_const(st.value, '%s.%s' % (cls.name, name))
    raise Untranslatable('%s.%s not found' % (cls.name, name))


def read():
    with open(repo.path('qtoggleserver/core/expressions/__init__.py')) as f:
        tree = ast.parse(f.read())
    thr = None
    for st in tree.body:
        if isinstance(st, ast.Assign) and len(st.targets) == 1 and isinstance(st.targets[0], ast.Name) \
                and st.targets[0].id == 'TIME_JUMP_THRESHOLD':
            thr = _int_const(st.value, 'TIME_JUMP_THRESHOLD')
    if thr is None:
        raise Untranslatable('TIME_JUMP_THRESHOLD not found')

    with open(repo.path('qtoggleserver/core/expressions/timeprocessing.py')) as f:
        tree = ast.parse(f.read())
    classes = {n.name: n for n in tree.body if isinstance(n, ast.ClassDef)}
    shapes = {}
    for cname, known in PAUSE_SHAPES.items():
        cls = classes.get(cname)
        if cls is None:
            raise Untranslatable('class %s not found' % cname)
        fns = [n for n in cls.body if isinstance(n, ast.AsyncFunctionDef) and n.name == '_eval']
        if len(fns) != 1:
            raise Untranslatable('%s._eval not found' % cname)
        calls = _pause_calls(fns[0])
        hit = [k for k, v in known.items() if v == calls]
        if not hit:
            raise Untranslatable('%s._eval: pause_asap_eval calls have an unknown shape: %r' % (cname, calls))
        shapes[cname] = hit[0]
        # no other method of the class touches the pause
        for n in cls.body:
            if n is not fns[0] and any(isinstance(x, ast.Attribute) and x.attr in ('pause_asap_eval', '_asap_eval_paused_until_ms')
                                       for x in ast.walk(n)):
                raise Untranslatable('%s: pause used outside _eval' % cname)
    consts = {
        'time_jump_threshold': thr,
        'delay_history_size': _class_const(classes['DelayFunction'], 'HISTORY_SIZE'),
        'fmavg_queue_size': _class_const(classes['FMAvgFunction'], 'QUEUE_SIZE'),
        'fmedian_queue_size': _class_const(classes['FMedianFunction'], 'QUEUE_SIZE'),
    }

    with open(repo.path('qtoggleserver/core/expressions/base.py')) as f:
        tree = ast.parse(f.read())
    expr_cls = [n for n in tree.body if isinstance(n, ast.ClassDef) and n.name == 'Expression']
    if len(expr_cls) != 1:
        raise Untranslatable('base.Expression not found')
    for name, want in BASE_BODIES.items():
        fns = [n for n in expr_cls[0].body if isinstance(n, (ast.FunctionDef, ast.AsyncFunctionDef)) and n.name == name]
        if len(fns) != 1:
            raise Untranslatable('Expression.%s not found' % name)
        body = [s for s in fns[0].body if not (isinstance(s, ast.Expr) and isinstance(s.value, ast.Constant))]
        got = '\n'.join(ast.unparse(s) for s in body)
        if got != want:
            raise Untranslatable('Expression.%s has an unknown body: %r' % (name, got))

    with open(repo.path('qtoggleserver/core/main.py')) as f:
        tree = ast.parse(f.read())
    hv = [n for n in tree.body if isinstance(n, ast.AsyncFunctionDef) and n.name == 'handle_value_changes']
    if len(hv) != 1:
        raise Untranslatable('main.handle_value_changes not found')
    rules = [ast.unparse(n) for n in ast.walk(hv[0]) if isinstance(n, ast.If) and 'is_asap_eval_paused' in ast.unparse(n.test) + ast.unparse(n)
             and "'asap' in deps" in ast.unparse(n.test)]
    if rules != [SKIP_RULE]:
        raise Untranslatable('main.handle_value_changes: skip rule has an unknown shape: %r' % (rules,))
    uses = sum(1 for n in ast.walk(hv[0]) if isinstance(n, ast.Attribute) and n.attr == 'is_asap_eval_paused')
    if uses != 1:
        raise Untranslatable('main.handle_value_changes: %d uses of is_asap_eval_paused' % uses)
    return consts, shapes


def translate(ctx=None):
    consts, shapes = read()
    fixed = shapes['HeldFunction'] == 'fixed'
    text = (
        '(* generated by harness/translate/timefuncs.py from %s — do not edit *)\n'
        'From Coq Require Import ZArith.\nOpen Scope Z_scope.\n' % repo.path('qtoggleserver/core/expressions/timeprocessing.py')
        + ''.join('Definition %s : Z := %s.\n' % (k, coq.z(v)) for k, v in consts.items())
        + '(* HELD in state WAITING: true = pauses until start + duration while delta < duration; false = pauses for ever *)\n'
        + 'Definition held_pause_fixed : bool := %s.\n' % coq.boolean(fixed)
    )
    coq.write_gen('C16Gen.v', text)
    return {'status': 'ok', 'detail': 'constants %r; pause shapes %r' % (consts, shapes)}
