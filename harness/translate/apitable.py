"""Translator (tie T) for C09, part 1: the API function level table and the shape of the api_call wrapper.

Reads (python `ast`, closed list of shapes; anything else raises Untranslatable = fail closed):

* qtoggleserver/core/api/__init__.py
    - ACCESS_LEVEL_<NAME> = <int>            module-level constants
    - ACCESS_LEVEL_MAPPING = {...}           only the  '<user>': ACCESS_LEVEL_X  items are used (user -> level)
    - def api_call(access_level=<default>) / def decorator(func) / def wrapper(request_handler, *args, **kwargs):
      the wrapper body must be a sequence of
          logger.<x>(...)                                             ignored
          if <cmp>: <stmts> [else: <stmts>]                           <cmp> over request_handler.access_level,
                                                                      access_level, ACCESS_LEVEL_* names, ints;
                                                                      < <= > >= == != and/or/not
          raise APIError(<int>, ...)                                  -> Deny <int>
          request = APIRequest(request_handler)                       ignored
          return func(request, *args, **kwargs)                       -> Serve
      and is turned into one Coq expression over (level, required).
* every qtoggleserver/**/api/funcs.py and qtoggleserver/**/api/funcs/*.py: top-level (async) functions decorated with
  exactly `@core_api.api_call(<level>)` / `@api_call(<level>)`, level = ACCESS_LEVEL_* name or int (or absent: default).
  An api_call decorator anywhere else in the package (nested, other file, stacked with another decorator) is refused.

The result is kept in LAST and written to Gen/C09Gen.v by routes.translate (one generated file for the property).
"""
import ast
import glob
import os

from harness.common import coq, repo


class Untranslatable(Exception):
    pass


LAST = None  # result of the last successful parse()


def _src(rel):
    with open(repo.path(rel)) as f:
        return f.read()


def dotted(e):
    """a.b.c -> 'a.b.c' (Names/Attributes only), else None"""
    parts = []
    while isinstance(e, ast.Attribute):
        parts.append(e.attr)
        e = e.value
    if isinstance(e, ast.Name):
        parts.append(e.id)
        return '.'.join(reversed(parts))
    return None


def _is_int(e):
    return isinstance(e, ast.Constant) and isinstance(e.value, int) and not isinstance(e.value, bool)


# ---------------------------------------------------------------------------------------------------------------------
# core/api/__init__.py

def parse_core_api():
    rel = 'qtoggleserver/core/api/__init__.py'
    tree = ast.parse(_src(rel))
    consts, users = {}, {}
    api_call = None
    for n in tree.body:
        if isinstance(n, ast.Assign) and len(n.targets) == 1 and isinstance(n.targets[0], ast.Name):
            name = n.targets[0].id
            if name.startswith('ACCESS_LEVEL_') and name != 'ACCESS_LEVEL_MAPPING':
                if not _is_int(n.value):
                    raise Untranslatable('%s is not an integer literal' % name)
                consts[name] = n.value.value
            elif name == 'ACCESS_LEVEL_MAPPING':
                if not isinstance(n.value, ast.Dict):
                    raise Untranslatable('ACCESS_LEVEL_MAPPING is not a dict literal')
                for k, v in zip(n.value.keys, n.value.values):
                    if isinstance(k, ast.Constant) and isinstance(k.value, str):
                        if not (isinstance(v, ast.Name) and v.id in consts):
                            raise Untranslatable('ACCESS_LEVEL_MAPPING[%r] is not an ACCESS_LEVEL_* name' % k.value)
                        users[k.value] = consts[v.id]
        elif isinstance(n, ast.FunctionDef) and n.name == 'api_call':
            if api_call is not None:
                raise Untranslatable('api_call defined twice')
            api_call = n
        elif isinstance(n, (ast.FunctionDef, ast.AsyncFunctionDef)) and n.name in ('decorator', 'wrapper'):
            raise Untranslatable('unexpected top-level %s' % n.name)
    for need in ('ACCESS_LEVEL_NONE', 'ACCESS_LEVEL_VIEWONLY', 'ACCESS_LEVEL_NORMAL', 'ACCESS_LEVEL_ADMIN'):
        if need not in consts:
            raise Untranslatable('%s not found' % need)
    if api_call is None:
        raise Untranslatable('def api_call not found')

    # def api_call(access_level: int = DEFAULT)
    a = api_call.args
    if ([x.arg for x in a.args] != ['access_level'] or a.vararg or a.kwarg or a.kwonlyargs or a.posonlyargs
            or len(a.defaults) != 1):
        raise Untranslatable('api_call signature')
    default = _level_value(a.defaults[0], consts)
    body = [s for s in api_call.body if not _is_docstring(s)]
    if not (len(body) == 2 and isinstance(body[0], ast.FunctionDef) and body[0].name == 'decorator'
            and isinstance(body[1], ast.Return) and isinstance(body[1].value, ast.Name) and body[1].value.id == 'decorator'):
        raise Untranslatable('api_call body is not "def decorator ...; return decorator"')
    dec = body[0]
    if [x.arg for x in dec.args.args] != ['func'] or dec.decorator_list:
        raise Untranslatable('decorator signature')
    dbody = [s for s in dec.body if not _is_docstring(s)]
    if not (len(dbody) == 2 and isinstance(dbody[0], ast.FunctionDef) and dbody[0].name == 'wrapper'
            and isinstance(dbody[1], ast.Return) and isinstance(dbody[1].value, ast.Name) and dbody[1].value.id == 'wrapper'):
        raise Untranslatable('decorator body is not "def wrapper ...; return wrapper"')
    wr = dbody[0]
    if isinstance(wr, ast.AsyncFunctionDef):
        raise Untranslatable('wrapper is async')
    wa = wr.args
    if not ([x.arg for x in wa.args] == ['request_handler'] and wa.vararg and wa.vararg.arg == 'args'
            and wa.kwarg and wa.kwarg.arg == 'kwargs' and not wa.kwonlyargs and not wa.defaults):
        raise Untranslatable('wrapper signature')
    for d in wr.decorator_list:
        if dotted(d.func if isinstance(d, ast.Call) else d) != 'functools.wraps':
            raise Untranslatable('wrapper decorator other than functools.wraps')
    coq_expr, py_expr = _stmts(wr.body, consts)
    return {'consts': consts, 'users': users, 'default': default, 'wrapper_coq': coq_expr, 'wrapper_py': py_expr}


def _is_docstring(s):
    return isinstance(s, ast.Expr) and isinstance(s.value, ast.Constant) and isinstance(s.value.value, str)


def _level_value(e, consts):
    """level argument: ACCESS_LEVEL_X | core_api.ACCESS_LEVEL_X | int"""
    if _is_int(e):
        return e.value
    d = dotted(e)
    if d:
        name = d.split('.')[-1]
        if name in consts and d in (name, 'core_api.' + name, 'api.' + name):
            return consts[name]
    raise Untranslatable('access level expression ' + ast.dump(e)[:80])


def _lexpr(e, consts):
    """level expression inside the wrapper -> (coq, python-lambda-text)"""
    if _is_int(e):
        return coq.z(e.value), str(e.value)
    d = dotted(e)
    if d == 'request_handler.access_level':
        return 'level', 'level'
    if d == 'access_level':
        return 'required', 'required'
    if d in consts:
        return coq.z(consts[d]), str(consts[d])
    raise Untranslatable('level expression ' + ast.dump(e)[:80])


def _cond(t, consts):
    if isinstance(t, ast.Compare) and len(t.ops) == 1:
        a, pa = _lexpr(t.left, consts)
        b, pb = _lexpr(t.comparators[0], consts)
        ops = {ast.Lt: ('<?', '<'), ast.LtE: ('<=?', '<='), ast.Gt: ('>?', '>'), ast.GtE: ('>=?', '>='),
               ast.Eq: ('=?', '==')}
        if type(t.ops[0]) in ops:
            c, p = ops[type(t.ops[0])]
            return '(%s %s %s)' % (a, c, b), '(%s %s %s)' % (pa, p, pb)
        if isinstance(t.ops[0], ast.NotEq):
            return '(negb (%s =? %s))' % (a, b), '(%s != %s)' % (pa, pb)
        raise Untranslatable('comparison ' + type(t.ops[0]).__name__)
    if isinstance(t, ast.BoolOp):
        parts = [_cond(v, consts) for v in t.values]
        c, p = ('&&', 'and') if isinstance(t.op, ast.And) else ('||', 'or')
        return ('(' + (' %s ' % c).join(x[0] for x in parts) + ')', '(' + (' %s ' % p).join(x[1] for x in parts) + ')')
    if isinstance(t, ast.UnaryOp) and isinstance(t.op, ast.Not):
        c, p = _cond(t.operand, consts)
        return '(negb %s)' % c, '(not %s)' % p
    raise Untranslatable('condition ' + ast.dump(t)[:80])


def _stmts(stmts, consts):
    """statement list of the wrapper -> (coq expr : outcome, python expr giving 'serve' or the status int)"""
    if not stmts:
        raise Untranslatable('wrapper can fall off its end without calling func')
    s, rest = stmts[0], list(stmts[1:])
    if _is_docstring(s):
        return _stmts(rest, consts)
    if isinstance(s, ast.Expr) and isinstance(s.value, ast.Call) and (dotted(s.value.func) or '').startswith('logger.'):
        return _stmts(rest, consts)
    if (isinstance(s, ast.Assign) and len(s.targets) == 1 and isinstance(s.targets[0], ast.Name)
            and s.targets[0].id == 'request' and isinstance(s.value, ast.Call) and dotted(s.value.func) == 'APIRequest'
            and len(s.value.args) == 1 and dotted(s.value.args[0]) == 'request_handler' and not s.value.keywords):
        return _stmts(rest, consts)
    if isinstance(s, ast.If):
        c, p = _cond(s.test, consts)
        a, pa = _stmts(list(s.body) + rest, consts)
        b, pb = _stmts(list(s.orelse) + rest, consts)
        return '(if %s then %s else %s)' % (c, a, b), '(%s if %s else %s)' % (pa, p, pb)
    if isinstance(s, ast.Raise):
        e = s.exc
        if (isinstance(e, ast.Call) and dotted(e.func) == 'APIError' and e.args and _is_int(e.args[0])
                and 400 <= e.args[0].value <= 599):
            return '(Deny %d)' % e.args[0].value, str(e.args[0].value)
        raise Untranslatable('raise other than APIError(<4xx/5xx int>, ...)')
    if isinstance(s, ast.Return):
        v = s.value
        if (isinstance(v, ast.Call) and dotted(v.func) == 'func' and len(v.args) == 2
                and dotted(v.args[0]) == 'request' and isinstance(v.args[1], ast.Starred)
                and dotted(v.args[1].value) == 'args' and len(v.keywords) == 1 and v.keywords[0].arg is None
                and dotted(v.keywords[0].value) == 'kwargs'):
            return 'Serve', "'serve'"
        raise Untranslatable('return other than func(request, *args, **kwargs)')
    raise Untranslatable('wrapper statement ' + ast.dump(s)[:80])


# ---------------------------------------------------------------------------------------------------------------------
# */api/funcs*.py

def funcs_files():
    root = repo.path('qtoggleserver')
    files = set(glob.glob(os.path.join(root, '**', 'api', 'funcs.py'), recursive=True))
    files |= set(glob.glob(os.path.join(root, '**', 'api', 'funcs', '*.py'), recursive=True))
    return sorted(files)


def modname(path):
    rel = os.path.relpath(path, repo.REPO)
    mod = rel[:-3].replace(os.sep, '.')
    return mod[:-len('.__init__')] if mod.endswith('.__init__') else mod


def _api_call_decorator(d):
    """is decorator expression d an api_call(...) use?  -> the Call node, or None"""
    if isinstance(d, ast.Call):
        name = dotted(d.func)
        if name and name.split('.')[-1] == 'api_call':
            return d
    name = dotted(d)
    if name and name.split('.')[-1] == 'api_call':
        raise Untranslatable('api_call used as a bare decorator')
    return None


def parse_funcs(core):
    consts = core['consts']
    table = {}      # 'module.func' -> level
    exports = {}    # module -> {name: 'module.func'} (functions with a level defined at top level of that module)
    ffiles = funcs_files()
    if not ffiles:
        raise Untranslatable('no api/funcs files found')
    for path in ffiles:
        mod = modname(path)
        with open(path) as f:
            tree = ast.parse(f.read())
        top = {id(n) for n in tree.body}
        exports.setdefault(mod, {})
        for n in ast.walk(tree):
            if not isinstance(n, (ast.FunctionDef, ast.AsyncFunctionDef, ast.ClassDef)):
                continue
            calls = [c for c in (_api_call_decorator(d) for d in n.decorator_list) if c is not None]
            if not calls:
                continue
            if id(n) not in top or isinstance(n, ast.ClassDef):
                raise Untranslatable('%s: api_call on a nested function or class (%s)' % (mod, n.name))
            if len(n.decorator_list) != 1:
                raise Untranslatable('%s.%s: api_call stacked with other decorators' % (mod, n.name))
            c = calls[0]
            if dotted(c.func) not in ('core_api.api_call', 'api_call'):
                raise Untranslatable('%s.%s: decorator %s' % (mod, n.name, dotted(c.func)))
            if len(c.args) + len(c.keywords) > 1 or any(k.arg != 'access_level' for k in c.keywords):
                raise Untranslatable('%s.%s: api_call arguments' % (mod, n.name))
            arg = c.args[0] if c.args else (c.keywords[0].value if c.keywords else None)
            level = core['default'] if arg is None else _level_value(arg, consts)
            key = '%s.%s' % (mod, n.name)
            if key in table:
                raise Untranslatable('%s defined twice' % key)
            table[key] = level
            exports[mod][n.name] = key
        # a later plain assignment/def rebinding the same name would shadow the decorated function
        names = [x.name for x in tree.body if isinstance(x, (ast.FunctionDef, ast.AsyncFunctionDef, ast.ClassDef))]
        for nm in exports[mod]:
            if names.count(nm) != 1:
                raise Untranslatable('%s.%s bound more than once' % (mod, nm))
        for x in tree.body:
            if isinstance(x, (ast.Assign, ast.AugAssign, ast.AnnAssign)):
                tg = x.targets if isinstance(x, ast.Assign) else [x.target]
                for t in tg:
                    if isinstance(t, ast.Name) and t.id in exports[mod]:
                        raise Untranslatable('%s.%s reassigned' % (mod, t.id))
    # api_call decorators outside the funcs files
    fset = set(ffiles)
    for path in glob.glob(os.path.join(repo.path('qtoggleserver'), '**', '*.py'), recursive=True):
        if path in fset or os.sep + 'node_modules' + os.sep in path:
            continue
        with open(path) as f:
            src = f.read()
        if 'api_call' not in src:
            continue
        for n in ast.walk(ast.parse(src)):
            if isinstance(n, (ast.FunctionDef, ast.AsyncFunctionDef, ast.ClassDef)):
                for d in n.decorator_list:
                    if _api_call_decorator(d) is not None:
                        raise Untranslatable('api_call decorator outside api/funcs files: %s (%s)' % (modname(path), n.name))
    return table, exports


def parse():
    global LAST
    LAST = None
    core = parse_core_api()
    table, exports = parse_funcs(core)
    core['levels'] = table
    core['exports'] = exports
    LAST = core
    return core


def wrapper_py(core):
    """python function (level, required) -> 'serve' | status int, from the translated expression (used by the harness's own
    python-side prediction; the Coq text is the authoritative model)"""
    return eval('lambda level, required: ' + core['wrapper_py'], {'__builtins__': {}})


def translate(ctx=None):
    core = parse()
    return {'status': 'ok',
            'detail': '%d API functions; wrapper = %s; constants %s' % (len(core['levels']), core['wrapper_coq'],
                                                                        core['consts'])}
