"""Translator (tie T) for C04: regenerates theories/Gen/C04Gen.v from core/ports.py and core/expressions/__init__.py.

What the Coq model of concurrent requests (C04/Model.v: task_step, parameter `gap`) takes from the source:
  * awaits_between_check_and_store -- in BasePort.attr_set_expression, the number of suspension points (await, async for,
    async with, yield) in the code that can run after `await core_expressions.check_loops(self, expression)` has returned and
    before `self._expression = <name>` is executed: the statements that follow the call in its block, the handlers / orelse /
    finally of the `try` statements around it, and the statements that follow each enclosing statement, up to the store.
  * check_loops_foreign_awaits -- in check_loops, the number of suspension points other than `await check_loops_rec(...)`
    (the function awaiting its own recursion never yields to the event loop), and of calls on expression / port objects that
    are awaited.
  * check_loops_conditions -- the number of `if` statements around the check_loops call in attr_set_expression (the call must
    be reached by every assignment of a non-empty text, whoever makes it: a PATCH, load_from_data at start-up or when a
    port comes back); together with "exactly one `self._expression = <name>` in the function" this says that no expression is
    stored unchecked.
  * enable_reparse_awaits -- in BasePort.enable, the number of suspension points from the statement that reads
    `str(self._expression)` up to and including the one that stores the re-parsed copy (`self._expression = <call>`): enable()
    re-installs the port's own expression text, which is harmless only if nothing can be served in between.
All are 0 in the code the theorems are about; C04/GenOk.v proves `= 0` against the regenerated file on every run.
Fail closed: any shape not listed here raises -> "untranslatable".
"""
import ast

from harness.common import coq, repo

PORTS = repo.path('qtoggleserver/core/ports.py')
EXPRS = repo.path('qtoggleserver/core/expressions/__init__.py')

SUSPENDING = (ast.Await, ast.AsyncFor, ast.AsyncWith, ast.Yield, ast.YieldFrom)


class Untranslatable(Exception):
    pass


def _suspensions(nodes):
    n = 0
    for node in nodes:
        for x in ast.walk(node):
            if isinstance(x, SUSPENDING):
                n += 1
    return n


def _is_check_call(node):
    """await <anything>.check_loops(...)  /  await check_loops(...)"""
    if not isinstance(node, ast.Await) or not isinstance(node.value, ast.Call):
        return False
    f = node.value.func
    return (isinstance(f, ast.Attribute) and f.attr == 'check_loops') or (isinstance(f, ast.Name) and f.id == 'check_loops')


def _is_store(st):
    """self._expression = <Name>   (the clear `self._expression = None` is a Constant and does not count)"""
    return (isinstance(st, ast.Assign) and len(st.targets) == 1 and isinstance(st.targets[0], ast.Attribute)
            and st.targets[0].attr == '_expression' and isinstance(st.targets[0].value, ast.Name)
            and st.targets[0].value.id == 'self' and isinstance(st.value, ast.Name))


def _contains(st, pred):
    return any(pred(x) for x in ast.walk(st))


BLOCK_FIELDS = ('body', 'orelse', 'finalbody')


def _path_to_check(block):
    """[(block, index)] from the given statement list down to the statement that directly contains the check_loops await"""
    hits = [i for i, st in enumerate(block) if _contains(st, _is_check_call)]
    if len(hits) != 1:
        raise Untranslatable('expected exactly one statement awaiting check_loops in a block, found %d' % len(hits))
    i = hits[0]
    st = block[i]
    if isinstance(st, ast.Expr) and _is_check_call(st.value):
        return [(block, i)]
    if isinstance(st, (ast.If, ast.Try)):
        for field in BLOCK_FIELDS:
            sub = getattr(st, field, None) or []
            if any(_contains(x, _is_check_call) for x in sub):
                return [(block, i)] + _path_to_check(sub)
        raise Untranslatable('check_loops awaited in a test or a handler')
    raise Untranslatable('check_loops awaited inside an unsupported statement: %s' % type(st).__name__)


def _between(fn):
    """the statements that may run after the check_loops await and before the store, conservatively"""
    path = _path_to_check(fn.body)
    collected = []
    found_store = False
    for block, i in reversed(path):
        st = block[i]
        if isinstance(st, ast.Try):      # handlers, else, finally of a try around the call
            for h in st.handlers:
                collected.extend(h.body)
            collected.extend(st.orelse)
            collected.extend(st.finalbody)
        elif isinstance(st, ast.If):
            pass                          # only the branch containing the call runs; the test ran before it
        for later in block[i + 1:]:
            if _is_store(later):
                found_store = True
                break
            if _contains(later, _is_store):
                raise Untranslatable('the store of the new expression is nested in a statement after check_loops')
            collected.append(later)
        if found_store:
            break
    if not found_store:
        raise Untranslatable('no `self._expression = <name>` after the check_loops call')
    return collected


def _method(tree, cls, name):
    c = [n for n in tree.body if isinstance(n, ast.ClassDef) and n.name == cls]
    if len(c) != 1:
        raise Untranslatable('class %s not found' % cls)
    f = [n for n in c[0].body if isinstance(n, ast.AsyncFunctionDef) and n.name == name]
    if len(f) != 1:
        raise Untranslatable('%s.%s not found' % (cls, name))
    return f[0]


def _foreign_awaits(tree):
    f = [n for n in tree.body if isinstance(n, ast.AsyncFunctionDef) and n.name == 'check_loops']
    if len(f) != 1:
        raise Untranslatable('check_loops not found')
    inner = [n for n in ast.walk(f[0]) if isinstance(n, ast.AsyncFunctionDef) and n is not f[0]]
    names = {n.name for n in inner}
    if names != {'check_loops_rec'}:
        raise Untranslatable('expected exactly the inner coroutine check_loops_rec, found %s' % sorted(names))
    n = 0
    for x in ast.walk(f[0]):
        if isinstance(x, (ast.AsyncFor, ast.AsyncWith, ast.Yield, ast.YieldFrom)):
            n += 1
        elif isinstance(x, ast.Await):
            v = x.value
            if not (isinstance(v, ast.Call) and isinstance(v.func, ast.Name) and v.func.id == 'check_loops_rec'):
                n += 1
    return n


def _enable_awaits(ports):
    fn = _method(ports, 'BasePort', 'enable')

    def reads(st):
        return _contains(st, lambda x: isinstance(x, ast.Call) and isinstance(x.func, ast.Name) and x.func.id == 'str'
                         and len(x.args) == 1 and isinstance(x.args[0], ast.Attribute) and x.args[0].attr == '_expression')

    def stores(st):
        return _contains(st, lambda x: isinstance(x, ast.Assign) and len(x.targets) == 1
                         and isinstance(x.targets[0], ast.Attribute) and x.targets[0].attr == '_expression'
                         and not isinstance(x.value, ast.Constant))
    r = [i for i, st in enumerate(fn.body) if reads(st)]
    w = [i for i, st in enumerate(fn.body) if stores(st)]
    if len(r) != 1 or len(w) != 1 or w[0] < r[0]:
        raise Untranslatable('enable(): expected one statement reading str(self._expression) followed by one storing the '
                             're-parsed expression, found reads at %s, stores at %s' % (r, w))
    return _suspensions(fn.body[r[0]:w[0] + 1])


def read():
    with open(PORTS) as f:
        ports = ast.parse(f.read())
    with open(EXPRS) as f:
        exprs = ast.parse(f.read())
    fn = _method(ports, 'BasePort', 'attr_set_expression')
    stores = [st for st in ast.walk(fn) if _is_store(st)]
    if len(stores) != 1:
        raise Untranslatable('expected exactly one `self._expression = <name>` in attr_set_expression, found %d' % len(stores))
    between = _between(fn)
    conditions = sum(1 for block, i in _path_to_check(fn.body) if isinstance(block[i], ast.If))
    return (_suspensions(between), _foreign_awaits(exprs), conditions, _enable_awaits(ports),
            [type(st).__name__ for st in between])


def translate(ctx=None):
    gap, foreign, conditions, enable_awaits, shapes = read()
    text = (
        '(* generated by harness/translate/exprstore.py from %s and %s -- do not edit *)\n'
        '(* statements that can run between `await check_loops(...)` and `self._expression = expression`: %s *)\n'
        'Definition awaits_between_check_and_store : nat := %d.\n'
        'Definition check_loops_foreign_awaits : nat := %d.\n'
        'Definition check_loops_conditions : nat := %d.\n'
        'Definition enable_reparse_awaits : nat := %d.\n'
        % (PORTS, EXPRS, ', '.join(shapes) or 'none', gap, foreign, conditions, enable_awaits)
    )
    coq.write_gen('C04Gen.v', text)
    return {'status': 'ok', 'detail': 'awaits between check and store: %d; foreign awaits in check_loops: %d; conditions '
            'around the check_loops call: %d; awaits inside enable()\'s re-parse: %d; statements: %s'
            % (gap, foreign, conditions, enable_awaits, shapes)}
