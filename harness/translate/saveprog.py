"""Translator (tie T) for C08: regenerates theories/Gen/C08Gen.v from qtoggleserver/drivers/persist/json.py.

Reads JSONDriver._save  ->  Definition save_prog : list op      (file-system operations, `if` as OSkipUnless c n)
      JSONDriver._load  ->  Definition load_prog : lprog         (decision tree; exception routing resolved here)
(the types are in coq/theories/C08/Model.v).  Fail closed: the statement and expression shapes listed below are the only
ones accepted; anything else raises Untranslatable, and a Gen file with an empty program is written so that no stale
definition is used (its proof obligation fails).

Files:   self._file_path -> FData;   X = self._get_backup_file_path() -> FBackup (the method must have the known shape);
         X = f'{self._file_path}<suffix>' | self._file_path + '<suffix>' -> FTemp.
         A path (self._file_path or a path variable) used as a truth value is True: the model is about a file-backed driver.
_save:   logger.*(...) | X = <path> | X = json_utils.dumps(data, ...) | X = Y.encode() | os.rename/os.replace(P, Q)
         | os.remove/os.unlink(P) | if C: ... (no else; C over self._use_backup, os.path.exists(P), paths, and/or/not)
         | `if <statically false>: return` | with open(P, 'wb') as f: { f.write(<payload>.encode()) | f.flush()
         | os.fsync(f.fileno()) | logger | X = json_utils.dumps(...) }
ops:     every method of JSONDriver that mentions self._save (insert, update, replace, remove must be among them) ->
         Definition op_trees : list (string * oprog)   (C08/Oper.v).  The method may not contain await / async for / async
         with / yield / lambda / nested def; `self._save` may only occur as the statement
         `self._save(self._unindex(self._data))` (never awaited, never passed as a value, e.g. to an executor); statements
         without save/return/raise -> PMem; return/raise -> PExit; if -> PIf; a loop that contains the save -> PLoop (the
         decision procedure then rejects it: a second iteration saves twice); try/with around a save or an exit -> fail
         closed.  No method other than _save/_load may call open()/os.rename/replace/remove/unlink/truncate/link or shutil.
_load:   logger.*(...) | X = <path> | return {} | raise (bare, in a handler) | if C: ... else: ... (C additionally over
         os.stat(P).st_size ==/!=/> 0, os.path.getsize(P) ==/!=/> 0, a bytes variable) | try/except (FileNotFoundError,
         OSError, ValueError, Exception, bare; no else/finally) | with open(P, 'rb') as f: ... | X = f.read()
         | return json_utils.loads(<X | f.read()>, extra_types=json_utils.EXTRA_TYPES_EXTENDED)
"""
import ast

from harness.common import coq, repo

SRC = repo.path('qtoggleserver/drivers/persist/json.py')
GEN = 'C08Gen.v'

BACKUP_METHOD_DUMP = (
    "[If(test=UnaryOp(op=Not(), operand=Attribute(value=Name(id='self', ctx=Load()), attr='_file_path', ctx=Load())), "
    "body=[Return(value=Constant(value=None))], orelse=[]), "
    "Assign(targets=[Tuple(elts=[Name(id='path', ctx=Store()), Name(id='ext', ctx=Store())], ctx=Store())], "
    "value=Call(func=Attribute(value=Attribute(value=Name(id='os', ctx=Load()), attr='path', ctx=Load()), attr='splitext', "
    "ctx=Load()), args=[Attribute(value=Name(id='self', ctx=Load()), attr='_file_path', ctx=Load())], keywords=[])), "
    "Return(value=JoinedStr(values=[FormattedValue(value=Name(id='path', ctx=Load()), conversion=-1), "
    "Constant(value='_backup'), FormattedValue(value=Name(id='ext', ctx=Load()), conversion=-1)]))]"
)


class Untranslatable(Exception):
    pass


def _bad(what, node):
    raise Untranslatable('%s at line %s: %s' % (what, getattr(node, 'lineno', '?'), ast.dump(node)[:160]))


# ---------------------------------------------------------------------------------------------------------------------
# shared expression shapes

def _is_self_attr(e, name):
    return isinstance(e, ast.Attribute) and e.attr == name and isinstance(e.value, ast.Name) and e.value.id == 'self'


def _dotted(e):
    """os.path.exists -> 'os.path.exists'"""
    parts = []
    while isinstance(e, ast.Attribute):
        parts.append(e.attr)
        e = e.value
    if isinstance(e, ast.Name):
        parts.append(e.id)
        return '.'.join(reversed(parts))
    return None


def _call(e, name, nargs=None):
    """e is a call of dotted `name` without keywords (-> args) else None"""
    if isinstance(e, ast.Call) and _dotted(e.func) == name and not e.keywords and (nargs is None or len(e.args) == nargs):
        return e.args
    return None


def _is_logger(st):
    return (isinstance(st, ast.Expr) and isinstance(st.value, ast.Call) and (_dotted(st.value.func) or '').startswith('logger.'))


def _path(e, env):
    if _is_self_attr(e, '_file_path'):
        return 'FData'
    if isinstance(e, ast.Name) and e.id in env['paths']:
        return env['paths'][e.id]
    return None


def _path_binding(value, env):
    """right-hand side of `X = ...` that denotes a file -> file name, else None"""
    if (isinstance(value, ast.Call) and _is_self_attr(value.func, '_get_backup_file_path') and not value.args
            and not value.keywords):
        if not env['backup_method_ok']:
            raise Untranslatable('_get_backup_file_path does not have the known shape')
        return 'FBackup'
    # f'{self._file_path}<suffix>'
    if (isinstance(value, ast.JoinedStr) and len(value.values) == 2 and isinstance(value.values[0], ast.FormattedValue)
            and _is_self_attr(value.values[0].value, '_file_path') and value.values[0].conversion == -1
            and value.values[0].format_spec is None and isinstance(value.values[1], ast.Constant)
            and isinstance(value.values[1].value, str) and value.values[1].value):
        return 'FTemp'
    # self._file_path + '<suffix>'
    if (isinstance(value, ast.BinOp) and isinstance(value.op, ast.Add) and _is_self_attr(value.left, '_file_path')
            and isinstance(value.right, ast.Constant) and isinstance(value.right.value, str) and value.right.value):
        return 'FTemp'
    return None


def _open(st, mode, env):
    """with open(P, '<mode>') as f:  -> (file, handle name) else None"""
    if not isinstance(st, ast.With) or len(st.items) != 1:
        return None
    it = st.items[0]
    c = it.context_expr
    if not (isinstance(c, ast.Call) and isinstance(c.func, ast.Name) and c.func.id == 'open' and not c.keywords
            and len(c.args) == 2 and isinstance(c.args[1], ast.Constant) and c.args[1].value == mode
            and isinstance(it.optional_vars, ast.Name)):
        return None
    p = _path(c.args[0], env)
    if p is None:
        _bad('open() of an unknown path', st)
    return p, it.optional_vars.id


# ---------------------------------------------------------------------------------------------------------------------
# _save

def _scond(e, env):
    """condition of an `if` in _save -> tuple tree ('true',) ('false',) ('flag',) ('exists', F) ('not', c) ('and', a, b) ('or', a, b)"""
    if _is_self_attr(e, '_use_backup'):
        return ('flag',)
    if _path(e, env) is not None:
        return ('true',)
    a = _call(e, 'os.path.exists', 1)
    if a is not None:
        p = _path(a[0], env)
        if p is None:
            _bad('exists() of an unknown path', e)
        return ('exists', p)
    if isinstance(e, ast.UnaryOp) and isinstance(e.op, ast.Not):
        return _simp(('not', _scond(e.operand, env)))
    if isinstance(e, ast.BoolOp):
        op = 'and' if isinstance(e.op, ast.And) else 'or'
        cs = [_scond(v, env) for v in e.values]
        r = cs[-1]
        for c in reversed(cs[:-1]):
            r = _simp((op, c, r))
        return r
    _bad('condition', e)


def _simp(c):
    if c[0] == 'not':
        if c[1] == ('true',):
            return ('false',)
        if c[1] == ('false',):
            return ('true',)
    if c[0] == 'and':
        if c[1] == ('true',):
            return c[2]
        if c[2] == ('true',):
            return c[1]
        if ('false',) in (c[1], c[2]):
            return ('false',)
    if c[0] == 'or':
        if c[1] == ('false',):
            return c[2]
        if c[2] == ('false',):
            return c[1]
        if ('true',) in (c[1], c[2]):
            return ('true',)
    return c


def _coq_cond(c):
    k = c[0]
    if k == 'true':
        return 'CTrue'
    if k == 'false':
        return '(CNot CTrue)'
    if k == 'flag':
        return 'CFlag'
    if k == 'exists':
        return '(CExists %s)' % c[1]
    if k == 'not':
        return '(CNot %s)' % _coq_cond(c[1])
    return '(%s %s %s)' % ('CAnd' if k == 'and' else 'COr', _coq_cond(c[1]), _coq_cond(c[2]))


def _save_assign(st, env):
    """X = <path> | X = json_utils.dumps(data, ...) | X = Y.encode()  (no operation); True when recognised"""
    if not (isinstance(st, ast.Assign) and len(st.targets) == 1 and isinstance(st.targets[0], ast.Name)):
        return False
    name, v = st.targets[0].id, st.value
    p = _path_binding(v, env)
    if p is not None:
        env['paths'][name] = p
        env['payload_str'].discard(name)
        env['payload_bytes'].discard(name)
        return True
    if (isinstance(v, ast.Call) and _dotted(v.func) == 'json_utils.dumps' and len(v.args) == 1
            and isinstance(v.args[0], ast.Name) and v.args[0].id == env['param']
            and {k.arg for k in v.keywords} <= {'extra_types', 'indent'}):
        env['payload_str'].add(name)
        env['paths'].pop(name, None)
        if name == env['param']:
            env['param'] = None   # the parameter now holds the serialised text
        return True
    if (isinstance(v, ast.Call) and isinstance(v.func, ast.Attribute) and v.func.attr == 'encode' and not v.args
            and not v.keywords and isinstance(v.func.value, ast.Name) and v.func.value.id in env['payload_str']):
        env['payload_bytes'].add(name)
        env['paths'].pop(name, None)
        return True
    return False


def _is_payload_bytes(e, env):
    if isinstance(e, ast.Name) and e.id in env['payload_bytes']:
        return True
    return (isinstance(e, ast.Call) and isinstance(e.func, ast.Attribute) and e.func.attr == 'encode' and not e.args
            and not e.keywords and isinstance(e.func.value, ast.Name) and e.func.value.id in env['payload_str'])


def _save_with_body(stmts, f, h, env):
    ops = []
    for st in stmts:
        if _is_logger(st) or _save_assign(st, env):
            continue
        if isinstance(st, ast.Expr) and isinstance(st.value, ast.Call):
            c = st.value
            if (isinstance(c.func, ast.Attribute) and isinstance(c.func.value, ast.Name) and c.func.value.id == h
                    and not c.keywords):
                if c.func.attr == 'write' and len(c.args) == 1 and _is_payload_bytes(c.args[0], env):
                    ops.append('OWrite %s' % f)
                    continue
                if c.func.attr == 'flush' and not c.args:
                    ops.append('OFlush %s' % f)
                    continue
            a = _call(c, 'os.fsync', 1)
            if a is not None and (
                (isinstance(a[0], ast.Name) and a[0].id == h)
                or (isinstance(a[0], ast.Call) and isinstance(a[0].func, ast.Attribute) and a[0].func.attr == 'fileno'
                    and isinstance(a[0].func.value, ast.Name) and a[0].func.value.id == h and not a[0].args)
            ):
                ops.append('OFsync %s' % f)
                continue
        _bad('statement inside `with open(..., "wb")`', st)
    return ops


def _save_block(stmts, env):
    ops = []
    for st in stmts:
        if _is_logger(st) or _save_assign(st, env):
            continue
        if isinstance(st, ast.Expr) and isinstance(st.value, ast.Call):
            for fn in ('os.rename', 'os.replace'):
                a = _call(st.value, fn, 2)
                if a is not None:
                    p, q = _path(a[0], env), _path(a[1], env)
                    if p is None or q is None or p == q:
                        _bad('rename of unknown paths', st)
                    ops.append('ORename %s %s' % (p, q))
                    break
            else:
                for fn in ('os.remove', 'os.unlink'):
                    a = _call(st.value, fn, 1)
                    if a is not None:
                        p = _path(a[0], env)
                        if p is None:
                            _bad('remove of an unknown path', st)
                        ops.append('ORemove %s' % p)
                        break
                else:
                    _bad('call', st)
            continue
        if isinstance(st, ast.If):
            c = _scond(st.test, env)
            if c == ('false',):
                # statically dead (e.g. `if not self._file_path: return`): only a bare return / logging may be dropped
                if not all(_is_logger(x) or (isinstance(x, ast.Return) and x.value is None) for x in st.body):
                    _bad('dead branch with effects', st)
                if st.orelse:
                    ops += _save_block(st.orelse, env)
                continue
            if st.orelse:
                _bad('`if` with `else` in _save', st)
            body = _save_block(st.body, env)
            if c == ('true',):
                ops += body
            else:
                ops.append('OSkipUnless %s %d' % (_coq_cond(c), len(body)))
                ops += body
            continue
        w = _open(st, 'wb', env)
        if w is not None:
            f, h = w
            ops.append('OCreate %s' % f)
            ops += _save_with_body(st.body, f, h, env)
            ops.append('OClose %s' % f)
            continue
        _bad('statement in _save', st)
    return ops


# ---------------------------------------------------------------------------------------------------------------------
# _load  (continuation-passing: k = program run when the block falls off its end; h = where exceptions go)

def _size_test(e, env):
    """os.stat(P).st_size <op> 0 | os.path.getsize(P) <op> 0  -> (file, 'zero'|'nonzero') else None"""
    if not (isinstance(e, ast.Compare) and len(e.ops) == 1 and isinstance(e.comparators[0], ast.Constant)
            and e.comparators[0].value == 0 and not isinstance(e.comparators[0].value, bool)):
        return None
    left = e.left
    p = None
    if isinstance(left, ast.Attribute) and left.attr == 'st_size':
        a = _call(left.value, 'os.stat', 1)
        if a is not None:
            p = _path(a[0], env)
    else:
        a = _call(left, 'os.path.getsize', 1)
        if a is not None:
            p = _path(a[0], env)
    if p is None:
        return None
    if isinstance(e.ops[0], ast.Eq):
        return p, 'zero'
    if isinstance(e.ops[0], (ast.NotEq, ast.Gt)):
        return p, 'nonzero'
    return None


def _lcond(e, kt, kf, h, env):
    """decision tree for `if e` with continuations kt / kf"""
    if _is_self_attr(e, '_use_backup'):
        return '(LIfFlag %s %s)' % (kt, kf)
    if _path(e, env) is not None:
        return kt
    if isinstance(e, ast.Name) and e.id in env['bytes']:
        return '(LIfEmpty %s %s %s)' % (env['bytes'][e.id], kf, kt)
    a = _call(e, 'os.path.exists', 1)
    if a is not None:
        p = _path(a[0], env)
        if p is None:
            _bad('exists() of an unknown path', e)
        return '(LIfExists %s %s %s)' % (p, kt, kf)
    s = _size_test(e, env)
    if s is not None:
        p, kind = s
        a, b = (kt, kf) if kind == 'zero' else (kf, kt)
        # os.stat / getsize raise FileNotFoundError on a missing file
        return '(LIfExists %s (LIfEmpty %s %s %s) %s)' % (p, p, a, b, h['FNF'])
    if isinstance(e, ast.UnaryOp) and isinstance(e.op, ast.Not):
        return _lcond(e.operand, kf, kt, h, env)
    if isinstance(e, ast.BoolOp):
        vals = list(e.values)
        if isinstance(e.op, ast.And):
            r = _lcond(vals[-1], kt, kf, h, env)
            for v in reversed(vals[:-1]):
                r = _lcond(v, r, kf, h, env)
            return r
        r = _lcond(vals[-1], kt, kf, h, env)
        for v in reversed(vals[:-1]):
            r = _lcond(v, kt, r, h, env)
        return r
    _bad('condition', e)


HANDLES = {
    'FNF': {'FileNotFoundError', 'OSError', 'IOError', 'EnvironmentError', 'Exception', 'BaseException', None},
    'DEC': {'ValueError', 'Exception', 'BaseException', None},   # json.JSONDecodeError / UnicodeDecodeError
}


def _handler_names(hd):
    t = hd.type
    if t is None:
        return [None]
    if isinstance(t, ast.Name):
        return [t.id]
    if isinstance(t, ast.Tuple) and all(isinstance(x, ast.Name) for x in t.elts):
        return [x.id for x in t.elts]
    _bad('exception class', hd)


def _load_block(stmts, k, h, env, reraise=None):
    if not stmts:
        return k
    st, rest = stmts[0], stmts[1:]

    def cont(e=env):
        return _load_block(rest, k, h, e, reraise)

    if _is_logger(st):
        return cont()
    if isinstance(st, ast.Assign) and len(st.targets) == 1 and isinstance(st.targets[0], ast.Name):
        name, v = st.targets[0].id, st.value
        p = _path_binding(v, env)
        if p is not None:
            e2 = dict(env, paths=dict(env['paths'], **{name: p}))
            e2['bytes'] = {x: y for x, y in env['bytes'].items() if x != name}
            return cont(e2)
        if (isinstance(v, ast.Call) and isinstance(v.func, ast.Attribute) and v.func.attr == 'read' and not v.args
                and not v.keywords and isinstance(v.func.value, ast.Name) and v.func.value.id in env['handles']):
            e2 = dict(env, bytes=dict(env['bytes'], **{name: env['handles'][v.func.value.id]}))
            e2['paths'] = {x: y for x, y in env['paths'].items() if x != name}
            return cont(e2)
        _bad('assignment in _load', st)
    if isinstance(st, ast.Return):
        v = st.value
        if isinstance(v, ast.Dict) and not v.keys:
            return 'LRetEmpty'
        if (isinstance(v, ast.Call) and _dotted(v.func) == 'json_utils.loads' and len(v.args) == 1
                and len(v.keywords) == 1 and v.keywords[0].arg == 'extra_types'
                and _dotted(v.keywords[0].value) == 'json_utils.EXTRA_TYPES_EXTENDED'):
            a = v.args[0]
            f = None
            if isinstance(a, ast.Name) and a.id in env['bytes']:
                f = env['bytes'][a.id]
            elif (isinstance(a, ast.Call) and isinstance(a.func, ast.Attribute) and a.func.attr == 'read' and not a.args
                  and not a.keywords and isinstance(a.func.value, ast.Name) and a.func.value.id in env['handles']):
                f = env['handles'][a.func.value.id]
            if f is None:
                _bad('loads() of unknown bytes', st)
            return '(LParse %s %s)' % (f, h['DEC'])
        _bad('return', st)
    if isinstance(st, ast.Raise):
        if st.exc is None and st.cause is None and reraise is not None:
            return reraise
        _bad('raise', st)
    if isinstance(st, ast.If):
        kr = cont()
        a = _load_block(st.body, kr, h, env, reraise)
        b = _load_block(st.orelse, kr, h, env, reraise)
        return _lcond(st.test, a, b, h, env)
    if isinstance(st, ast.Try):
        if st.orelse or st.finalbody or not st.handlers:
            _bad('try with else/finally', st)
        kr = cont()
        known = HANDLES['FNF'] | HANDLES['DEC']
        for hd in st.handlers:
            if not all(n in known for n in _handler_names(hd)):
                _bad('exception class', hd)
        h2 = dict(h)
        for kind in ('FNF', 'DEC'):
            for hd in st.handlers:   # the first handler whose class catches this kind of exception
                if any(n in HANDLES[kind] for n in _handler_names(hd)):
                    h2[kind] = _load_block(hd.body, kr, h, env, reraise=h[kind])
                    break
        return _load_block(st.body, kr, h2, env, reraise)
    w = _open(st, 'rb', env)
    if w is not None:
        f, hn = w
        kr = cont()
        e2 = dict(env, handles=dict(env['handles'], **{hn: f}))
        body = _load_block(st.body, kr, h, e2, reraise)
        return '(LIfExists %s %s %s)' % (f, body, h['FNF'])
    _bad('statement in _load', st)


# ---------------------------------------------------------------------------------------------------------------------

MUTATORS = ('insert', 'update', 'replace', 'remove')
FILE_CALLS = {'os.rename', 'os.replace', 'os.remove', 'os.unlink', 'os.truncate', 'os.ftruncate', 'os.link', 'os.symlink',
              'os.rmdir', 'os.removedirs', 'os.renames', 'os.open', 'os.write', 'open', 'io.open'}


def _is_save_stmt(st):
    """self._save(self._unindex(self._data))"""
    if not (isinstance(st, ast.Expr) and isinstance(st.value, ast.Call)):
        return False
    c = st.value
    if not (_is_self_attr(c.func, '_save') and len(c.args) == 1 and not c.keywords):
        return False
    a = c.args[0]
    return (isinstance(a, ast.Call) and _is_self_attr(a.func, '_unindex') and len(a.args) == 1 and not a.keywords
            and _is_self_attr(a.args[0], '_data'))


def _save_mentions(node):
    return [n for n in ast.walk(node)
            if (isinstance(n, ast.Attribute) and n.attr == '_save') or (isinstance(n, ast.Name) and n.id == '_save')]


def _has(node, types):
    return any(isinstance(n, types) for n in ast.walk(node))


def _op_block(stmts):
    t = None
    for st in stmts:
        x = _op_stmt(st)
        t = x if t is None else 'PSeq %s %s' % (_par(t), _par(x))
    return t or 'PSkip'


def _par(t):
    return t if ' ' not in t else '(%s)' % t


def _op_stmt(st):
    if _is_save_stmt(st):
        return 'PSave'
    if isinstance(st, (ast.Return, ast.Raise)):
        return 'PExit'
    if isinstance(st, (ast.Continue, ast.Break)):
        return 'PSkip'   # over-approximation: the rest of the body is kept on the path
    saves = bool(_save_mentions(st))
    exits = _has(st, (ast.Return, ast.Raise))
    if not saves and not exits:
        return 'PMem'
    if isinstance(st, ast.If):
        return 'PIf %s %s' % (_par(_op_block(st.body)), _par(_op_block(st.orelse)))
    if isinstance(st, (ast.For, ast.While)):
        if st.orelse:
            _bad('loop with else around a save or an exit', st)
        if saves:
            return 'PLoop %s' % _par(_op_block(st.body))
        return 'PSeq PMem (PIf PExit PSkip)'   # may leave the operation from inside the loop, or not
    _bad('compound statement around a save or an exit', st)


def read_operations(cls):
    """-> list of (method name, oprog text)"""
    out = []
    allowed = set()
    for fn in cls.body:
        if not isinstance(fn, (ast.FunctionDef, ast.AsyncFunctionDef)):
            continue
        if fn.name not in ('_save', '_load'):
            for n in ast.walk(fn):
                if isinstance(n, ast.Call):
                    d = _dotted(n.func) or ''
                    if d in FILE_CALLS or d.startswith('shutil.'):
                        _bad('file operation outside _save/_load (in %s)' % fn.name, n)
        if fn.name == '_save' or not _save_mentions(fn):
            continue
        if _has(fn, (ast.Await, ast.AsyncFor, ast.AsyncWith, ast.Yield, ast.YieldFrom, ast.Lambda)) or any(
                isinstance(n, (ast.FunctionDef, ast.AsyncFunctionDef, ast.ClassDef)) and n is not fn for n in ast.walk(fn)):
            raise Untranslatable('%s saves and contains await/async/yield/lambda/nested definitions: the in-memory change and '
                                 'the save are not one synchronous step' % fn.name)
        for st in ast.walk(fn):
            if _is_save_stmt(st):
                allowed.add(id(st.value.func))
        out.append((fn.name, _op_block(fn.body)))
    for n in _save_mentions(cls):
        if id(n) not in allowed:
            _bad('self._save used other than as the statement self._save(self._unindex(self._data))', n)
    names = [n for n, _ in out]
    for m in MUTATORS:
        fn = [f for f in cls.body if isinstance(f, (ast.FunctionDef, ast.AsyncFunctionDef)) and f.name == m]
        if len(fn) != 1 or not isinstance(fn[0], ast.AsyncFunctionDef):
            raise Untranslatable('JSONDriver.%s not found' % m)
        if m not in names or 'PSave' not in dict(out)[m]:
            raise Untranslatable('JSONDriver.%s does not call self._save synchronously' % m)
    return out


def _method(cls, name):
    fn = [n for n in cls.body if isinstance(n, ast.FunctionDef) and n.name == name]
    if len(fn) != 1:
        raise Untranslatable('JSONDriver.%s not found' % name)
    return fn[0]


def read_programs(src_path=None):
    with open(src_path or SRC) as f:
        tree = ast.parse(f.read())
    cls = [n for n in tree.body if isinstance(n, ast.ClassDef) and n.name == 'JSONDriver']
    if len(cls) != 1:
        raise Untranslatable('class JSONDriver not found')
    cls = cls[0]
    try:
        bm = _method(cls, '_get_backup_file_path')
        backup_ok = ast.dump(ast.Module(body=bm.body, type_ignores=[]))[len('Module(body='):].startswith(BACKUP_METHOD_DUMP)
    except Untranslatable:
        backup_ok = False

    save = _method(cls, '_save')
    args = [a.arg for a in save.args.args]
    if len(args) != 2 or args[0] != 'self' or save.args.vararg or save.args.kwarg or save.args.kwonlyargs:
        raise Untranslatable('_save signature')
    env = {'paths': {}, 'payload_str': set(), 'payload_bytes': set(), 'param': args[1], 'backup_method_ok': backup_ok}
    save_ops = _save_block(save.body, env)

    load = _method(cls, '_load')
    if [a.arg for a in load.args.args] != ['self']:
        raise Untranslatable('_load signature')
    env = {'paths': {}, 'bytes': {}, 'handles': {}, 'backup_method_ok': backup_ok}
    load_tree = _load_block(load.body, 'LRaise', {'FNF': 'LRaise', 'DEC': 'LRaise'}, env)
    return save_ops, load_tree, read_operations(cls)


def gen_text(save_ops, load_tree, op_trees=(), note=''):
    return (
        '(* generated by harness/translate/saveprog.py from %s - do not edit *)\n%s'
        'From QT Require Import C08.Oper.\n'
        'Definition save_prog : list op := [\n  %s].\n'
        'Definition load_prog : lprog :=\n  %s.\n'
        'Definition op_trees : list (string * oprog) := [\n  %s].\n' % (
            SRC, note, ';\n  '.join(save_ops), load_tree,
            ';\n  '.join('("%s"%%string, %s)' % (n, t) for n, t in op_trees))
    )


def translate(ctx=None):
    try:
        save_ops, load_tree, op_trees = read_programs()
    except (Untranslatable, SyntaxError, OSError) as e:
        coq.write_gen(GEN, gen_text([], 'LRaise', [], '(* UNTRANSLATABLE: %s *)\n' % str(e).replace('*)', '* )').replace('"', "'")))
        return {'status': 'untranslatable', 'detail': '%s: %s' % (type(e).__name__, e)}
    coq.write_gen(GEN, gen_text(save_ops, load_tree, op_trees))
    return {'status': 'ok', 'detail': {'save_prog': save_ops, 'load_prog': load_tree, 'op_trees': dict(op_trees)}}
