"""Fail-closed ast translator for the slave synchronisation code (C12, C13).

Reads qtoggleserver/slaves/devices.py and qtoggleserver/slaves/ports.py of the tree under test and emits

  Gen/C12Gen.v   gen_master_attrs : list string       MASTER_ATTRS of slaves/ports.py (sorted)
  Gen/C13Gen.v   cfg_src : cfg                         which of the modelled variants the three statements have:
     value_push_has_body          apply_provisioning: does `self.api_call('PATCH', f'/ports/{...}/value', ...)` pass the pending
                                  value as body (third positional argument or body=) and is it followed by
                                  `port.push_remote_value(value)`, or neither
     port_update_keeps_pending    _handle_port_update: between the change-notification loop and
                                  `port.update_cached_attrs(attrs)` either nothing (the cache is replaced by what the slave sent)
                                  or exactly `attrs.update(provisioning_attrs)` followed by
                                  `if port.get_provisioning_value() is not None: attrs.pop('value', None)`
     device_update_keeps_pending  _handle_device_update: either `for name in attrs: if name in provisioning_attrs: ...;
                                  attrs.pop(name)` (pops from the dict it iterates) or a read-only loop followed by
                                  `attrs.update(provisioning_attrs)`; and fetch_and_update_device: `update_cached_attrs(attrs)`
                                  directly, or after `attrs.update(self.get_provisioning_attrs())` (both sites the same way)
     offline_write_clears_queue   SlavePort.write_value (slaves/ports.py), offline branch: `self._remote_value_queue.clear()`
                                  before `self._cached_value = value`, or no use of the queue at all
Closed list of shapes; anything else raises Untranslatable -> status 'untranslatable' (the check then looks for a failing input).
"""
import ast

from harness.common import coq, repo


class Untranslatable(Exception):
    pass


def _src(rel):
    with open(repo.path(rel)) as f:
        return f.read()


def _method(tree, cls, name):
    for node in tree.body:
        if isinstance(node, ast.ClassDef) and node.name == cls:
            for item in node.body:
                if isinstance(item, (ast.FunctionDef, ast.AsyncFunctionDef)) and item.name == name:
                    return item
    raise Untranslatable('%s.%s not found' % (cls, name))


def _dump(n):
    return ast.dump(n, annotate_fields=False)


def _is_call(node, func_src):
    """node is `[await] <func_src>(...)` as an expression statement or value; returns the Call or None"""
    if isinstance(node, ast.Expr):
        node = node.value
    if isinstance(node, ast.Await):
        node = node.value
    if isinstance(node, ast.Call) and ast.unparse(node.func) == func_src:
        return node
    return None


def _mutates(node, name):
    for n in ast.walk(node):
        if isinstance(n, ast.Call) and isinstance(n.func, ast.Attribute) and isinstance(n.func.value, ast.Name) \
                and n.func.value.id == name and n.func.attr in ('pop', 'update', 'clear', 'setdefault', 'popitem', '__setitem__',
                                                                 '__delitem__'):
            return True
        if isinstance(n, (ast.Subscript,)) and isinstance(n.value, ast.Name) and n.value.id == name \
                and isinstance(n.ctx, (ast.Store, ast.Del)):
            return True
        if isinstance(n, ast.Assign) and any(isinstance(t, ast.Name) and t.id == name for t in n.targets):
            return True
    return False


def _is_debug(stmt):
    c = _is_call(stmt, 'self.debug')
    return c is not None


def value_push(fn):
    """apply_provisioning -> bool"""
    calls = []
    for n in ast.walk(fn):
        if isinstance(n, ast.Call) and ast.unparse(n.func) == 'self.api_call' and len(n.args) >= 2:
            a0, a1 = n.args[0], n.args[1]
            if isinstance(a0, ast.Constant) and a0.value == 'PATCH' and isinstance(a1, ast.JoinedStr):
                parts = a1.values
                if parts and isinstance(parts[-1], ast.Constant) and str(parts[-1].value).endswith('/value'):
                    calls.append(n)
    if len(calls) != 1:
        raise Untranslatable('apply_provisioning: expected exactly one PATCH /ports/<id>/value call, found %d' % len(calls))
    call = calls[0]
    if ast.unparse(call.args[1]) != "f'/ports/{port.get_remote_id()}/value'":
        raise Untranslatable('apply_provisioning: unexpected path %s' % ast.unparse(call.args[1]))
    # the value pushed must be the one read by `value = port.get_provisioning_value()` under `if value is not None`
    guard = None
    for n in ast.walk(fn):
        if isinstance(n, ast.If) and ast.unparse(n.test) == 'value is not None' and any(c is call for c in ast.walk(n)):
            guard = n
    assigns = [n for n in ast.walk(fn) if isinstance(n, ast.Assign) and ast.unparse(n) == 'value = port.get_provisioning_value()']
    if guard is None or len(assigns) != 1:
        raise Untranslatable('apply_provisioning: the value push is not guarded by `value = port.get_provisioning_value()` / '
                             '`if value is not None`')
    kws = {k.arg: k.value for k in call.keywords}
    extra = set(kws) - {'timeout', 'body'}
    if extra:
        raise Untranslatable('apply_provisioning: unexpected keyword(s) %s in the value push' % sorted(extra))
    # the try block around the call: either the call alone, or the call followed by port.push_remote_value(value)
    tries = [n for n in ast.walk(guard) if isinstance(n, ast.Try) and any(c is call for c in ast.walk(n))]
    if len(tries) != 1 or len(tries[0].body) not in (1, 2) or _is_call(tries[0].body[0], 'self.api_call') is not call:
        raise Untranslatable('apply_provisioning: the value push is not the first statement of its own try block')
    pushes = len(tries[0].body) == 2
    if pushes and ast.unparse(tries[0].body[1]) != 'port.push_remote_value(value)':
        raise Untranslatable('apply_provisioning: unexpected statement after the value push: %s' % ast.unparse(tries[0].body[1]))
    if len(call.args) == 2 and 'body' not in kws:
        has_body = False
    elif len(call.args) == 3 and 'body' not in kws and ast.unparse(call.args[2]) == 'value':
        has_body = True
    elif len(call.args) == 2 and 'body' in kws and ast.unparse(kws['body']) == 'value':
        has_body = True
    else:
        raise Untranslatable('apply_provisioning: unexpected arguments of the value push: %s' % ast.unparse(call))
    if has_body != pushes:
        raise Untranslatable('apply_provisioning: the value push %s a body but %s the value as remote value afterwards (only '
                             'the two consistent variants are modelled)' % ('has' if has_body else 'has no',
                                                                            'queues' if pushes else 'does not queue'))
    return has_body


def port_update(fn):
    """_handle_port_update -> bool"""
    body = fn.body
    idx_upd = [i for i, s in enumerate(body) if _is_call(s, 'port.update_cached_attrs') is not None]
    idx_for = [i for i, s in enumerate(body) if isinstance(s, ast.For) and ast.unparse(s.iter) == 'attrs.items()']
    if len(idx_upd) != 1 or len(idx_for) != 1 or idx_for[0] > idx_upd[0]:
        raise Untranslatable('_handle_port_update: expected one loop over attrs.items() followed by port.update_cached_attrs(attrs)')
    call = _is_call(body[idx_upd[0]], 'port.update_cached_attrs')
    if [ast.unparse(a) for a in call.args] != ['attrs'] or call.keywords:
        raise Untranslatable('_handle_port_update: update_cached_attrs is not called with attrs')
    if not any(isinstance(s, ast.Assign) and ast.unparse(s) == 'provisioning_attrs = port.get_provisioning_attrs()'
               for s in body[:idx_for[0]]):
        raise Untranslatable('_handle_port_update: provisioning_attrs = port.get_provisioning_attrs() not found')
    for s in body[:idx_for[0] + 1]:
        if _mutates(s, 'attrs'):
            raise Untranslatable('_handle_port_update: attrs is modified before/inside the notification loop')
    between = body[idx_for[0] + 1:idx_upd[0]]
    if not between:
        return False
    if len(between) == 2 and ast.unparse(between[0]) == 'attrs.update(provisioning_attrs)' \
            and isinstance(between[1], ast.If) and ast.unparse(between[1].test) == 'port.get_provisioning_value() is not None' \
            and not between[1].orelse and [ast.unparse(x) for x in between[1].body] == ["attrs.pop('value', None)"]:
        return True
    raise Untranslatable('_handle_port_update: unexpected statements before update_cached_attrs: %s'
                         % ' ; '.join(ast.unparse(s) for s in between))


def device_update(fn):
    """_handle_device_update -> bool"""
    body = [s for s in fn.body if not (isinstance(s, ast.Expr) and isinstance(s.value, ast.Constant))]
    src = [ast.unparse(s) for s in body]
    if len(src) < 4 or src[0] != 'provisioning_attrs = self.get_provisioning_attrs()' or src[1] != 'attrs = dict(attrs)':
        raise Untranslatable('_handle_device_update: unexpected prologue')
    tail = ['await self.update_cached_attrs(attrs)', 'await self.trigger_update()', 'await self.save()']
    if src[-3:] != tail:
        raise Untranslatable('_handle_device_update: unexpected epilogue')
    mid = body[2:-3]
    if len(mid) == 1 and isinstance(mid[0], ast.For) and ast.unparse(mid[0].iter) == 'attrs' \
            and ast.unparse(mid[0].target) == 'name' and len(mid[0].body) == 1 and isinstance(mid[0].body[0], ast.If) \
            and ast.unparse(mid[0].body[0].test) == 'name in provisioning_attrs':
        inner = [s for s in mid[0].body[0].body if not _is_debug(s)]
        if [ast.unparse(s) for s in inner] == ['attrs.pop(name)']:
            return False
    if len(mid) in (1, 2) and ast.unparse(mid[-1]) == 'attrs.update(provisioning_attrs)':
        if len(mid) == 2:
            loop = mid[0]
            if not (isinstance(loop, ast.For) and not _mutates(loop, 'attrs')
                    and all(_is_debug(s) or isinstance(s, ast.If) for s in loop.body)):
                raise Untranslatable('_handle_device_update: unexpected loop before attrs.update(provisioning_attrs)')
            for n in ast.walk(loop):
                if isinstance(n, (ast.Await, ast.Return, ast.Raise, ast.Break, ast.Continue)):
                    raise Untranslatable('_handle_device_update: the loop is not a logging-only loop')
        return True
    raise Untranslatable('_handle_device_update: unexpected statements: %s' % ' ; '.join(ast.unparse(s) for s in mid))


def fetch_device(fn):
    """fetch_and_update_device -> bool: is the cache replacement preceded by attrs.update(self.get_provisioning_attrs())"""
    body = fn.body
    idx = [i for i, st in enumerate(body) if _is_call(st, 'self.update_cached_attrs') is not None]
    if len(idx) != 1 or [ast.unparse(a) for a in _is_call(body[idx[0]], 'self.update_cached_attrs').args] != ['attrs']:
        raise Untranslatable('fetch_and_update_device: expected one `await self.update_cached_attrs(attrs)`')
    muts = [i for i, st in enumerate(body[:idx[0]]) if _mutates(st, 'attrs') and not isinstance(st, ast.Try)]
    if not muts:
        return False
    if muts == [idx[0] - 1] and ast.unparse(body[idx[0] - 1]) == 'attrs.update(self.get_provisioning_attrs())':
        return True
    raise Untranslatable('fetch_and_update_device: attrs is modified in an unexpected way before update_cached_attrs')


def offline_write(fn):
    """SlavePort.write_value -> bool: does the offline branch drop the queued remote values before recording the pending value"""
    body = fn.body
    if len(body) != 1 or not isinstance(body[0], ast.If) or ast.unparse(body[0].test) != 'self._slave.is_online()':
        raise Untranslatable('SlavePort.write_value: expected a single `if self._slave.is_online(): ... else: ...`')
    off = [st for st in body[0].orelse if not _is_debug(st)]
    src = [ast.unparse(st) for st in off]
    if 'self._cached_value = value' not in src or "self._provisioning.add('value')" not in src:
        raise Untranslatable('SlavePort.write_value: the offline branch does not record the pending value as modelled')
    i = src.index('self._cached_value = value')
    touching = [x for x in src if '_remote_value_queue' in x]
    if not touching:
        return False
    if touching == ['self._remote_value_queue.clear()'] and src.index('self._remote_value_queue.clear()') < i:
        return True
    raise Untranslatable('SlavePort.write_value: unexpected use of _remote_value_queue in the offline branch: %s' % touching)


def master_attrs():
    tree = ast.parse(_src('qtoggleserver/slaves/ports.py'))
    for node in tree.body:
        if isinstance(node, ast.Assign) and any(isinstance(t, ast.Name) and t.id == 'MASTER_ATTRS' for t in node.targets):
            v = node.value
            if isinstance(v, (ast.Set, ast.List, ast.Tuple)) and all(isinstance(e, ast.Constant) and isinstance(e.value, str)
                                                                      for e in v.elts):
                return sorted(e.value for e in v.elts)
            raise Untranslatable('MASTER_ATTRS is not a literal set of strings')
    raise Untranslatable('MASTER_ATTRS not found')


def _both(a, b):
    if a != b:
        raise Untranslatable('_handle_device_update %s pending attributes but fetch_and_update_device %s (only the two '
                             'consistent variants are modelled)' % ('keeps' if a else 'does not keep', 'does' if b else 'does not'))
    return a


def read_cfg():
    tree = ast.parse(_src('qtoggleserver/slaves/devices.py'))
    ptree = ast.parse(_src('qtoggleserver/slaves/ports.py'))
    return {
        'offline_write_clears_queue': offline_write(_method(ptree, 'SlavePort', 'write_value')),
        'value_push_has_body': value_push(_method(tree, 'Slave', 'apply_provisioning')),
        'port_update_keeps_pending': port_update(_method(tree, 'Slave', '_handle_port_update')),
        'device_update_keeps_pending': _both(device_update(_method(tree, 'Slave', '_handle_device_update')),
                                             fetch_device(_method(tree, 'Slave', 'fetch_and_update_device'))),
    }


def translate_c12(ctx):
    try:
        names = master_attrs()
    except (Untranslatable, SyntaxError, OSError) as e:
        return {'status': 'untranslatable', 'detail': str(e)}
    text = ('(* generated by harness/translate/slavesync.py from qtoggleserver/slaves/ports.py - do not edit *)\n'
            'From QT Require Import Base.Prelude.\nOpen Scope string_scope.\n'
            'Definition gen_master_attrs : list string := %s.\n' % coq.lst(names, coq.string))
    coq.write_gen('C12Gen.v', text)
    ctx.c12_master_attrs = names
    return {'status': 'ok', 'detail': 'MASTER_ATTRS = %s' % names}


def translate_c13(ctx):
    try:
        cfg = read_cfg()
    except (Untranslatable, SyntaxError, OSError) as e:
        return {'status': 'untranslatable', 'detail': str(e)}
    text = ('(* generated by harness/translate/slavesync.py from qtoggleserver/slaves/devices.py, ports.py - do not edit *)\n'
            'From QT Require Import C12.Mirror.\n'
            'Definition cfg_src : cfg := mk_cfg %s %s %s %s.\n'
            % tuple(coq.boolean(cfg[k]) for k in ('value_push_has_body', 'port_update_keeps_pending',
                                                  'device_update_keeps_pending', 'offline_write_clears_queue')))
    coq.write_gen('C13Gen.v', text)
    ctx.c13_cfg = cfg
    return {'status': 'ok', 'detail': cfg}
