"""Translator (tie T) for C09, part 2: routing table, handler classes, the pre-checks of APIHandler; writes Gen/C09Gen.v.

Reads (python `ast`, closed list of shapes; anything else raises Untranslatable = fail closed):

* web/server.py `_make_routing_table`:
      handlers_list = []
      handlers_list += [URLSpec(r'<regex>', handlers.<Class>), ...]
      handlers_list += qui_tornado.make_routing_table()              -> one opaque "frontend files" block
      if <flag>: <the same statements, nested>                        (no else)
      return handlers_list
  <flag> is `settings.a.b...` or one of the known calls (closed list: is_discover_enabled(), history.is_enabled(),
  system.conf.can_write_conf_file()); its source text is the condition's name; any other condition is refused.
  history.is_enabled() is itself read from core/history.py (`return persist.is_samples_supported() and
  settings.core.history_support`) into the atomic facts it is the conjunction of (gen_derived).
  Each regex must have the shape  ^/lit/lit/(?P<n>[charset]+)/.../?$ , may end in /(?P<n>.+)$ , or be a catch-all
  ^/api/.*$ , ^/.*$ ; its shape ("template") replaces every identifier group by {} and the rest group by {+}.
* web/handlers.py: every class.  Base APIHandler: `AUTH_ENABLED = <bool>`, `async def <method>(self, ...)` whose body is
      [if not settings.a.b: raise NoSuchFunction()]  await self.call_api_func(<alias>.<func>, ...)
  and alias chains `post = patch = put = delete = get`.  Base BaseHandler: must not mention call_api_func or any API
  function module (kind "not found").  Function aliases are resolved through the `from X import Y as Z` lines (packages:
  through `from .m import *` in their __init__) to the functions of the API table (apitable.py).
* web/base.py: NoSuchFunction is HTTPError 404; BaseHandler defines get = raise NoSuchFunction() and aliases the other six
  methods to it; APIHandler.AUTH_ENABLED defaults to True, access_level starts at core_api.ACCESS_LEVEL_NONE, prepare()
  returns before authenticating when `not self.AUTH_ENABLED` and only ever assigns ACCESS_LEVEL_MAPPING[usr]; the
  statements after that gate are translated, in their order, into the decision `grant present valid admin_empty
  token_level` (see _grant_tree);
  call_api_func calls `func(self, **kwargs)` exactly once, after the JSON content-type test for a literal method tuple.
"""
import ast
import os
import re

from harness.common import coq, repo
from harness.translate import apitable
from harness.translate.apitable import Untranslatable, dotted

METHODS = ['GET', 'POST', 'PUT', 'PATCH', 'DELETE', 'HEAD', 'OPTIONS']
LAST = None

SEG_RE = re.compile(r'\(\?P<([A-Za-z_][A-Za-z0-9_]*)>\[([^\]\[()]+)\]\+\)')
REST_RE = re.compile(r'\(\?P<([A-Za-z_][A-Za-z0-9_]*)>\.\+\)')
LIT_RE = re.compile(r'^[A-Za-z0-9_.-]+$')


def template_of_regex(rx):
    """'^/api/ports/(?P<port_id>[A-Za-z0-9_.-]+)/value/?$' -> ('/api/ports/{}/value', slash_optional);
    raises Untranslatable for any other shape.  Also used by the harness on the *running* table's regex strings."""
    if rx == r'^/api/.*$':
        return '/api/*', False
    if rx == r'^/.*$':
        return '/*', False
    if not (rx.startswith('^/') and rx.endswith('$')):
        raise Untranslatable('regex %r is not anchored ^/...$' % rx)
    body = rx[1:-1]
    slash = False
    if body.endswith('/?'):
        slash = True
        body = body[:-2]
    segs = body.split('/')
    if segs[0] != '' or len(segs) < 2:
        raise Untranslatable('regex %r' % rx)
    out = []
    for i, s in enumerate(segs[1:]):
        last = i == len(segs) - 2
        if SEG_RE.fullmatch(s):
            out.append('{}')
        elif REST_RE.fullmatch(s) and last and not slash:
            out.append('{+}')
        elif LIT_RE.match(s):
            out.append(s)
        else:
            raise Untranslatable('regex %r: segment %r' % (rx, s))
    return '/' + '/'.join(out), slash


# call-shaped conditions the translator knows (closed list): atomic facts of the environment, or functions whose body is
# translated into a conjunction of atomic facts (DERIVED: name -> (file, function))
ATOMIC_CALLS = ['is_discover_enabled()', 'system.conf.can_write_conf_file()', 'persist.is_samples_supported()']
DERIVED_CALLS = {'history.is_enabled()': ('qtoggleserver/core/history.py', 'is_enabled')}


def _flag_of(test):
    """guard expression -> condition name (its canonical source text); unknown conditions are refused"""
    d = dotted(test)
    if d and d.startswith('settings.'):
        return d
    if isinstance(test, ast.Call) and not test.args and not test.keywords:
        d = dotted(test.func)
        if d and (d + '()' in ATOMIC_CALLS or d + '()' in DERIVED_CALLS):
            return d + '()'
    raise Untranslatable('unknown condition ' + ast.unparse(test)[:80])


def parse_derived():
    """{'history.is_enabled()': [atomic facts]}: the body must be `return A and B ...` over settings.* / known atomic calls"""
    out = {}
    for name, (rel, fname) in DERIVED_CALLS.items():
        with open(repo.path(rel)) as f:
            tree = ast.parse(f.read())
        fns = [n for n in tree.body if isinstance(n, ast.FunctionDef) and n.name == fname]
        if len(fns) != 1:
            raise Untranslatable('%s: def %s not found' % (rel, fname))
        body = [x for x in fns[0].body if not apitable._is_docstring(x)]
        if not (len(body) == 1 and isinstance(body[0], ast.Return) and body[0].value is not None):
            raise Untranslatable('%s.%s is not a single return' % (rel, fname))
        v = body[0].value
        parts = v.values if isinstance(v, ast.BoolOp) and isinstance(v.op, ast.And) else [v]
        atoms = []
        for t in parts:
            d = dotted(t)
            if d and d.startswith('settings.'):
                atoms.append(d)
            elif (isinstance(t, ast.Call) and not t.args and not t.keywords and dotted(t.func)
                  and dotted(t.func) + '()' in ATOMIC_CALLS):
                atoms.append(dotted(t.func) + '()')
            else:
                raise Untranslatable('%s.%s: unknown condition %s' % (rel, fname, ast.unparse(t)[:60]))
        out[name] = atoms
    return out


def parse_server():
    with open(repo.path('qtoggleserver/web/server.py')) as f:
        tree = ast.parse(f.read())
    fns = [n for n in tree.body if isinstance(n, ast.FunctionDef) and n.name == '_make_routing_table']
    if len(fns) != 1:
        raise Untranslatable('_make_routing_table not found')
    fn = fns[0]
    entries = []
    body = [s for s in fn.body if not apitable._is_docstring(s)]
    if not (body and isinstance(body[0], ast.Assign) and len(body[0].targets) == 1
            and dotted(body[0].targets[0]) == 'handlers_list' and isinstance(body[0].value, ast.List)
            and not body[0].value.elts):
        raise Untranslatable('_make_routing_table does not start with handlers_list = []')
    if not (isinstance(body[-1], ast.Return) and dotted(body[-1].value) == 'handlers_list'):
        raise Untranslatable('_make_routing_table does not end with return handlers_list')

    def block(stmts, guard):
        for s in stmts:
            if isinstance(s, ast.AugAssign) and isinstance(s.op, ast.Add) and dotted(s.target) == 'handlers_list':
                v = s.value
                if isinstance(v, ast.Call) and dotted(v.func) == 'qui_tornado.make_routing_table' and not v.args \
                        and not v.keywords:
                    entries.append({'guard': list(guard), 'regex': None, 'tmpl': '<frontend-files>', 'slash': False,
                                    'kind': 'KOpaque', 'handler': 'qui'})
                    continue
                if not isinstance(v, ast.List):
                    raise Untranslatable('handlers_list += ' + ast.unparse(v)[:60])
                for e in v.elts:
                    if not (isinstance(e, ast.Call) and dotted(e.func) == 'URLSpec' and len(e.args) == 2
                            and not e.keywords and isinstance(e.args[0], ast.Constant)
                            and isinstance(e.args[0].value, str)):
                        raise Untranslatable('routing entry ' + ast.unparse(e)[:80])
                    h = dotted(e.args[1])
                    if not h or not h.startswith('handlers.') or h.count('.') != 1:
                        raise Untranslatable('handler expression ' + ast.unparse(e.args[1])[:60])
                    tmpl, slash = template_of_regex(e.args[0].value)
                    entries.append({'guard': list(guard), 'regex': e.args[0].value, 'tmpl': tmpl, 'slash': slash,
                                    'kind': None, 'handler': h.split('.')[1]})
            elif isinstance(s, ast.If):
                if s.orelse:
                    raise Untranslatable('guard with an else branch')
                block(s.body, guard + [_flag_of(s.test)])
            else:
                raise Untranslatable('statement in _make_routing_table: ' + ast.unparse(s)[:80])

    block(body[1:-1], [])
    return entries


# ---------------------------------------------------------------------------------------------------------------------

def _resolve_imports(tree, api):
    """handlers.py import lines -> {alias: {funcname: 'module.func'}} for the API function modules"""
    aliases = {}
    for n in tree.body:
        if isinstance(n, ast.ImportFrom) and n.module and n.level == 0:
            for a in n.names:
                full = n.module + '.' + a.name
                got = _module_exports(full, api)
                if got is not None:
                    aliases[a.asname or a.name] = got
    return aliases


def _module_exports(full, api):
    path = repo.path(*full.split('.'))
    if os.path.isfile(path + '.py'):
        return api['exports'].get(full)
    init = os.path.join(path, '__init__.py')
    if os.path.isdir(path) and os.path.isfile(init):
        subs = [m for m in api['exports'] if m.startswith(full + '.') and '.' not in m[len(full) + 1:]]
        if not subs:
            return None
        with open(init) as f:
            tree = ast.parse(f.read())
        out = {}
        for s in tree.body:
            if apitable._is_docstring(s):
                continue
            if (isinstance(s, ast.ImportFrom) and s.level == 1 and s.module and len(s.names) == 1
                    and s.names[0].name == '*'):
                sub = full + '.' + s.module
                for k, v in api['exports'].get(sub, {}).items():
                    out[k] = v   # later star-imports override earlier ones, as in python
                continue
            raise Untranslatable('%s/__init__.py: statement other than "from .m import *"' % full)
        return out
    return None


def _mentions_api(node, aliases):
    for n in ast.walk(node):
        if isinstance(n, ast.Attribute) and n.attr == 'call_api_func':
            return True
        if isinstance(n, ast.Name) and n.id in aliases:
            return True
    return False


def parse_handlers(api):
    with open(repo.path('qtoggleserver/web/handlers.py')) as f:
        tree = ast.parse(f.read())
    aliases = _resolve_imports(tree, api)
    classes = {}
    for n in tree.body:
        if isinstance(n, (ast.FunctionDef, ast.AsyncFunctionDef)):
            raise Untranslatable('top-level function %s in handlers.py' % n.name)
        if isinstance(n, ast.Assign):
            for t in n.targets:
                if not (isinstance(t, ast.Name) and t.id == 'logger'):
                    raise Untranslatable('top-level assignment in handlers.py: ' + ast.unparse(n)[:60])
        if not isinstance(n, ast.ClassDef):
            continue
        if n.decorator_list or n.keywords or len(n.bases) != 1:
            raise Untranslatable('class %s: decorators / several bases' % n.name)
        base = dotted(n.bases[0])
        if n.name in classes:
            raise Untranslatable('class %s defined twice' % n.name)
        if base == 'BaseHandler':
            if _mentions_api(n, aliases):
                raise Untranslatable('class %s(BaseHandler) mentions an API function' % n.name)
            classes[n.name] = {'kind': 'KNotFound', 'auth': True, 'methods': {}}
            continue
        if base != 'APIHandler':
            raise Untranslatable('class %s has base %s' % (n.name, base))
        info = {'kind': 'KApi', 'auth': True, 'methods': {}}
        for s in n.body:
            if apitable._is_docstring(s) or isinstance(s, ast.Pass):
                continue
            if (isinstance(s, ast.Assign) and len(s.targets) == 1 and dotted(s.targets[0]) == 'AUTH_ENABLED'
                    and isinstance(s.value, ast.Constant) and isinstance(s.value.value, bool)):
                info['auth'] = s.value.value
                continue
            if isinstance(s, ast.Assign) and all(isinstance(t, ast.Name) and t.id.upper() in METHODS for t in s.targets) \
                    and isinstance(s.value, ast.Name) and s.value.id.upper() in info['methods']:
                for t in s.targets:
                    info['methods'][t.id.upper()] = dict(info['methods'][s.value.id.upper()])
                continue
            if isinstance(s, ast.AsyncFunctionDef) and s.name.upper() in METHODS and not s.decorator_list:
                info['methods'][s.name.upper()] = _handler_method(n.name, s, aliases)
                continue
            raise Untranslatable('class %s: member %s' % (n.name, ast.unparse(s)[:60]))
        classes[n.name] = info
    return classes


def _handler_method(cls, fn, aliases):
    if not fn.args.args or fn.args.args[0].arg != 'self':
        raise Untranslatable('%s.%s: signature' % (cls, fn.name))
    body = [s for s in fn.body if not apitable._is_docstring(s)]
    pre = []
    while body and isinstance(body[0], ast.If):
        s = body.pop(0)
        t = s.test
        ok = (isinstance(t, ast.UnaryOp) and isinstance(t.op, ast.Not) and (dotted(t.operand) or '').startswith('settings.')
              and not s.orelse and len(s.body) == 1 and isinstance(s.body[0], ast.Raise)
              and isinstance(s.body[0].exc, ast.Call) and dotted(s.body[0].exc.func) == 'NoSuchFunction'
              and not s.body[0].exc.args)
        if not ok:
            raise Untranslatable('%s.%s: pre-check %s' % (cls, fn.name, ast.unparse(s.test)[:60]))
        pre.append(dotted(t.operand))
    if not (len(body) == 1 and isinstance(body[0], ast.Expr) and isinstance(body[0].value, ast.Await)
            and isinstance(body[0].value.value, ast.Call)):
        raise Untranslatable('%s.%s: body is not a single "await self.call_api_func(...)"' % (cls, fn.name))
    c = body[0].value.value
    if dotted(c.func) != 'self.call_api_func' or len(c.args) != 1:
        raise Untranslatable('%s.%s: calls %s' % (cls, fn.name, ast.unparse(c.func)[:40]))
    f = dotted(c.args[0])
    if not f or f.count('.') != 1:
        raise Untranslatable('%s.%s: function expression %s' % (cls, fn.name, ast.unparse(c.args[0])[:40]))
    alias, name = f.split('.')
    if alias not in aliases or name not in aliases[alias]:
        raise Untranslatable('%s.%s: %s is not a function with an api_call level' % (cls, fn.name, f))
    for k in c.keywords:
        if k.arg is None or k.arg == 'func':
            raise Untranslatable('%s.%s: keyword arguments' % (cls, fn.name))
    return {'pre': pre, 'func': aliases[alias][name]}


# ---------------------------------------------------------------------------------------------------------------------

def parse_base():
    with open(repo.path('qtoggleserver/web/base.py')) as f:
        tree = ast.parse(f.read())
    cls = {n.name: n for n in tree.body if isinstance(n, ast.ClassDef)}
    for need in ('NoSuchFunction', 'BaseHandler', 'APIHandler'):
        if need not in cls:
            raise Untranslatable('base.py: class %s not found' % need)

    # NoSuchFunction -> 404
    nsf = cls['NoSuchFunction']
    ok = False
    if [dotted(b) for b in nsf.bases] == ['HTTPError']:
        for s in nsf.body:
            if isinstance(s, ast.FunctionDef) and s.name == '__init__':
                for c in ast.walk(s):
                    if (isinstance(c, ast.Call) and isinstance(c.func, ast.Attribute) and c.func.attr == '__init__'
                            and c.args and apitable._is_int(c.args[0]) and c.args[0].value == 404):
                        ok = True
    if not ok:
        raise Untranslatable('base.py: NoSuchFunction is not HTTPError(404, ...)')

    # BaseHandler: get raises NoSuchFunction; the six other methods alias get
    bh = cls['BaseHandler']
    got_get, aliased = False, set()
    for s in bh.body:
        if isinstance(s, (ast.FunctionDef, ast.AsyncFunctionDef)) and s.name.upper() in METHODS:
            b = [x for x in s.body if not apitable._is_docstring(x)]
            if not (s.name == 'get' and len(b) == 1 and isinstance(b[0], ast.Raise) and isinstance(b[0].exc, ast.Call)
                    and dotted(b[0].exc.func) == 'NoSuchFunction'):
                raise Untranslatable('base.py: BaseHandler.%s is not "raise NoSuchFunction()"' % s.name)
            got_get = True
        if isinstance(s, ast.Assign) and isinstance(s.value, ast.Name) and s.value.id == 'get':
            aliased |= {t.id.upper() for t in s.targets if isinstance(t, ast.Name)}
        if isinstance(s, ast.FunctionDef) and s.name == 'prepare':
            raise Untranslatable('base.py: BaseHandler.prepare')
    if not got_get or aliased != set(METHODS) - {'GET'}:
        raise Untranslatable('base.py: BaseHandler default methods')

    ah = cls['APIHandler']
    if [dotted(b) for b in ah.bases] != ['BaseHandler']:
        raise Untranslatable('base.py: APIHandler base')
    auth_default = None
    json_methods = None
    seen = set()
    for s in ah.body:
        if isinstance(s, ast.Assign) and len(s.targets) == 1 and dotted(s.targets[0]) == 'AUTH_ENABLED':
            if not (isinstance(s.value, ast.Constant) and s.value.value is True):
                raise Untranslatable('base.py: APIHandler.AUTH_ENABLED default is not True')
            auth_default = True
        elif isinstance(s, (ast.FunctionDef, ast.AsyncFunctionDef)):
            seen.add(s.name)
            if s.name.upper() in METHODS:
                raise Untranslatable('base.py: APIHandler defines %s' % s.name)
            if s.name == '__init__':
                _check_init(s)
            elif s.name == 'prepare':
                grant = _check_prepare(s)
            elif s.name == 'call_api_func':
                json_methods = _check_call_api_func(s)
            else:
                _check_no_level_assignment(s)
    if auth_default is not True or not {'__init__', 'prepare', 'call_api_func'} <= seen:
        raise Untranslatable('base.py: APIHandler members')
    return {'json_methods': json_methods, 'grant': grant}


def _level_assignments(fn):
    out = []
    for n in ast.walk(fn):
        tg = []
        if isinstance(n, ast.Assign):
            tg = n.targets
        elif isinstance(n, (ast.AugAssign, ast.AnnAssign)):
            tg = [n.target]
        for t in tg:
            for x in ast.walk(t):
                if isinstance(x, ast.Attribute) and x.attr in ('access_level', 'AUTH_ENABLED'):
                    out.append(n)
        if isinstance(n, ast.Call) and dotted(n.func) in ('setattr', 'object.__setattr__'):
            out.append(n)
    return out


def _check_no_level_assignment(fn):
    if _level_assignments(fn):
        raise Untranslatable('base.py: %s assigns access_level' % fn.name)


def _check_init(fn):
    asg = _level_assignments(fn)
    if not (len(asg) == 1 and isinstance(asg[0], ast.AnnAssign) and dotted(asg[0].target) == 'self.access_level'
            and dotted(asg[0].value) == 'core_api.ACCESS_LEVEL_NONE') and not (
            len(asg) == 1 and isinstance(asg[0], ast.Assign) and dotted(asg[0].targets[0]) == 'self.access_level'
            and dotted(asg[0].value) == 'core_api.ACCESS_LEVEL_NONE'):
        raise Untranslatable('base.py: APIHandler.__init__ does not start access_level at core_api.ACCESS_LEVEL_NONE')


def _check_prepare(fn):
    # `if not self.AUTH_ENABLED: return` must come (at top level) before any assignment to self.access_level,
    # and every such assignment must be  self.access_level = core_api.ACCESS_LEVEL_MAPPING[usr]
    gate = None
    for i, s in enumerate(fn.body):
        if (isinstance(s, ast.If) and isinstance(s.test, ast.UnaryOp) and isinstance(s.test.op, ast.Not)
                and dotted(s.test.operand) == 'self.AUTH_ENABLED' and len(s.body) == 1
                and isinstance(s.body[0], ast.Return) and s.body[0].value is None and not s.orelse):
            gate = i
            break
        if _level_assignments(s):
            raise Untranslatable('base.py: prepare assigns access_level before the AUTH_ENABLED gate')
    if gate is None:
        raise Untranslatable('base.py: prepare has no "if not self.AUTH_ENABLED: return"')
    for n in _level_assignments(fn):
        ok = (isinstance(n, ast.Assign) and len(n.targets) == 1 and dotted(n.targets[0]) == 'self.access_level'
              and isinstance(n.value, ast.Subscript) and dotted(n.value.value) == 'core_api.ACCESS_LEVEL_MAPPING'
              and dotted(n.value.slice) == 'usr')
        if not ok:
            raise Untranslatable('base.py: prepare: ' + ast.unparse(n)[:70])
    return _grant_tree(list(fn.body[gate + 1:]), None)


def _is_logger(s):
    return isinstance(s, ast.Expr) and isinstance(s.value, ast.Call) and (dotted(s.value.func) or '').startswith('logger.')


def _grant_tree(stmts, usr):
    """the statements of prepare() after the AUTH_ENABLED gate -> (coq, description) of the level granted, over the facts
    present (an Authorization header is there), valid (it verifies as a consumer token; implies present), admin_empty
    (admin password hash == EMPTY_PASSWORD_HASH), token_level (level of the token's usr).  Closed list of shapes:
        auth = self.request.headers.get('Authorization')           if auth: / if not auth:
        if core_device_attrs.admin_password_hash == core_device_attrs.EMPTY_PASSWORD_HASH:
        try: usr = core_api_auth.parse_auth_header(auth, core_api_auth.ORIGIN_CONSUMER,
                                                   core_api_auth.consumer_password_hash_func)
        except core_api_auth.AuthError ...: <logger>; return
        usr = '<user>'        return        logger.<x>(...)
        self.access_level = core_api.ACCESS_LEVEL_MAPPING[usr]    (end: the level of usr)
    The ORDER of the tests is what is translated; the theorem grant_ok decides whether it is the specified one."""
    api = apitable.LAST
    if not stmts:
        raise Untranslatable('base.py: prepare can end without assigning access_level or returning')
    s, rest = stmts[0], list(stmts[1:])
    if apitable._is_docstring(s) or _is_logger(s):
        return _grant_tree(rest, usr)
    if (isinstance(s, ast.Assign) and len(s.targets) == 1 and dotted(s.targets[0]) == 'auth'
            and isinstance(s.value, ast.Call) and dotted(s.value.func) == 'self.request.headers.get'
            and len(s.value.args) == 1 and isinstance(s.value.args[0], ast.Constant)
            and s.value.args[0].value == 'Authorization' and not s.value.keywords):
        return _grant_tree(rest, usr)
    if isinstance(s, ast.Return) and s.value is None:
        return 'NONE', 'none'
    if (isinstance(s, ast.Assign) and len(s.targets) == 1 and dotted(s.targets[0]) == 'usr'
            and isinstance(s.value, ast.Constant) and isinstance(s.value.value, str)):
        if s.value.value not in api['users']:
            raise Untranslatable('base.py: prepare: usr = %r is not a known user' % s.value.value)
        return _grant_tree(rest, ('const', s.value.value))
    if (isinstance(s, ast.Assign) and len(s.targets) == 1 and dotted(s.targets[0]) == 'self.access_level'):
        if usr is None:
            raise Untranslatable('base.py: prepare assigns access_level before usr is known')
        for r in rest:
            if _level_assignments(r):
                raise Untranslatable('base.py: prepare assigns access_level twice on one path')
        if usr[0] == 'token':
            return 'token_level', 'level of the token user'
        return coq.z(api['users'][usr[1]]), usr[1]
    if isinstance(s, ast.If):
        t, neg = s.test, False
        if isinstance(t, ast.UnaryOp) and isinstance(t.op, ast.Not):
            t, neg = t.operand, True
        if dotted(t) == 'auth':
            c, d = 'present', 'header present'
        elif (isinstance(t, ast.Compare) and len(t.ops) == 1 and isinstance(t.ops[0], ast.Eq)
              and {dotted(t.left), dotted(t.comparators[0])} == {'core_device_attrs.admin_password_hash',
                                                                 'core_device_attrs.EMPTY_PASSWORD_HASH'}):
            c, d = 'admin_empty', 'admin password empty'
        else:
            raise Untranslatable('base.py: prepare: test ' + ast.unparse(s.test)[:70])
        a, da = _grant_tree(list(s.body) + rest, usr)
        b, db = _grant_tree(list(s.orelse) + rest, usr)
        if neg:
            a, da, b, db = b, db, a, da
        return '(if %s then %s else %s)' % (c, a, b), '(%s ? %s : %s)' % (d, da, db)
    if isinstance(s, ast.Try):
        ok = (len(s.body) == 1 and isinstance(s.body[0], ast.Assign) and len(s.body[0].targets) == 1
              and dotted(s.body[0].targets[0]) == 'usr' and isinstance(s.body[0].value, ast.Call)
              and dotted(s.body[0].value.func) == 'core_api_auth.parse_auth_header'
              and [dotted(a) for a in s.body[0].value.args] == ['auth', 'core_api_auth.ORIGIN_CONSUMER',
                                                                'core_api_auth.consumer_password_hash_func']
              and not s.body[0].value.keywords and len(s.handlers) == 1
              and dotted(s.handlers[0].type) == 'core_api_auth.AuthError' and not s.orelse and not s.finalbody)
        if ok:
            hb = [x for x in s.handlers[0].body if not _is_logger(x)]
            ok = len(hb) == 1 and isinstance(hb[0], ast.Return) and hb[0].value is None
        if not ok:
            raise Untranslatable('base.py: prepare: try block is not "usr = parse_auth_header(auth, ORIGIN_CONSUMER, '
                                 'consumer_password_hash_func) except AuthError: return"')
        a, da = _grant_tree(rest, ('token',))
        return '(if valid then %s else NONE)' % a, '(token verifies ? %s : none)' % da
    raise Untranslatable('base.py: prepare: statement ' + ast.unparse(s)[:70])


def _check_call_api_func(fn):
    _check_no_level_assignment(fn)
    if [a.arg for a in fn.args.args][:2] != ['self', 'func']:
        raise Untranslatable('base.py: call_api_func signature')
    calls = [n for n in ast.walk(fn) if isinstance(n, ast.Call) and dotted(n.func) == 'func']
    if len(calls) != 1:
        raise Untranslatable('base.py: call_api_func calls func %d times' % len(calls))
    body = [s for s in fn.body if not apitable._is_docstring(s)]
    if not (len(body) == 1 and isinstance(body[0], ast.Try)):
        raise Untranslatable('base.py: call_api_func body is not one try block')
    tb = body[0].body
    if not (len(tb) >= 2 and isinstance(tb[0], ast.If) and isinstance(tb[1], ast.Assign) and tb[1].value is calls[0]):
        raise Untranslatable('base.py: call_api_func does not call func right after the content-type test')
    c = calls[0]
    if not (len(c.args) == 1 and dotted(c.args[0]) == 'self' and len(c.keywords) == 1 and c.keywords[0].arg is None):
        raise Untranslatable('base.py: call_api_func: func(...) arguments')
    t = tb[0].test
    if not (isinstance(t, ast.Compare) and len(t.ops) == 1 and isinstance(t.ops[0], ast.In)
            and dotted(t.left) == 'self.request.method' and isinstance(t.comparators[0], (ast.Tuple, ast.List))
            and all(isinstance(e, ast.Constant) and e.value in METHODS for e in t.comparators[0].elts)
            and not tb[0].orelse):
        raise Untranslatable('base.py: call_api_func: method test')
    inner = tb[0].body
    ok = (len(inner) == 1 and isinstance(inner[0], ast.If) and len(inner[0].orelse) == 1
          and isinstance(inner[0].orelse[0], ast.Raise) and isinstance(inner[0].orelse[0].exc, ast.Call)
          and dotted(inner[0].orelse[0].exc.func) == 'core_api.APIError'
          and inner[0].orelse[0].exc.args and apitable._is_int(inner[0].orelse[0].exc.args[0])
          and inner[0].orelse[0].exc.args[0].value == 400
          and 'application/json' in ast.unparse(inner[0].test) and 'Content-Type' in ast.unparse(inner[0].test)
          and not any(isinstance(x, (ast.Raise, ast.Return)) for s in inner[0].body for x in ast.walk(s)))
    if not ok:
        raise Untranslatable('base.py: call_api_func: content-type test')
    return [e.value for e in t.comparators[0].elts]


# ---------------------------------------------------------------------------------------------------------------------

def parse_listen(api):
    """which of get_listen's values reaches the access_level parameter of Session.reset_and_wait, and the event levels.
    core/sessions.py: def reset_and_wait(self, <p1>, <p2>) with {p1, p2} = {timeout, access_level};
    core/api/funcs/various.py get_listen: exactly one call session.reset_and_wait(<a>, <b>) / keywords, each argument being
    `timeout` or `request.access_level`."""
    with open(repo.path('qtoggleserver/core/sessions.py')) as f:
        tree = ast.parse(f.read())
    sig = None
    for c in tree.body:
        if isinstance(c, ast.ClassDef) and c.name == 'Session':
            for m in c.body:
                if isinstance(m, ast.FunctionDef) and m.name == 'reset_and_wait':
                    a = m.args
                    if a.vararg or a.kwarg or a.kwonlyargs or a.defaults or a.posonlyargs:
                        raise Untranslatable('sessions.py: reset_and_wait signature')
                    sig = [x.arg for x in a.args]
    if sig is None or sig[0] != 'self' or sorted(sig[1:]) != ['access_level', 'timeout']:
        raise Untranslatable('sessions.py: reset_and_wait(self, timeout, access_level) not found')
    with open(repo.path('qtoggleserver/core/api/funcs/various.py')) as f:
        tree = ast.parse(f.read())
    fns = [n for n in tree.body if isinstance(n, ast.AsyncFunctionDef) and n.name == 'get_listen']
    if len(fns) != 1:
        raise Untranslatable('various.py: get_listen not found')
    calls = [n for n in ast.walk(fns[0]) if isinstance(n, ast.Call) and isinstance(n.func, ast.Attribute)
             and n.func.attr == 'reset_and_wait']
    if len(calls) != 1 or dotted(calls[0].func) != 'session.reset_and_wait':
        raise Untranslatable('various.py: get_listen does not call session.reset_and_wait exactly once')

    def val(e):
        d = dotted(e)
        if d == 'timeout':
            return 'timeout'
        if d == 'request.access_level':
            return 'level'
        raise Untranslatable('various.py: reset_and_wait argument ' + ast.unparse(e)[:50])
    bound = {}
    for name, e in zip(sig[1:], calls[0].args):
        bound[name] = val(e)
    for k in calls[0].keywords:
        if k.arg is None or k.arg in bound or k.arg not in sig[1:]:
            raise Untranslatable('various.py: reset_and_wait keywords')
        bound[k.arg] = val(k.value)
    if sorted(bound) != ['access_level', 'timeout']:
        raise Untranslatable('various.py: reset_and_wait arguments')
    # the name `timeout` must be the validated query value / default, never reassigned from the level
    for n in ast.walk(fns[0]):
        if isinstance(n, ast.Assign) and any(dotted(t) == 'timeout' for t in n.targets) and 'access_level' in ast.unparse(n.value):
            raise Untranslatable('various.py: get_listen derives timeout from the access level')
    from harness.translate import eventtable
    try:
        table = eventtable.event_classes(eventtable.access_levels())
    except Exception as e:
        raise Untranslatable('event classes (harness/translate/eventtable.py): %s' % e)
    return {'session_level': bound['access_level'], 'events': {r['type']: r['required'] for r in table}}


def parse():
    global LAST
    LAST = None
    api = apitable.LAST or apitable.parse()
    derived = parse_derived()
    entries = parse_server()
    classes = parse_handlers(api)
    base = parse_base()
    for e in entries:
        if e['kind'] == 'KOpaque':
            continue
        if e['handler'] not in classes:
            raise Untranslatable('routing table names unknown handler class %s' % e['handler'])
        e['kind'] = classes[e['handler']]['kind']
    # catch-all templates must be "not found" handlers; nothing but catch-alls may use them
    for e in entries:
        if e['tmpl'] in ('/api/*', '/*') and e['kind'] != 'KNotFound':
            raise Untranslatable('catch-all route %s served by %s' % (e['tmpl'], e['handler']))
    def atoms(gs):
        out = []
        for g in gs:
            out += derived.get(g, [g])
        return out
    flags = []   # the atomic facts, in order of appearance
    for e in entries:
        e['guard_atoms'] = atoms(e['guard'])
        for g in e['guard_atoms']:
            if g not in flags:
                flags.append(g)
    for c in classes.values():
        for m in c['methods'].values():
            m['pre_atoms'] = atoms(m['pre'])
            for g in m['pre_atoms']:
                if g not in flags:
                    flags.append(g)
    LAST = {'api': api, 'entries': entries, 'classes': classes, 'json_methods': base['json_methods'], 'flags': flags,
            'grant': base['grant'], 'derived': derived, 'listen': parse_listen(api)}
    return LAST


def gen_text(t):
    api = t['api']
    s = coq.string
    out = [
        '(* generated by harness/translate/apitable.py + routes.py from %s — do not edit *)' % repo.REPO,
        'From QT Require Import C09.Model.',
        'Open Scope string_scope.',
        'Open Scope Z_scope.',
        '',
    ]
    for k, v in sorted(api['consts'].items()):
        out.append('Definition %s : Z := %s.' % (k, coq.z(v)))
    out += [
        '',
        '(* core/api/__init__.py api_call.wrapper: request_handler.access_level = level, access_level = required *)',
        'Definition wrapper (level required : Z) : outcome :=',
        '  %s.' % api['wrapper_coq'],
        '',
        'Definition gen_users : list (string * Z) := %s.' % coq.lst(
            sorted(api['users'].items()), lambda p: '(%s, %s)' % (s(p[0]), coq.z(p[1]))),
        '',
        'Definition gen_levels : list (string * Z) := [',
        ';\n'.join('  (%s, %s)' % (s(k), coq.z(v)) for k, v in sorted(api['levels'].items())),
        '].',
        '',
        'Definition gen_routes : list entry := [',
        ';\n'.join('  {| e_guard := %s; e_tmpl := %s; e_kind := %s; e_handler := %s |}'
                   % (coq.lst(e['guard'], s), s(e['tmpl']), e['kind'], s(e['handler'])) for e in t['entries']),
        '].',
        '',
        'Definition gen_hmeths : list hmeth := [',
    ]
    rows = []
    for cname, c in t['classes'].items():
        for m in METHODS:
            if m in c['methods']:
                hm = c['methods'][m]
                rows.append('  {| hm_handler := %s; hm_meth := %s; hm_pre := %s; hm_func := %s |}'
                            % (s(cname), m, coq.lst(hm['pre'], s), s(hm['func'])))
    out += [
        ';\n'.join(rows),
        '].',
        '',
        'Definition gen_noauth : list string := %s.' % coq.lst(
            [n for n, c in t['classes'].items() if c['kind'] == 'KApi' and not c['auth']], s),
        'Definition gen_json_methods : list meth := %s.' % coq.lst(t['json_methods']),
        'Definition gen_flags : list string := %s.' % coq.lst(t['flags'], s),
        '(* guard names that are functions of atomic facts (core/history.py is_enabled) *)',
        'Definition gen_derived : list (string * list string) := %s.' % coq.lst(
            sorted(t['derived'].items()), lambda p: '(%s, %s)' % (s(p[0]), coq.lst(p[1], s))),
        '',
        '(* web/base.py APIHandler.prepare, after the AUTH_ENABLED gate: the level granted to a request *)',
        'Definition grant (present valid admin_empty : bool) (token_level : Z) : Z :=',
        '  let NONE := ACCESS_LEVEL_NONE in %s.' % t['grant'][0],
        '',
        '(* core/api/funcs/various.py get_listen -> core/sessions.py Session.reset_and_wait: the level the session listens at *)',
        'Definition listen_session_level (level timeout : Z) : Z := %s.' % t['listen']['session_level'],
        '(* REQUIRED_ACCESS of every event class, by TYPE (read by harness/translate/eventtable.py) *)',
        'Definition gen_event_levels : list (string * Z) := %s.' % coq.lst(
            sorted(t['listen']['events'].items()), lambda p: '(%s, %s)' % (s(p[0]), coq.z(p[1]))),
        '',
        'Definition gen_tables : tables := {|',
        '  t_routes := gen_routes; t_derived := gen_derived; t_hmeths := gen_hmeths; t_noauth := gen_noauth; t_levels := gen_levels;',
        '  t_none := ACCESS_LEVEL_NONE; t_json_methods := gen_json_methods; t_wrapper := wrapper |}.',
        '',
    ]
    return '\n'.join(out)


def translate(ctx=None):
    t = parse()
    coq.write_gen('C09Gen.v', gen_text(t))
    napi = sum(1 for e in t['entries'] if e['kind'] == 'KApi')
    nm = sum(len(c['methods']) for c in t['classes'].values())
    return {'status': 'ok', 'detail': '%d routing entries (%d API), %d handler methods, flags %s; prepare grants %s'
            % (len(t['entries']), napi, nm, t['flags'], t['grant'][1])}
