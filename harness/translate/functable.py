"""Translator (tie T): the function registry of qtoggleserver/core/expressions/*.py -> theories/Gen/FuncTable.v.

For every class decorated with @function('NAME'): MIN_ARGS, MAX_ARGS, DEPS, ARG_KINDS, ENABLED (class body or inherited from a
base class of the same module; defaults of `Function`), and whether `_eval` uses `self.eval_args(...)` (eager) and/or
`self.args[...] ... .eval(...)` (lazy).  Also the shape of SgnFunction._eval (does it truncate with int() before taking the sign).
Closed list of shapes; anything else raises Untranslatable (fail closed)."""
import ast
import glob
import os

from harness.common import coq, repo


class Untranslatable(Exception):
    pass


DEFAULTS = {'MIN_ARGS': None, 'MAX_ARGS': None, 'DEPS': [], 'ARG_KINDS': [], 'ENABLED': True}


def _const(node, name):
    if name in ('MIN_ARGS', 'MAX_ARGS'):
        if isinstance(node, ast.Constant) and (node.value is None or (isinstance(node.value, int) and not isinstance(node.value, bool))):
            return node.value
        raise Untranslatable('%s = %s' % (name, ast.dump(node)[:60]))
    if name == 'DEPS':
        if isinstance(node, ast.Set) and all(isinstance(e, ast.Constant) and isinstance(e.value, str) for e in node.elts):
            return sorted(e.value for e in node.elts)
        if isinstance(node, ast.Call) and isinstance(node.func, ast.Name) and node.func.id == 'set' and not node.args:
            return []
        raise Untranslatable('DEPS = %s' % ast.dump(node)[:60])
    if name == 'ARG_KINDS':
        if isinstance(node, ast.List) and all(isinstance(e, ast.Name) for e in node.elts):
            return [e.id for e in node.elts]
        raise Untranslatable('ARG_KINDS = %s' % ast.dump(node)[:60])
    if name == 'ENABLED':
        if isinstance(node, ast.Constant) and isinstance(node.value, bool):
            return node.value
        return 'dynamic'
    raise Untranslatable(name)


def _class_attrs(cls):
    attrs = {}
    for st in cls.body:
        if isinstance(st, ast.Assign):
            for t in st.targets:
                if isinstance(t, ast.Name) and t.id in DEFAULTS:
                    attrs[t.id] = _const(st.value, t.id)
    return attrs


def _eval_shape(cls):
    fn = [n for n in cls.body if isinstance(n, ast.AsyncFunctionDef) and n.name == '_eval']
    if not fn:
        return None
    eager = lazy = False
    for node in ast.walk(fn[0]):
        if isinstance(node, ast.Call) and isinstance(node.func, ast.Attribute):
            if node.func.attr == 'eval_args' and isinstance(node.func.value, ast.Name) and node.func.value.id == 'self':
                eager = True
            if node.func.attr == 'eval':
                v = node.func.value
                # self.args[i].eval(...)  or  arg.eval(...) inside `for arg in self.args`
                lazy = True
    return {(True, False): 0, (False, True): 1, (True, True): 2, (False, False): 3}[(eager, lazy)]


def _sgn_shape(cls):
    fn = [n for n in cls.body if isinstance(n, ast.AsyncFunctionDef) and n.name == '_eval'][0]
    body = fn.body
    if len(body) != 2 or not isinstance(body[0], ast.Assign) or not isinstance(body[1], ast.If):
        raise Untranslatable('SgnFunction._eval: unexpected statements')
    val = body[0].value
    int_first = False
    if isinstance(val, ast.Call) and isinstance(val.func, ast.Name) and val.func.id == 'int' and len(val.args) == 1:
        int_first = True
        val = val.args[0]
    # (await self.eval_args(context))[0]
    ok = (isinstance(val, ast.Subscript) and isinstance(val.value, ast.Await)
          and isinstance(val.value.value, ast.Call) and getattr(val.value.value.func, 'attr', '') == 'eval_args'
          and isinstance(val.slice, ast.Constant) and val.slice.value == 0)
    if not ok:
        raise Untranslatable('SgnFunction._eval: unexpected argument expression')
    var = body[0].targets[0].id

    def is_cmp(t, op):
        return (isinstance(t, ast.Compare) and isinstance(t.left, ast.Name) and t.left.id == var and len(t.ops) == 1
                and isinstance(t.ops[0], op) and isinstance(t.comparators[0], ast.Constant) and t.comparators[0].value == 0)

    def ret(stmts):
        if len(stmts) == 1 and isinstance(stmts[0], ast.Return):
            v = stmts[0].value
            if isinstance(v, ast.Constant):
                return v.value
            if isinstance(v, ast.UnaryOp) and isinstance(v.op, ast.USub) and isinstance(v.operand, ast.Constant):
                return -v.operand.value
        raise Untranslatable('SgnFunction._eval: unexpected return')
    i1 = body[1]
    if not (is_cmp(i1.test, ast.Gt) and ret(i1.body) == 1 and len(i1.orelse) == 1 and isinstance(i1.orelse[0], ast.If)):
        raise Untranslatable('SgnFunction._eval: unexpected first branch')
    i2 = i1.orelse[0]
    if not (is_cmp(i2.test, ast.Lt) and ret(i2.body) == -1 and ret(i2.orelse) == 0):
        raise Untranslatable('SgnFunction._eval: unexpected second branch')
    return int_first


def read_table():
    files = sorted(glob.glob(repo.path('qtoggleserver/core/expressions/*.py')))
    table = []
    sgn_int_first = None
    for path in files:
        with open(path) as f:
            tree = ast.parse(f.read())
        classes = {n.name: n for n in tree.body if isinstance(n, ast.ClassDef)}

        def resolve(cls, what):
            if what == 'shape':
                s = _eval_shape(cls)
                if s is not None:
                    return s
            else:
                a = _class_attrs(cls)
                if what in a:
                    return a[what]
            for b in cls.bases:
                if isinstance(b, ast.Name) and b.id in classes:
                    r = resolve(classes[b.id], what)
                    if r is not None or what in ('MIN_ARGS', 'MAX_ARGS'):
                        # None is a legitimate value for MIN/MAX only if explicitly assigned; keep searching otherwise
                        if r is not None:
                            return r
            return None

        for cls in classes.values():
            name = None
            for d in cls.decorator_list:
                if (isinstance(d, ast.Call) and isinstance(d.func, ast.Name) and d.func.id == 'function'
                        and len(d.args) == 1 and isinstance(d.args[0], ast.Constant) and isinstance(d.args[0].value, str)):
                    name = d.args[0].value
            if name is None:
                continue
            entry = {'name': name, 'module': os.path.basename(path)[:-3], 'class': cls.name}
            for k in DEFAULTS:
                v = resolve(cls, k)
                entry[k] = DEFAULTS[k] if v is None else v
            shape = resolve(cls, 'shape')
            if shape is None:
                raise Untranslatable('%s: no _eval found' % name)
            entry['shape'] = shape
            table.append(entry)
            if name == 'SGN':
                sgn_int_first = _sgn_shape(cls)
    if sgn_int_first is None:
        raise Untranslatable('SGN not found')
    names = [e['name'] for e in table]
    if len(set(names)) != len(names):
        raise Untranslatable('duplicate function names')
    return sorted(table, key=lambda e: e['name']), sgn_int_first


def runtime_table():
    """the same table from the imported module objects (cross-check)"""
    from qtoggleserver.core.expressions import functions
    from qtoggleserver.core.expressions.port import PortRef
    out = {}
    for name, cls in functions.FUNCTIONS.items():
        out[name] = {
            'MIN_ARGS': cls.MIN_ARGS, 'MAX_ARGS': cls.MAX_ARGS, 'DEPS': sorted(cls.DEPS),
            'ARG_KINDS': ['PortRef' if k is PortRef else getattr(k, '__name__', str(k)) for k in cls.ARG_KINDS],
            'ENABLED': cls.ENABLED if isinstance(cls.ENABLED, bool) else 'dynamic',
        }
    return out


def translate(ctx=None):
    table, sgn_int_first = read_table()
    rt = runtime_table()
    for e in table:
        r = rt.get(e['name'])
        if r is None:
            raise Untranslatable('%s is not registered at run time' % e['name'])
        for k in ('MIN_ARGS', 'MAX_ARGS', 'DEPS', 'ARG_KINDS', 'ENABLED'):
            if r[k] != e[k]:
                raise Untranslatable('%s.%s: source says %r, imported class says %r' % (e['name'], k, e[k], r[k]))
    if set(rt) != set(e['name'] for e in table):
        raise Untranslatable('registry differs: %s' % sorted(set(rt) ^ set(e['name'] for e in table)))

    def opt(v):
        return 'None' if v is None else '(Some %s)' % coq.z(v)
    rows = []
    for e in table:
        refargs = [i for i, k in enumerate(e['ARG_KINDS']) if k == 'PortRef']
        if any(k != 'PortRef' for k in e['ARG_KINDS']):
            raise Untranslatable('%s: ARG_KINDS %r' % (e['name'], e['ARG_KINDS']))
        rows.append('  {| fi_name := %s; fi_min := %s; fi_max := %s; fi_deps := %s; fi_shape := %d; fi_refargs := %s; fi_enabled := %s |}' % (
            coq.string(e['name']), opt(e['MIN_ARGS']), opt(e['MAX_ARGS']), coq.lst(e['DEPS'], coq.string), e['shape'],
            coq.zlist(refargs), coq.boolean(e['ENABLED'] is True)))
    text = (
        '(* generated by harness/translate/functable.py from %s — do not edit *)\n'
        'From QT Require Import Expr.FuncInfo.\nOpen Scope Z_scope.\nOpen Scope string_scope.\n'
        'Definition func_table : list func_info := [\n%s\n].\n'
        'Definition sgn_int_first : bool := %s.\n'
        % (repo.path('qtoggleserver/core/expressions/*.py'), ';\n'.join(rows), coq.boolean(sgn_int_first))
    )
    coq.write_gen('FuncTable.v', text)
    return {'status': 'ok', 'detail': '%d functions, sgn_int_first=%s' % (len(table), sgn_int_first), 'table': table}
