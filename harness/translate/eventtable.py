"""Translator (tie T) for C11: regenerates theories/Gen/C11Gen.v from /repo's working tree.

Reads (python `ast`, closed list of shapes, anything else raises Untranslatable = fail closed):

* core/api/__init__.py          ACCESS_LEVEL_* = <int>
* core/events/base.py           class Event: REQUIRED_ACCESS, TYPE, `def is_duplicate(self, event): return False`
* core/events/port.py, core/events/device.py, slaves/events.py
      every class deriving (transitively, single inheritance) from Event; for the concrete ones (those that define TYPE in
      their own body): TYPE string, REQUIRED_ACCESS (own or inherited, `core_api.ACCESS_LEVEL_X` or an int), and the shape of
      is_duplicate (own or inherited):
          return False                                                                    -> DupNever
          return isinstance(event, self.__class__)                                        -> DupSameClass
          return isinstance(event, self.__class__) and event.get_X() == self.get_X()      -> DupSameClassObj
      where get_X is a method of a base class whose body is `return self._x` and whose __init__ stores its first argument in
      `self._x`.  A class with a non-trivial is_duplicate must not have subclasses in the table (isinstance would accept them).
* core/events/handlers.py       trigger: shape TRIGGER_SHAPE below (every synchronous handler shielded on its own)
* core/events/handlers.py, core/events/__init__.py, every module using core_events.disable/enable
                                see disable_pairing(): enable/disable only set the flag, every disable() is undone in a finally
* conf/settings.py              class core: event_queue_size: int = <int>
* core/sessions.py              SESSION_EXPIRY_FACTOR = <int>;
                                Session.reset_and_wait as a straight-line program over the statement shapes listed in
                                RESET_SHAPES below (this is where the level is rebound and the queue answered);
                                SessionsEventHandler.handle_event: `for session in ...values(): if session.access_level <
                                event.REQUIRED_ACCESS: continue; session.push(event)`.
"""
import ast

from harness.common import coq, repo

FILES = {
    'api': 'qtoggleserver/core/api/__init__.py',
    'base': 'qtoggleserver/core/events/base.py',
    'port': 'qtoggleserver/core/events/port.py',
    'device': 'qtoggleserver/core/events/device.py',
    'slaves': 'qtoggleserver/slaves/events.py',
    'settings': 'qtoggleserver/conf/settings.py',
    'sessions': 'qtoggleserver/core/sessions.py',
    'handlers': 'qtoggleserver/core/events/handlers.py',
}
EVENT_MODULES = [
    ('base', 'qtoggleserver.core.events.base'),
    ('port', 'qtoggleserver.core.events.port'),
    ('device', 'qtoggleserver.core.events.device'),
    ('slaves', 'qtoggleserver.slaves.events'),
]
SHAPES = {'never': 'DupNever', 'class': 'DupSameClass', 'class_obj': 'DupSameClassObj'}


class Untranslatable(Exception):
    pass


def _parse(key):
    with open(repo.path(FILES[key])) as f:
        return ast.parse(f.read())


def _is_docstring(st):
    return isinstance(st, ast.Expr) and isinstance(st.value, ast.Constant) and isinstance(st.value.value, str)


def _int_const(e):
    if isinstance(e, ast.Constant) and isinstance(e.value, int) and not isinstance(e.value, bool):
        return e.value
    return None


def access_levels():
    levels = {}
    for st in _parse('api').body:
        if (isinstance(st, ast.Assign) and len(st.targets) == 1 and isinstance(st.targets[0], ast.Name)
                and st.targets[0].id.startswith('ACCESS_LEVEL_') and _int_const(st.value) is not None):
            levels[st.targets[0].id] = st.value.value
    if not levels:
        raise Untranslatable('no ACCESS_LEVEL_* constants found')
    return levels


def _level(e, levels):
    v = _int_const(e)
    if v is not None:
        return v
    if (isinstance(e, ast.Attribute) and isinstance(e.value, ast.Name) and e.value.id == 'core_api'
            and e.attr in levels):
        return levels[e.attr]
    raise Untranslatable('REQUIRED_ACCESS value ' + ast.dump(e)[:80])


def _name_of_base(b):
    if isinstance(b, ast.Name):
        return b.id
    if isinstance(b, ast.Attribute) and isinstance(b.value, ast.Name) and b.value.id == 'core_events':
        return b.attr
    raise Untranslatable('base class ' + ast.dump(b)[:80])


def _self_attr(e, owner='self'):
    """self._x -> '_x'"""
    if isinstance(e, ast.Attribute) and isinstance(e.value, ast.Name) and e.value.id == owner:
        return e.attr
    return None


def _body(fn):
    return [st for st in fn.body if not _is_docstring(st)]


def _getter_field(cls_info, classes, getter):
    """the field returned by method `getter` (looked up along the base chain) and a check that __init__ of the defining
    class stores its first positional parameter there"""
    c = cls_info
    while c is not None:
        fn = c['methods'].get(getter)
        if fn is not None:
            body = _body(fn)
            if len(body) == 1 and isinstance(body[0], ast.Return) and _self_attr(body[0].value):
                field = _self_attr(body[0].value)
                init = c['methods'].get('__init__')
                if init is None or len(init.args.args) < 2:
                    raise Untranslatable('%s.__init__ does not take the object' % c['name'])
                first = init.args.args[1].arg
                stores = [
                    st for st in _body(init)
                    if isinstance(st, (ast.Assign, ast.AnnAssign))
                    and _self_attr(st.targets[0] if isinstance(st, ast.Assign) else st.target) == field
                    and isinstance(st.value, ast.Name) and st.value.id == first
                ]
                if len(stores) != 1:
                    raise Untranslatable('%s.__init__ does not store %s in self.%s' % (c['name'], first, field))
                return field
            raise Untranslatable('%s.%s is not `return self._x`' % (c['name'], getter))
        c = classes.get(c['base'])
    raise Untranslatable('getter %s not found' % getter)


def _is_isinstance_selfclass(e, other):
    return (isinstance(e, ast.Call) and isinstance(e.func, ast.Name) and e.func.id == 'isinstance' and len(e.args) == 2
            and not e.keywords and isinstance(e.args[0], ast.Name) and e.args[0].id == other
            and isinstance(e.args[1], ast.Attribute) and e.args[1].attr == '__class__'
            and isinstance(e.args[1].value, ast.Name) and e.args[1].value.id == 'self')


def _getter_call(e, owner):
    if (isinstance(e, ast.Call) and not e.args and not e.keywords and isinstance(e.func, ast.Attribute)
            and isinstance(e.func.value, ast.Name) and e.func.value.id == owner):
        return e.func.attr
    return None


def _dup_shape(fn, cls_info, classes):
    """-> ('never'|'class'|'class_obj', getter or None)"""
    if len(fn.args.args) != 2 or fn.args.vararg or fn.args.kwarg or fn.args.kwonlyargs or fn.decorator_list:
        raise Untranslatable('is_duplicate signature in %s' % cls_info['name'])
    if isinstance(fn, ast.AsyncFunctionDef):
        raise Untranslatable('async is_duplicate in %s' % cls_info['name'])
    other = fn.args.args[1].arg
    body = _body(fn)
    if len(body) != 1 or not isinstance(body[0], ast.Return):
        raise Untranslatable('is_duplicate body in %s' % cls_info['name'])
    e = body[0].value
    if isinstance(e, ast.Constant) and e.value is False:
        return 'never', None
    if _is_isinstance_selfclass(e, other):
        return 'class', None
    if (isinstance(e, ast.BoolOp) and isinstance(e.op, ast.And) and len(e.values) == 2
            and _is_isinstance_selfclass(e.values[0], other)):
        c = e.values[1]
        if isinstance(c, ast.Compare) and len(c.ops) == 1 and isinstance(c.ops[0], ast.Eq):
            a, b = _getter_call(c.left, other), _getter_call(c.comparators[0], 'self')
            if a is None or b is None:
                a, b = _getter_call(c.left, 'self'), _getter_call(c.comparators[0], other)
            if a is not None and a == b:
                _getter_field(cls_info, classes, a)
                return 'class_obj', a
    raise Untranslatable('is_duplicate shape in %s: %s' % (cls_info['name'], ast.dump(e)[:120]))


def event_classes(levels):
    classes = {}   # name -> info
    order = []
    for key, modname in EVENT_MODULES:
        for st in _parse(key).body:
            if not isinstance(st, ast.ClassDef):
                continue
            if key == 'base' and st.name != 'Event':
                continue
            if st.name in classes:
                raise Untranslatable('duplicate class name ' + st.name)
            if st.name == 'Event':
                base = None
            else:
                if len(st.bases) != 1:
                    raise Untranslatable('class %s: exactly one base class expected' % st.name)
                base = _name_of_base(st.bases[0])
                if base not in classes:
                    raise Untranslatable('class %s: base %s is not an event class seen so far' % (st.name, base))
            info = {'name': st.name, 'module': modname, 'base': base, 'attrs': {}, 'methods': {}}
            for m in st.body:
                if isinstance(m, ast.Assign) and len(m.targets) == 1 and isinstance(m.targets[0], ast.Name):
                    info['attrs'][m.targets[0].id] = m.value
                elif isinstance(m, ast.AnnAssign) and isinstance(m.target, ast.Name) and m.value is not None:
                    info['attrs'][m.target.id] = m.value
                elif isinstance(m, (ast.FunctionDef, ast.AsyncFunctionDef)):
                    if m.name in info['methods']:
                        raise Untranslatable('%s.%s defined twice' % (st.name, m.name))
                    info['methods'][m.name] = m
                elif _is_docstring(m) or isinstance(m, ast.Pass):
                    pass
                else:
                    raise Untranslatable('class %s: statement %s' % (st.name, type(m).__name__))
            for dunder in ('__eq__', '__hash__', '__init_subclass__', '__getattr__', '__getattribute__', '__new__'):
                if dunder in info['methods']:
                    raise Untranslatable('class %s defines %s' % (st.name, dunder))
            classes[st.name] = info
            order.append(st.name)
    if 'Event' not in classes:
        raise Untranslatable('class Event not found')

    def lookup(name, what, kind):
        c = classes[name]
        while c is not None:
            if what in c[kind]:
                return c, c[kind][what]
            c = classes.get(c['base']) if c['base'] else None
        raise Untranslatable('%s: %s not found along the base chain' % (name, what))

    table = []
    for name in order:
        info = classes[name]
        if 'TYPE' not in info['attrs'] or name == 'Event':
            continue
        t = info['attrs']['TYPE']
        if not (isinstance(t, ast.Constant) and isinstance(t.value, str) and t.value):
            raise Untranslatable('%s.TYPE is not a string literal' % name)
        _, lv = lookup(name, 'REQUIRED_ACCESS', 'attrs')
        owner, fn = lookup(name, 'is_duplicate', 'methods')
        shape, getter = _dup_shape(fn, owner, classes)
        table.append({'class': name, 'module': info['module'], 'type': t.value, 'required': _level(lv, levels),
                      'dup': shape, 'getter': getter, 'base': info['base']})
    # abstract classes must not be instantiable look-alikes: they have no TYPE of their own; nothing to emit
    names = [r['class'] for r in table]
    if len(set(r['type'] for r in table)) != len(table):
        raise Untranslatable('TYPE strings are not unique')
    for r in table:
        # isinstance(event, self.__class__) also accepts subclasses: a deduplicating class must be a leaf
        if r['dup'] != 'never':
            for other in order:
                c = classes[other]
                while c is not None and c['base']:
                    if c['base'] == r['class']:
                        raise Untranslatable('%s has is_duplicate and a subclass %s' % (r['class'], other))
                    c = classes.get(c['base'])
    if not names:
        raise Untranslatable('no concrete event classes')
    return table


def queue_size():
    for st in _parse('settings').body:
        if isinstance(st, ast.ClassDef) and st.name == 'core':
            for m in st.body:
                if isinstance(m, ast.AnnAssign) and isinstance(m.target, ast.Name) and m.target.id == 'event_queue_size':
                    v = _int_const(m.value)
                    if v is None:
                        raise Untranslatable('event_queue_size default is not an int literal')
                    return v
                if (isinstance(m, ast.Assign) and len(m.targets) == 1 and isinstance(m.targets[0], ast.Name)
                        and m.targets[0].id == 'event_queue_size'):
                    v = _int_const(m.value)
                    if v is None:
                        raise Untranslatable('event_queue_size default is not an int literal')
                    return v
    raise Untranslatable('settings.core.event_queue_size not found')


# ---------------------------------------------------------------------------------------------------------------------
# core/sessions.py

def _is_debug(st):
    return (isinstance(st, ast.Expr) and isinstance(st.value, ast.Call) and isinstance(st.value.func, ast.Attribute)
            and st.value.func.attr == 'debug' and isinstance(st.value.func.value, ast.Name))


def _is_self_respond(st):
    return (isinstance(st, ast.Expr) and isinstance(st.value, ast.Call) and not st.value.args and not st.value.keywords
            and _self_attr(st.value.func) == 'respond')


def _if_respond(st, field):
    """if self.<field>: [self.debug(...)]* self.respond()"""
    if not (isinstance(st, ast.If) and not st.orelse and _self_attr(st.test) == field):
        return False
    body = [b for b in st.body if not _is_debug(b)]
    return len(body) == 1 and _is_self_respond(body[0])


def _assign_self(st, field):
    """self.<field> = <value>  ->  value node"""
    if isinstance(st, ast.Assign) and len(st.targets) == 1 and _self_attr(st.targets[0]) == field:
        return st.value
    if isinstance(st, ast.AnnAssign) and _self_attr(st.target) == field and st.value is not None:
        return st.value
    return None


def _is_name(e, name):
    return isinstance(e, ast.Name) and e.id == name


def _is_call_chain(e, chain):
    """asyncio.get_running_loop().create_future() == ['asyncio', 'get_running_loop()', 'create_future()']"""
    for part in reversed(chain[1:]):
        if not (isinstance(e, ast.Call) and not e.args and not e.keywords and isinstance(e.func, ast.Attribute)
                and e.func.attr == part):
            return False
        e = e.func.value
    return _is_name(e, chain[0])


def _is_queue_filter(st, level_arg):
    """self.queue = [e for e in self.queue if e.REQUIRED_ACCESS <= <level_arg>]   (or  <level_arg> >= e.REQUIRED_ACCESS)"""
    v = _assign_self(st, 'queue')
    if not (isinstance(v, ast.ListComp) and len(v.generators) == 1):
        return False
    g = v.generators[0]
    if g.is_async or not isinstance(g.target, ast.Name) or _self_attr(g.iter) != 'queue' or len(g.ifs) != 1:
        return False
    x = g.target.id
    if not _is_name(v.elt, x):
        return False
    c = g.ifs[0]
    if not (isinstance(c, ast.Compare) and len(c.ops) == 1):
        return False
    l, r = c.left, c.comparators[0]

    def req(e):
        return isinstance(e, ast.Attribute) and e.attr == 'REQUIRED_ACCESS' and _is_name(e.value, x)
    if isinstance(c.ops[0], ast.LtE) and req(l) and _is_name(r, level_arg):
        return True
    if isinstance(c.ops[0], ast.GtE) and _is_name(l, level_arg) and req(r):
        return True
    return False


RESET_SHAPES = """
    self.debug(...)                                                           (skipped: logging)
    if self.future: [self.debug(...)] self.respond()                          RIfFutureRespond
    future = asyncio.get_running_loop().create_future()                      RNewFuture
    self.accessed = time.time()                                               RSetAccessed
    self.timeout = timeout                                                    RSetTimeout
    self.access_level = access_level                                          RSetLevel
    self.future = future                                                      RSetFuture
    self.queue = [e for e in self.queue if e.REQUIRED_ACCESS <= access_level] RFilterQueue
    if self.queue: [self.debug(...)] self.respond()                           RIfQueueRespond
    return future                                                             (must be last, after RNewFuture)
"""


def reset_program(tree):
    cls = [n for n in tree.body if isinstance(n, ast.ClassDef) and n.name == 'Session']
    if len(cls) != 1:
        raise Untranslatable('class Session not found')
    fns = [n for n in cls[0].body if isinstance(n, (ast.FunctionDef, ast.AsyncFunctionDef)) and n.name == 'reset_and_wait']
    if len(fns) != 1 or isinstance(fns[0], ast.AsyncFunctionDef) or fns[0].decorator_list:
        raise Untranslatable('Session.reset_and_wait not found (plain method expected)')
    fn = fns[0]
    a = fn.args
    if ([x.arg for x in a.args] != ['self', 'timeout', 'access_level'] or a.vararg or a.kwarg or a.kwonlyargs
            or a.defaults):
        raise Untranslatable('reset_and_wait signature')
    prog = []
    body = _body(fn)
    if not body or not (isinstance(body[-1], ast.Return) and _is_name(body[-1].value, 'future')):
        raise Untranslatable('reset_and_wait does not end with `return future`')
    for st in body[:-1]:
        if _is_debug(st):
            continue
        if _if_respond(st, 'future'):
            prog.append('RIfFutureRespond')
        elif _if_respond(st, 'queue'):
            prog.append('RIfQueueRespond')
        elif (isinstance(st, ast.Assign) and len(st.targets) == 1 and _is_name(st.targets[0], 'future')
              and _is_call_chain(st.value, ['asyncio', 'get_running_loop', 'create_future'])):
            prog.append('RNewFuture')
        elif _assign_self(st, 'accessed') is not None and _is_call_chain(_assign_self(st, 'accessed'), ['time', 'time']):
            prog.append('RSetAccessed')
        elif _is_name(_assign_self(st, 'timeout'), 'timeout'):
            prog.append('RSetTimeout')
        elif _is_name(_assign_self(st, 'access_level'), 'access_level'):
            prog.append('RSetLevel')
        elif _is_name(_assign_self(st, 'future'), 'future'):
            if 'RNewFuture' not in prog:
                raise Untranslatable('self.future assigned before the future is created')
            prog.append('RSetFuture')
        elif _is_queue_filter(st, 'access_level'):
            prog.append('RFilterQueue')
        else:
            raise Untranslatable('reset_and_wait statement (line %d): %s' % (st.lineno, ast.dump(st)[:120]))
    if prog.count('RNewFuture') != 1:
        raise Untranslatable('reset_and_wait must create exactly one future')
    return prog


def handler_filter(tree):
    """SessionsEventHandler.handle_event:  for s in self._sessions_by_id.values(): if s.access_level < event.REQUIRED_ACCESS:
    continue ; s.push(event)     -> True"""
    cls = [n for n in tree.body if isinstance(n, ast.ClassDef) and n.name == 'SessionsEventHandler']
    if len(cls) != 1:
        raise Untranslatable('class SessionsEventHandler not found')
    fns = [n for n in cls[0].body if isinstance(n, ast.AsyncFunctionDef) and n.name == 'handle_event']
    if len(fns) != 1:
        raise Untranslatable('handle_event not found')
    fn = fns[0]
    ev = fn.args.args[1].arg
    body = _body(fn)
    if len(body) != 1 or not isinstance(body[0], ast.For) or body[0].orelse or not isinstance(body[0].target, ast.Name):
        raise Untranslatable('handle_event body')
    loop = body[0]
    s = loop.target.id
    if not (isinstance(loop.iter, ast.Call) and isinstance(loop.iter.func, ast.Attribute) and loop.iter.func.attr == 'values'
            and _self_attr(loop.iter.func.value) == '_sessions_by_id'):
        raise Untranslatable('handle_event iteration')
    lb = [b for b in loop.body if not _is_debug(b)]
    if len(lb) != 2:
        raise Untranslatable('handle_event loop body')
    g, p = lb
    ok_guard = (
        isinstance(g, ast.If) and not g.orelse and len(g.body) == 1 and isinstance(g.body[0], ast.Continue)
        and isinstance(g.test, ast.Compare) and len(g.test.ops) == 1 and isinstance(g.test.ops[0], ast.Lt)
        and isinstance(g.test.left, ast.Attribute) and g.test.left.attr == 'access_level' and _is_name(g.test.left.value, s)
        and isinstance(g.test.comparators[0], ast.Attribute) and g.test.comparators[0].attr == 'REQUIRED_ACCESS'
        and _is_name(g.test.comparators[0].value, ev)
    )
    ok_push = (
        isinstance(p, ast.Expr) and isinstance(p.value, ast.Call) and isinstance(p.value.func, ast.Attribute)
        and p.value.func.attr == 'push' and _is_name(p.value.func.value, s) and len(p.value.args) == 1
        and _is_name(p.value.args[0], ev) and not p.value.keywords
    )
    if not (ok_guard and ok_push):
        raise Untranslatable('handle_event level filter shape')
    return True


def _is_logger_call(st):
    return (isinstance(st, ast.Expr) and isinstance(st.value, ast.Call) and isinstance(st.value.func, ast.Attribute)
            and _is_name(st.value.func.value, 'logger'))


def _handle_event_call(e, h, ev):
    """<h>.handle_event(<ev>)"""
    return (isinstance(e, ast.Call) and isinstance(e.func, ast.Attribute) and e.func.attr == 'handle_event'
            and _is_name(e.func.value, h) and len(e.args) == 1 and _is_name(e.args[0], ev) and not e.keywords)


TRIGGER_SHAPE = """
    async def trigger(event):
        if not _enabled: return
        [logger.<level>(...)]
        await event.init_params()
        for handler in _registered_handlers:
            if handler.is_fire_and_forget():
                task = asyncio.create_task(handler.handle_event(event)) ; <expression statements without await>
            else:
                try: await handler.handle_event(event)
                except Exception [as e]: <logger calls only>          (each synchronous handler shielded on its own)
    class Handler: def is_fire_and_forget(self): return self.FIRE_AND_FORGET
"""


def trigger_shape():
    """core/events/handlers.py:trigger dispatches to every registered handler; a failing handler cannot keep the event from
    the handlers after it (the sessions handler is registered last at start-up).  Shape above, anything else fails closed."""
    tree = _parse('handlers')
    fns = [n for n in tree.body if isinstance(n, (ast.FunctionDef, ast.AsyncFunctionDef)) and n.name == 'trigger']
    if len(fns) != 1 or not isinstance(fns[0], ast.AsyncFunctionDef) or fns[0].decorator_list:
        raise Untranslatable('core.events.handlers.trigger not found (async def expected)')
    fn = fns[0]
    if len(fn.args.args) != 1 or fn.args.vararg or fn.args.kwarg or fn.args.kwonlyargs:
        raise Untranslatable('trigger signature')
    ev = fn.args.args[0].arg
    body = [st for st in _body(fn) if not _is_logger_call(st)]
    if len(body) != 3:
        raise Untranslatable('trigger: expected enabled-guard, init_params, handler loop; found %d statements' % len(body))
    guard, init, loop = body
    if not (isinstance(guard, ast.If) and not guard.orelse and isinstance(guard.test, ast.UnaryOp)
            and isinstance(guard.test.op, ast.Not) and _is_name(guard.test.operand, '_enabled')
            and len(guard.body) == 1 and isinstance(guard.body[0], ast.Return) and guard.body[0].value is None):
        raise Untranslatable('trigger: `if not _enabled: return` expected first')
    if not (isinstance(init, ast.Expr) and isinstance(init.value, ast.Await) and isinstance(init.value.value, ast.Call)
            and isinstance(init.value.value.func, ast.Attribute) and init.value.value.func.attr == 'init_params'
            and _is_name(init.value.value.func.value, ev) and not init.value.value.args):
        raise Untranslatable('trigger: `await event.init_params()` expected')
    if not (isinstance(loop, ast.For) and not loop.orelse and isinstance(loop.target, ast.Name)
            and _is_name(loop.iter, '_registered_handlers') and len(loop.body) == 1 and isinstance(loop.body[0], ast.If)):
        raise Untranslatable('trigger: `for handler in _registered_handlers: if ...: ... else: ...` expected')
    h = loop.target.id
    br = loop.body[0]
    t = br.test
    if not (isinstance(t, ast.Call) and isinstance(t.func, ast.Attribute) and t.func.attr == 'is_fire_and_forget'
            and _is_name(t.func.value, h) and not t.args and not t.keywords):
        raise Untranslatable('trigger: test `handler.is_fire_and_forget()` expected')
    # fire-and-forget branch: a task is created, nothing is awaited, nothing can leave the loop
    faf = br.body
    first = faf[0] if faf else None
    if not (isinstance(first, ast.Assign) and len(first.targets) == 1 and isinstance(first.targets[0], ast.Name)
            and isinstance(first.value, ast.Call) and isinstance(first.value.func, ast.Attribute)
            and first.value.func.attr == 'create_task' and _is_name(first.value.func.value, 'asyncio')
            and len(first.value.args) == 1 and _handle_event_call(first.value.args[0], h, ev)):
        raise Untranslatable('trigger: fire-and-forget branch must start with task = asyncio.create_task(handler.handle_event(event))')
    for st in faf[1:]:
        if not (isinstance(st, ast.Expr) and isinstance(st.value, ast.Call)):
            raise Untranslatable('trigger: fire-and-forget branch statement ' + type(st).__name__)
        for n in ast.walk(st):
            if isinstance(n, (ast.Await, ast.Yield, ast.YieldFrom)):
                raise Untranslatable('trigger: fire-and-forget branch awaits')
    # synchronous branch: exactly one try around exactly this handler's call
    sync = br.orelse
    if not (len(sync) == 1 and isinstance(sync[0], ast.Try) and not sync[0].orelse and not sync[0].finalbody
            and len(sync[0].body) == 1 and isinstance(sync[0].body[0], ast.Expr)
            and isinstance(sync[0].body[0].value, ast.Await) and _handle_event_call(sync[0].body[0].value.value, h, ev)
            and len(sync[0].handlers) == 1):
        raise Untranslatable('trigger: synchronous handlers are not shielded one by one (try around the single call expected)')
    eh = sync[0].handlers[0]
    if not (_is_name(eh.type, 'Exception') and eh.body and all(_is_logger_call(x) or isinstance(x, ast.Pass) for x in eh.body)):
        raise Untranslatable('trigger: `except Exception` with logging only expected')
    # Handler.is_fire_and_forget
    base = _parse('base')
    cls = [n for n in base.body if isinstance(n, ast.ClassDef) and n.name == 'Handler']
    if len(cls) != 1:
        raise Untranslatable('class Handler not found')
    m = [n for n in cls[0].body if isinstance(n, ast.FunctionDef) and n.name == 'is_fire_and_forget']
    if len(m) != 1:
        raise Untranslatable('Handler.is_fire_and_forget not found')
    b = _body(m[0])
    if not (len(b) == 1 and isinstance(b[0], ast.Return) and _self_attr(b[0].value) == 'FIRE_AND_FORGET'):
        raise Untranslatable('Handler.is_fire_and_forget is not `return self.FIRE_AND_FORGET`')
    # the sessions handler is synchronous
    sess = _parse('sessions')
    sc = [n for n in sess.body if isinstance(n, ast.ClassDef) and n.name == 'SessionsEventHandler']
    faf_attr = [st.value for st in (sc[0].body if sc else []) if isinstance(st, ast.Assign) and len(st.targets) == 1
                and _is_name(st.targets[0], 'FIRE_AND_FORGET')]
    if not (len(faf_attr) == 1 and isinstance(faf_attr[0], ast.Constant) and faf_attr[0].value is False):
        raise Untranslatable('SessionsEventHandler.FIRE_AND_FORGET = False expected')
    return True


def _flag_names(n):
    return n.startswith('disabl') or n.startswith('enabl')


def disable_pairing():
    """Event handling is switched off only by core.events.disable() and every call of it is undone by core.events.enable() in
    a `finally`:
      core/events/handlers.py   enable / disable = `global _enabled; [logger...]; _enabled = True / False`; nobody else writes
                                _enabled or calls them there (no context manager around them)
      core/events/__init__.py   exports exactly disable, enable from .handlers
      every other module        each `core_events.disable()` is an expression statement of a function body, followed - after
                                non-awaiting call statements only - by a `try` whose `finally` contains `core_events.enable()`;
                                no other use of core_events.disable / enable / disabled...
    -> list of (file, function) where the pairing was found; anything else fails closed."""
    import os
    tree = _parse('handlers')
    for st in tree.body:
        if isinstance(st, (ast.FunctionDef, ast.AsyncFunctionDef)):
            writes = [n for n in ast.walk(st) if (isinstance(n, ast.Global) and '_enabled' in n.names)
                      or (isinstance(n, ast.Name) and n.id == '_enabled' and isinstance(n.ctx, ast.Store))]
            calls = [n for n in ast.walk(st) if isinstance(n, ast.Call) and isinstance(n.func, ast.Name)
                     and _flag_names(n.func.id)]
            if st.name in ('enable', 'disable'):
                body = [b for b in _body(st) if not _is_logger_call(b)]
                want = st.name == 'enable'
                if not (isinstance(st, ast.FunctionDef) and not st.decorator_list and len(body) == 2
                        and isinstance(body[0], ast.Global) and body[0].names == ['_enabled']
                        and isinstance(body[1], ast.Assign) and len(body[1].targets) == 1
                        and _is_name(body[1].targets[0], '_enabled') and isinstance(body[1].value, ast.Constant)
                        and body[1].value.value is want) or calls:
                    raise Untranslatable('handlers.%s is not `global _enabled; _enabled = %s`' % (st.name, want))
            elif writes or calls or _flag_names(st.name):
                raise Untranslatable('handlers.%s touches the _enabled flag (or wraps disable/enable)' % st.name)
    with open(repo.path('qtoggleserver/core/events/__init__.py')) as f:
        init = ast.parse(f.read())
    exported = sorted(a.asname or a.name for st in init.body if isinstance(st, ast.ImportFrom)
                      for a in st.names if _flag_names(a.asname or a.name))
    if exported != ['disable', 'enable']:
        raise Untranslatable('core.events exports %r, expected disable and enable only' % exported)
    found = []
    root = repo.path('qtoggleserver')
    for d, _dirs, files in os.walk(root):
        for fn in files:
            path = os.path.join(d, fn)
            rel = os.path.relpath(path, repo.REPO)
            if not fn.endswith('.py') or rel in ('qtoggleserver/core/events/__init__.py', 'qtoggleserver/core/events/handlers.py'):
                continue
            with open(path) as f:
                text = f.read()
            if 'disabl' not in text and 'enabl' not in text:
                continue
            if 'events' not in text:
                continue
            mod = ast.parse(text)
            # names under which the events package / its functions are visible here
            aliases, direct = set(), set()
            for n in ast.walk(mod):
                if isinstance(n, ast.ImportFrom) and n.module and (n.module.endswith('core') or n.module == 'qtoggleserver.core'):
                    for a in n.names:
                        if a.name == 'events':
                            aliases.add(a.asname or a.name)
                if isinstance(n, ast.ImportFrom) and n.module and n.module.endswith('events') and 'slaves' not in n.module \
                        and 'frontend' not in n.module:
                    for a in n.names:
                        if _flag_names(a.name):
                            direct.add(a.asname or a.name)
                if isinstance(n, ast.ImportFrom) and n.module and n.module.endswith('events.handlers'):
                    raise Untranslatable('%s imports from core.events.handlers directly' % rel)
            if direct:
                raise Untranslatable('%s imports %s from core.events by name' % (rel, sorted(direct)))
            if not aliases:
                continue

            def is_flag_call(st, which):
                return (isinstance(st, ast.Expr) and isinstance(st.value, ast.Call) and not st.value.args
                        and not st.value.keywords and isinstance(st.value.func, ast.Attribute)
                        and st.value.func.attr == which and isinstance(st.value.func.value, ast.Name)
                        and st.value.func.value.id in aliases)
            refs = [n for n in ast.walk(mod) if isinstance(n, ast.Attribute) and _flag_names(n.attr)
                    and isinstance(n.value, ast.Name) and n.value.id in aliases]
            paired = 0
            for fdef in ast.walk(mod):
                if not isinstance(fdef, (ast.FunctionDef, ast.AsyncFunctionDef)):
                    continue
                body = fdef.body
                for k, st in enumerate(body):
                    if not is_flag_call(st, 'disable'):
                        continue
                    ok = False
                    for later in body[k + 1:]:
                        if isinstance(later, ast.Try):
                            ok = any(is_flag_call(x, 'enable') for x in later.finalbody)
                            break
                        if not (isinstance(later, ast.Expr) and isinstance(later.value, ast.Call)
                                and not any(isinstance(x, (ast.Await, ast.Yield, ast.YieldFrom)) for x in ast.walk(later))):
                            break
                    if not ok:
                        raise Untranslatable('%s:%d %s(): core_events.disable() is not followed by try/finally with '
                                             'core_events.enable()' % (rel, st.lineno, fdef.name))
                    paired += 1
                    found.append('%s:%s' % (rel, fdef.name))
            if len(refs) != 2 * paired:
                raise Untranslatable('%s: %d uses of core_events.disable/enable..., %d of them in disable/try/finally-enable pairs'
                                     % (rel, len(refs), 2 * paired))
    need = {'qtoggleserver/core/api/funcs/ports.py:put_ports', 'qtoggleserver/slaves/api/funcs/devices.py:put_slave_devices'}
    if not need <= set(found):
        raise Untranslatable('restore functions no longer switch event handling off with disable()/finally enable(): found %r'
                             % sorted(found))
    return sorted(found)


def expiry_factor(tree):
    for st in tree.body:
        if (isinstance(st, ast.Assign) and len(st.targets) == 1 and _is_name(st.targets[0], 'SESSION_EXPIRY_FACTOR')):
            v = _int_const(st.value)
            if v is None:
                raise Untranslatable('SESSION_EXPIRY_FACTOR is not an int literal')
            return v
    raise Untranslatable('SESSION_EXPIRY_FACTOR not found')


def read_all():
    levels = access_levels()
    table = event_classes(levels)
    qsize = queue_size()
    tree = _parse('sessions')
    return {
        'levels': levels,
        'table': table,
        'queue_size': qsize,
        'expiry_factor': expiry_factor(tree),
        'reset_prog': reset_program(tree),
        'handler_filter': handler_filter(tree),
        'trigger_shields_each_handler': trigger_shape(),
        'disable_paired': disable_pairing(),
    }


def coq_text(info):
    rows = ';\n  '.join(
        'mk_evclass %s %s %s' % (coq.string(r['type']), coq.z(r['required']), SHAPES[r['dup']]) for r in info['table']
    )
    return (
        '(* generated by harness/translate/eventtable.py from %s — do not edit *)\n' % repo.REPO
        + 'From QT Require Import C11.Types.\nOpen Scope Z_scope.\n'
        + '(* classes: %s *)\n' % ', '.join('%s.%s' % (r['module'], r['class']) for r in info['table'])
        + 'Definition event_table : list evclass := [\n  %s].\n' % rows
        + 'Definition default_event_queue_size : Z := %s.\n' % coq.z(info['queue_size'])
        + 'Definition session_expiry_factor : Z := %s.\n' % coq.z(info['expiry_factor'])
        + 'Definition reset_prog : list rstmt := [%s].\n' % '; '.join(info['reset_prog'])
        + '(* core/events/handlers.py:trigger shields every synchronous handler on its own, fire-and-forget handlers run as tasks;\n'
        + '   SessionsEventHandler.FIRE_AND_FORGET = False: the Trigger step reaches the sessions handler whatever the others do *)\n'
        + 'Definition trigger_shields_each_handler : bool := %s.\n' % coq.boolean(info['trigger_shields_each_handler'])
        + '(* every core_events.disable() is undone by core_events.enable() in a finally: %s;\n' % ', '.join(info['disable_paired'])
        + '   for the sessions a restore request is Disable ; Enable [; Trigger full-update] *)\n'
        + 'Definition disable_undone_in_finally : bool := true.\n'
    )


def translate(ctx=None):
    info = read_all()
    coq.write_gen('C11Gen.v', coq_text(info))
    if ctx is not None:
        ctx.c11_table = info
    return {
        'status': 'ok',
        'detail': {
            'classes': [[r['class'], r['type'], r['required'], r['dup']] for r in info['table']],
            'event_queue_size': info['queue_size'], 'expiry_factor': info['expiry_factor'],
            'reset_and_wait': info['reset_prog'], 'trigger_shields_each_handler': info['trigger_shields_each_handler'],
            'disable_undone_in_finally': info['disable_paired'],
        },
    }
