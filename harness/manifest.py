"""regenerates /verif/MANIFEST.json from the property modules (python -m harness.manifest)"""
import importlib
import json
import os

from harness.common import coq

VERIF = coq.VERIF
# properties whose check is complete and registered (in-progress modules are not claimed)
CLAIMED = ['C%02d' % i for i in range(1, 21)]
PENDING = 'machinery for this property is not completed yet in this development; no check is claimed'


def main():
    ids = [json.loads(l)['id'] for l in open(os.path.join(VERIF, 'properties.jsonl')) if l.strip()]
    checks, na = [], []
    for pid in ids:
        if pid not in CLAIMED:
            na.append({'property_id': pid, 'reason': PENDING})
            continue
        # run with /venv/bin/python: a module that fails to import (tornado missing in another interpreter) must stop the
        # regeneration rather than silently drop the property
        mod = importlib.import_module('harness.props.' + pid.lower())
        if getattr(mod, 'NOT_CLAIMED', None):
            na.append({'property_id': pid, 'reason': mod.NOT_CLAIMED})
            continue
        checks.append({
            'property_id': pid,
            'quick_cmd': 'bin/check %s --tier quick' % pid,
            'thorough_cmd': 'bin/check %s --tier thorough' % pid,
            'evidence_file': '/verif/evidence/%s.json' % pid,
            'replay_cmd_template': 'bin/check %s --replay {path}' % pid,
            'engine': 'coq-proof+tie',
            'level_claimed': {
                'category': 'proof',
                'text': mod.LEVEL_TEXT,
                'design_ref': 'DESIGN.md section 4, ' + pid,
            },
            'level_note': mod.LEVEL_NOTE,
            'technique': mod.TECHNIQUE,
        })
    manifest = {
        'version': 1,
        'setup_cmd': 'bin/setup',
        'hooks': {
            'guard': 'QTOGGLESERVER_VERIF',
            'enable': 'no source hooks are needed: the harness instruments /repo from outside (wrappers, harness port drivers, '
                      'virtual clock); bin/check exports QTOGGLESERVER_VERIF=1 for completeness',
            'baseline_off_cmd': 'cd /repo && /venv/bin/python -m pytest -ra -q -p no:cacheprovider --timeout=900 '
                                '--continue-on-collection-errors',
            'source_commits': [],
            'add_only': True,
        },
        'engines': [{
            'name': 'coq-proof+tie',
            'path': '/verif/bin/check',
            'serves_properties': [c['property_id'] for c in checks],
            'kind_free_text': 'Coq 8.16.1 theorems over a Gallina model (coq/theories), model tied to /repo on every run by '
                              'fail-closed ast translators (theories/Gen regenerated) and by correspondence runs '
                              '(model evaluated with vm_compute on the inputs the real code ran)',
        }],
        'checks': checks,
        'not_applicable': na,
        'notes': 'See DESIGN.md. Fixes of genuine defects are "fix:" commits in /repo, recorded in known_findings.json.',
    }
    with open(os.path.join(VERIF, 'MANIFEST.json'), 'w') as f:
        json.dump(manifest, f, indent=1)
        f.write('\n')
    print('checks:', [c['property_id'] for c in checks], 'not claimed:', len(na))


if __name__ == '__main__':
    main()
