"""Coq build + evaluation helpers.

* build(targets): full .vo build of the given targets through coq_makefile/make, serialised by a file lock.
* cone(vfile): the .v files the given file depends on (transitively), from coqdep.
* count_obligations(files): number of Lemma/Theorem/... statements closed by Qed/Defined.
* forbidden(files): occurrences of Admitted/admit/Axiom/... in the given files.
* eval_cases(...): run generated `cases_*.v` files under coqc (vm_compute) in parallel and parse the results.
* literal helpers: z(), zlist(), string(), ...
"""
import fcntl
import os
import re
import subprocess
import time
from concurrent.futures import ThreadPoolExecutor

VERIF = os.path.dirname(os.path.dirname(os.path.dirname(os.path.abspath(__file__))))
MAIN_COQ = os.path.join(VERIF, 'coq')
# A tree under test other than /repo (VERIF_REPO: scratch worktrees for trying fixes and seeded changes) gets its own copy of the
# Coq development and its own evidence directory, so that such runs neither disturb nor are disturbed by checks of /repo.
_under_test = os.path.realpath(os.environ.get('VERIF_REPO') or '/repo')
ALT = None if _under_test == os.path.realpath('/repo') else os.path.join(
    VERIF, '.work', 'alt-' + re.sub(r'[^A-Za-z0-9_.-]', '_', _under_test.strip('/')))
COQ = MAIN_COQ if ALT is None else os.path.join(ALT, 'coq')
EVIDENCE = os.path.join(VERIF, 'evidence') if ALT is None else os.path.join(ALT, 'evidence')
THEORIES = os.path.join(COQ, 'theories')
LOCK = os.path.join(COQ, '.buildlock')
LIB = 'QT'

FORBIDDEN_RE = re.compile(
    r'\b(Admitted|admit|Axiom|Axioms|Parameter|Parameters|Conjecture|Conjectures|Admit\s+Obligations|give_up)\b'
    r'|Unset\s+Guard|bypass_check|Unset\s+Positivity|Unset\s+Universe|type-in-type|impredicative-set'
)
STMT_RE = re.compile(
    r'^\s*(?:(?:Local|Global|#\[[^\]]*\])\s+)*'
    r'(Lemma|Theorem|Corollary|Fact|Remark|Proposition|Example|Instance|Definition|Fixpoint|Function|Program\s+\w+)\b',
    re.M,
)
CLOSE_RE = re.compile(r'\b(Qed|Defined)\s*\.')


def all_vfiles():
    out = []
    for root, _dirs, files in os.walk(THEORIES):
        for f in files:
            if f.endswith('.v') and not f.startswith('.'):
                out.append(os.path.relpath(os.path.join(root, f), COQ))
    return sorted(out)


def _write_if_changed(path, content):
    try:
        with open(path) as f:
            if f.read() == content:
                return False
    except FileNotFoundError:
        pass
    tmp = path + '.tmp%d' % os.getpid()
    with open(tmp, 'w') as f:
        f.write(content)
    os.replace(tmp, path)
    return True


def write_gen(relname, content):
    """Write a generated .v file under theories/Gen (only if the content changed, so that make rebuilds dependants
    exactly when the source changed)."""
    path = os.path.join(THEORIES, 'Gen', relname)
    os.makedirs(os.path.dirname(path), exist_ok=True)
    # the file must depend on the source text only, not on where the tree under test lives (scratch worktrees)
    from harness.common import repo as _repo
    content = content.replace(_repo.REPO.rstrip('/') + '/', '<repo>/').replace(_repo.REPO, '<repo>')
    return _write_if_changed(path, content)


def _ensure_alt():
    """first use of an alternative tree: copy the main development (sources and compiled files) under the main lock"""
    if ALT is None or os.path.isdir(os.path.join(COQ, 'theories')):
        return
    import shutil
    os.makedirs(ALT, exist_ok=True)
    with open(os.path.join(MAIN_COQ, '.buildlock'), 'w') as f:
        fcntl.flock(f, fcntl.LOCK_EX)
        try:
            if not os.path.isdir(os.path.join(COQ, 'theories')):
                tmp = COQ + '.tmp%d' % os.getpid()
                shutil.copytree(MAIN_COQ, tmp, symlinks=True, ignore=shutil.ignore_patterns('.buildlock', '*.tmp*', '.lia.cache'))
                os.rename(tmp, COQ)
        finally:
            fcntl.flock(f, fcntl.LOCK_UN)


_ensure_alt()


class Lock:
    def __enter__(self):
        os.makedirs(COQ, exist_ok=True)
        self.f = open(LOCK, 'w')
        fcntl.flock(self.f, fcntl.LOCK_EX)
        return self

    def __exit__(self, *a):
        fcntl.flock(self.f, fcntl.LOCK_UN)
        self.f.close()


def _regen_project():
    files = all_vfiles()
    content = '-R theories %s\n-arg -w -arg -all\n' % LIB + '\n'.join(files) + '\n'
    changed = _write_if_changed(os.path.join(COQ, '_CoqProject'), content)
    if changed or not os.path.exists(os.path.join(COQ, 'Makefile')):
        subprocess.run(
            ['coq_makefile', '-f', '_CoqProject', '-o', 'Makefile'], cwd=COQ, check=True, capture_output=True
        )


def build(targets=None, jobs=5, timeout=1500):
    """Build targets (paths relative to coq/, e.g. 'theories/Props/C17.vo'); None = everything.
    Returns (ok, log, wall_s, cmd)."""
    t0 = time.time()
    with Lock():
        _regen_project()
        cmd = ['timeout', str(timeout), 'make', '-j%d' % jobs, '-f', 'Makefile']
        if targets:
            cmd += list(targets)
        p = subprocess.run(cmd, cwd=COQ, capture_output=True, text=True)
    log = p.stdout + p.stderr
    return p.returncode == 0, log, time.time() - t0, ' '.join(cmd)


_dep_cache = {}


def _deps_of(vrel):
    """direct dependencies (as .v paths relative to coq/) of a .v file, via coqdep."""
    if vrel in _dep_cache:
        return _dep_cache[vrel]
    p = subprocess.run(
        ['coqdep', '-R', 'theories', LIB, vrel], cwd=COQ, capture_output=True, text=True
    )
    deps = []
    for line in p.stdout.splitlines():
        if ':' not in line:
            continue
        lhs, rhs = line.split(':', 1)
        if vrel[:-2] + '.vo' not in lhs.split():
            continue
        for tok in rhs.split():
            if tok.endswith('.vo') and tok.startswith('theories/'):
                d = tok[:-3] + '.v'
                if d != vrel:
                    deps.append(d)
    _dep_cache[vrel] = deps
    return deps


def cone(vrel):
    seen, todo = [], [vrel]
    while todo:
        v = todo.pop()
        if v in seen:
            continue
        seen.append(v)
        todo.extend(_deps_of(v))
    return sorted(seen)


def _strip_comments(src):
    out, depth, i = [], 0, 0
    n = len(src)
    while i < n:
        if src.startswith('(*', i):
            depth += 1
            i += 2
        elif src.startswith('*)', i) and depth:
            depth -= 1
            i += 2
        else:
            if not depth:
                out.append(src[i])
            i += 1
    return ''.join(out)


def count_obligations(vfiles):
    """number of proof scripts (statements closed by Qed/Defined) in the given files."""
    n = 0
    per = {}
    for v in vfiles:
        with open(os.path.join(COQ, v)) as f:
            src = _strip_comments(f.read())
        k = len(CLOSE_RE.findall(src))
        per[v] = k
        n += k
    return n, per


def forbidden(vfiles):
    hits = []
    for v in vfiles:
        with open(os.path.join(COQ, v)) as f:
            src = _strip_comments(f.read())
        for m in FORBIDDEN_RE.finditer(src):
            line = src.count('\n', 0, m.start()) + 1
            hits.append('%s:%d:%s' % (v, line, m.group(0)))
        # Variable / Hypothesis outside a section
        depth = 0
        for ln, line in enumerate(src.splitlines(), 1):
            s = line.strip()
            if re.match(r'Section\s+\w+\s*\.', s):
                depth += 1
            elif re.match(r'End\s+\w+\s*\.', s) and depth:
                depth -= 1
            elif depth == 0 and re.match(r'(Variable|Variables|Hypothesis|Hypotheses|Context)\b', s):
                hits.append('%s:%d:%s outside section' % (v, ln, s.split()[0]))
    return hits


def compiled(vfiles):
    """which of the files have an up-to-date .vo (newer than the .v)"""
    ok = []
    for v in vfiles:
        vo = os.path.join(COQ, v[:-2] + '.vo')
        src = os.path.join(COQ, v)
        if os.path.exists(vo) and os.path.getmtime(vo) >= os.path.getmtime(src):
            ok.append(v)
    return ok


def print_assumptions(props_vrel):
    """re-run coqc on the Props file (which only contains Theorem/exact/Print Assumptions) and return its output"""
    with Lock():
        p = subprocess.run(
            ['timeout', '300', 'coqc', '-R', 'theories', LIB, '-w', '-all', props_vrel],
            cwd=COQ, capture_output=True, text=True,
        )
    return p.returncode == 0, p.stdout + p.stderr


def coqchk(props_vrel, timeout=1500, workdir=None):
    """independent re-check of the compiled Props file and everything it depends on; -> (ok, axioms reported, tail of output).
    The compiled files of the cone are copied (under the build lock) and checked from the copy, so that a long coqchk run
    neither blocks nor is disturbed by other checks rebuilding the tree."""
    import shutil
    import tempfile
    lib = LIB + '.' + props_vrel[len('theories/'):-2].replace('/', '.')
    os.makedirs(os.path.join(VERIF, '.work'), exist_ok=True)
    base = tempfile.mkdtemp(prefix='coqchk-', dir=workdir or os.path.join(VERIF, '.work'))
    try:
        with Lock():
            for v in cone(props_vrel):
                src = os.path.join(COQ, v[:-2] + '.vo')
                dst = os.path.join(base, v[:-2] + '.vo')
                os.makedirs(os.path.dirname(dst), exist_ok=True)
                shutil.copy2(src, dst)
        p = subprocess.run(
            ['timeout', str(timeout), 'coqchk', '-silent', '-o', '-R', 'theories', LIB, lib],
            cwd=base, capture_output=True, text=True,
        )
    finally:
        shutil.rmtree(base, ignore_errors=True)
    out = p.stdout + p.stderr
    axioms = []
    m = re.search(r'\* Axioms:(.*?)(?:\n\* |\Z)', out, flags=re.S)
    if m:
        axioms = [x.strip() for x in m.group(1).strip().splitlines() if x.strip() and x.strip() != '<none>']
    if p.returncode == 124:
        return None, axioms, 'coqchk did not finish within %d s' % timeout
    return p.returncode == 0, axioms, out[-1500:]


def parse_assumptions(text):
    """-> list of 'theorem: Closed under the global context' / axiom names"""
    out = []
    blocks = re.split(r'(?=^(?:Closed under the global context|Axioms:))', text, flags=re.M)
    for b in blocks:
        b = b.strip()
        if b.startswith('Closed under'):
            out.append('closed')
        elif b.startswith('Axioms:'):
            names = re.findall(r'^([A-Za-z_][\w\.\']*)\s*:', b[len('Axioms:'):], flags=re.M)
            out.append('axioms: ' + ', '.join(names))
    return out


# --------------------------------------------------------------------------------------------------------------
# literals

def z(n):
    n = int(n)
    return '(%d)' % n if n < 0 else '%d' % n


def zlist(xs):
    return '[' + '; '.join(z(x) for x in xs) + ']'


def boolean(b):
    return 'true' if b else 'false'


def option(x, f=str):
    return 'None' if x is None else '(Some %s)' % f(x)


def lst(xs, f=str):
    return '[' + '; '.join(f(x) for x in xs) + ']'


def pair(*xs):
    return '(' + ', '.join(xs) + ')'


def string(s):
    """Coq string literal for printable ASCII without newlines; otherwise built from byte codes."""
    b = s.encode('utf-8') if isinstance(s, str) else bytes(s)
    if all(32 <= c < 127 for c in b):
        return '"' + b.decode('ascii').replace('"', '""') + '"'
    return '(bytes_to_string %s)' % zlist(list(b))


# --------------------------------------------------------------------------------------------------------------
# evaluating cases

RESULT_RE = re.compile(r'=\s*(.*?)\s*:\s*\S', re.S)


def run_coqc_file(path, timeout=600):
    p = subprocess.run(
        ['timeout', str(timeout), 'coqc', '-R', THEORIES, LIB, '-w', '-all', path],
        capture_output=True, text=True, cwd=os.path.dirname(path),
    )
    return p.returncode, p.stdout, p.stderr


def parse_nat_lists(stdout):
    """parse every `= [a; b; c] : list ...` (or `= [] : ...`) printed by Eval/Compute into python lists of ints"""
    res = []
    for m in re.finditer(r'=\s*(\[[^\]]*\])\s*:\s*list', stdout.replace('\n', ' ')):
        body = m.group(1).strip()[1:-1].strip()
        if not body:
            res.append([])
        else:
            res.append([int(re.sub(r'%\w+', '', x).strip(' ()')) for x in body.split(';')])
    return res


def eval_shards(workdir, name, header, shards, evals, jobs=4, timeout=900):
    """Each shard is Coq text defining whatever `evals` refer to (typically `Definition cases := [...]`).
    For each shard a file <name>_<i>.v = header + shard + one `Eval vm_compute in e.` per element of evals is compiled.
    Returns list (per shard) of (returncode, [parsed nat lists], stderr)."""
    paths = []
    for i, body in enumerate(shards):
        path = os.path.join(workdir, '%s_%d.v' % (name, i))
        with open(path, 'w') as f:
            f.write(header + '\n' + body + '\n')
            for e in evals:
                f.write('Eval vm_compute in (%s).\n' % e)
        paths.append(path)

    def one(path):
        rc, out, err = run_coqc_file(path, timeout)
        return rc, parse_nat_lists(out), (err + out)[-2000:] if rc else ''

    with ThreadPoolExecutor(max_workers=jobs) as ex:
        return list(ex.map(one, paths))
