"""known_findings.json: committed, never written at run time.

entries: {"property": "Cnn", "status": "known"|"fixed", "match": {...}, "what": "...", "commit": "..."}
A violation (dict with a 'key' dict) matches a *known* entry when every item of entry['match'] equals the same item of
the violation's key.  'fixed' entries suppress nothing.
"""
import json
import os

PATH = os.path.join(os.path.dirname(os.path.dirname(os.path.dirname(os.path.abspath(__file__)))), 'known_findings.json')


def load(pid):
    try:
        with open(PATH) as f:
            entries = list(json.load(f).get('findings', []))
    except FileNotFoundError:
        entries = []
    return [e for e in entries if e.get('property') == pid and e.get('status') == 'known']


def match(known, violation):
    key = violation.get('key') or {}
    for e in known:
        m = e.get('match') or {}
        if m and all(key.get(k) == v for k, v in m.items()):
            return e
    return None
