"""Python numbers <-> Coq literals of Base/PyNum.v (pyval over spec_float); shared by C02, C05, C16."""
import math

from harness.common import coq


def sf(x):
    """Coq spec_float literal (canonical mantissa/exponent) of a Python float"""
    if x != x:
        return 'S754_nan'
    s = 'true' if math.copysign(1.0, x) < 0 else 'false'
    if x == 0:
        return '(S754_zero %s)' % s
    if math.isinf(x):
        return '(S754_infinity %s)' % s
    m, e = math.frexp(abs(x))
    mi = int(m * (1 << 53))
    e -= 53
    if e < -1074:
        sh = -1074 - e
        assert mi % (1 << sh) == 0
        mi >>= sh
        e = -1074
    return '(S754_finite %s %d %s)' % (s, mi, coq.z(e))


def pyval(v):
    if isinstance(v, bool):
        return '(VBool %s)' % coq.boolean(v)
    if isinstance(v, int):
        return '(VInt %s)' % coq.z(v)
    if isinstance(v, float):
        return '(VFloat %s)' % sf(v)
    raise TypeError(repr(v))


def opt_pyval(v):
    return 'None' if v is None else '(Some %s)' % pyval(v)


def describe(v):
    """JSON-able exact description"""
    if isinstance(v, bool):
        return {'bool': v}
    if isinstance(v, int):
        return {'int': str(v)}
    if isinstance(v, float):
        return {'float': v.hex()}
    return {'other': repr(v)}
