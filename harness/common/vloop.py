"""Deterministic asyncio loop with a virtual clock (DESIGN 2.2).

`VLoop` is a SelectorEventLoop whose `time()` is a virtual clock and whose selector never blocks: a `select(timeout)` call
advances the clock by `timeout` instead of sleeping.  `install()` also replaces `time.time` (and `time.monotonic`) by
`EPOCH + clock`, so code that reads the wall clock sees the same virtual time.  The loop clock starts at 0 (starting it at
1.7e9 makes `when - now` fall below one ulp and the loop spin); the epoch is only an offset applied in `time.time`.

Usage (inside a dedicated process — `time.time` is patched globally):

    from harness.common import vloop
    result = vloop.run(main())            # like asyncio.run, on virtual time
    vloop.now_ms()                        # virtual wall clock in ms

`Stalled` is raised when the loop would block forever (nothing scheduled, nothing ready): a deadlock in the code under test.
"""
import asyncio
import selectors
import time as _time

EPOCH = 1_700_000_000.0          # virtual wall clock at loop time 0 (a "real" date for has_real_date_time())

_real_time = _time.time
_real_monotonic = _time.monotonic


class Stalled(RuntimeError):
    pass


class _VSelector(selectors.DefaultSelector):
    def __init__(self):
        super().__init__()
        self.clock = 0.0
        self.idle_limit = None

    def select(self, timeout=None):
        if timeout is None:
            # nothing scheduled: only real I/O could wake the loop up; there is none in the harness
            ready = super().select(0)
            if ready:
                return ready
            raise Stalled('event loop would block forever at virtual time %.3f' % self.clock)
        if timeout > 0:
            self.clock += timeout
        return super().select(0)


class VLoop(asyncio.SelectorEventLoop):
    def __init__(self):
        self._vsel = _VSelector()
        super().__init__(selector=self._vsel)

    def time(self):
        return self._vsel.clock

    def advance(self, dt):
        self._vsel.clock += dt


_current = None


def install(loop):
    global _current
    _current = loop
    _time.time = lambda: EPOCH + loop.time()
    _time.monotonic = lambda: loop.time()


def uninstall():
    global _current
    _current = None
    _time.time = _real_time
    _time.monotonic = _real_monotonic


def now_ms():
    return int(round((EPOCH + _current.time()) * 1000))


def vtime_ms():
    """virtual milliseconds since the loop started"""
    return int(round(_current.time() * 1000))


def run(coro):
    loop = VLoop()
    install(loop)
    asyncio.set_event_loop(loop)
    try:
        return loop.run_until_complete(coro)
    finally:
        try:
            tasks = [t for t in asyncio.all_tasks(loop) if not t.done()]
            for t in tasks:
                t.cancel()
            if tasks:
                loop.run_until_complete(asyncio.gather(*tasks, return_exceptions=True))
        except Exception:
            pass
        uninstall()
        asyncio.set_event_loop(None)
        loop.close()
