"""where the implementation under test lives: /repo, unless VERIF_REPO points at a scratch worktree (used only while
developing/validating fixes and seeded changes; registered checks always run against /repo itself)."""
import os

REPO = os.environ.get('VERIF_REPO', '/repo')


def path(*parts):
    return os.path.join(REPO, *parts)
