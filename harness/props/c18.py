"""C18 — history queries return exactly the requested samples, in the requested order.

Theorems: coq/theories/Props/C18.v (for every store, every request sequence, all arguments).
Tie: (C) random stores and request sequences through the REAL functions (core/api/funcs/ports.py get_port_history /
delete_port_history -> core/history.py -> persist -> in-memory JSON driver with samples enabled; value changes through
HistoryEventHandler; the clock is a fake `time` object installed in the three modules that read it), compared step by
step with the Coq model (Model.step: response, driver records, contents of _samples_cache) and with the Coq
specification (Spec.spec_step) by vm_compute.  The same kind of sequences also run on fakeredis / mongomock (40 each in the
quick tier, 2000 each in the thorough tier) against the tie-tolerant specification oracle.
"""
import asyncio
import contextvars
import glob
import json
import logging
import math
import os
import time as _time
from unittest import mock

from harness.common import coq

ID = 'C18'
PROPS = 'theories/Props/C18.v'
MODEL_TARGETS = ['theories/C18/Lit.vo']
TRANSLATORS = []
TIE = 'correspondence by vm_compute on generated request sequences (responses, driver records and cache contents per step)'
ALLOWED_AXIOMS = []
TRUSTED_BASE = [
    'correspondence harness harness/props/c18.py: fake clock object installed as `time` in core/history.py, '
    'core/api/funcs/ports.py and system/date.py; ports are harness subclasses of core.ports.Port; requests are tornado '
    'APIHandler objects over a mock request as in the repo tests',
    'in-memory subclass of drivers/persist/json.py:JSONDriver with is_samples_supported() = True (the repo test mock); '
    'fakeredis and mongomock as stand-ins for the servers (tie-tolerant oracle only; 40 sequences each in quick, 2000 in thorough)',
    'modelled, not verified: Python dict ordering, list.sort stability, int() on decimal strings, float()/int()/bool() '
    'conversions on dyadic values',
]
ASSUMPTIONS = [
    'overlapping requests: a request is cut at its driver call into three atomic segments (start / driver call / finish); the '
    'harness driver suspends before and after the real call and the scheduler runs one segment at a time, so every '
    'interleaving of segments is reachable and logged (including a DELETE suspended between its cache invalidation and the '
    'removal); the theorem C18_overlap_cache_invariant holds for schedules in which the clock does not advance while a '
    'request is suspended and request identifiers are not reused while in flight (sched_okb, evaluated on every schedule run)',
    'the clock never goes backwards (AdvanceClock takes a natural number); with a backward jump of more than the cache '
    'age a cached by-timestamp answer can become stale',
    'samples are only ever written at the current time (save_sample is only called with now_ms) and a port\'s type and '
    '`integer` attribute do not change while entries are cached',
    'sample values are dyadic (multiples of 1/4, |v| <= 10^4); NaN/inf/other floats are outside the tie',
    'query-string numbers are plain decimal integers; strings such as " 12", "+3", "1_000" (accepted by int()) are not sent',
    'settings.core.history_support is held at True (switching the feature off is outside the property); the log level of the '
    'qtoggleserver loggers, settings.debug and settings.core.history_janitor_interval vary per sequence',
    'a port whose type / `integer` attribute changes IN PLACE while by-timestamp answers are cached keeps the cached values '
    'typed the old way (not generated: ports change kind only by removal with their history and re-adding under the same id)',
    'the periodic sampling task and the retention janitor are not modelled (the janitor deletes through the same '
    'remove_samples as DELETE); background removal (port removal) is not modelled',
    'among samples with equal timestamps the in-memory JSON driver answers in insertion order (strict oracle); other '
    'drivers are only required to answer with some sample of the newest timestamp / some order within a timestamp',
]

COLL = 'value_history'
PORTS = {1: ('c18num', 'KNum'), 2: ('c18int', 'KInt'), 3: ('c18bool', 'KBool'), 4: ('c18num2', 'KNum')}
ORPHAN = 7            # samples of an object that is not a port (e.g. a removed port)
NO_PORT = 99          # no samples, no port
OID_NAMES = {**{k: v[0] for k, v in PORTS.items()}, ORPHAN: 'c18orphan', NO_PORT: 'c18nope'}
OID_NUMS = {v: k for k, v in OID_NAMES.items()}
FIELDS = {'from': 1, 'to': 2, 'limit': 3, 'timestamps': 4}
BAD_STRINGS = ['abc', '1.5', '0x10', '12a']
NOW0 = 1_700_000_000_000


# ----------------------------------------------------------------------------------------------------------------
# implementation side

class Clock:
    """stands in for the `time` module in the modules under test; .time() returns a float f with int(f*1000) == now_ms"""
    now_ms = NOW0

    @classmethod
    def time(cls):
        f = cls.now_ms / 1000
        while int(f * 1000) < cls.now_ms:
            f = math.nextafter(f, math.inf)
        while int(f * 1000) > cls.now_ms:
            f = math.nextafter(f, -math.inf)
        return f

    @staticmethod
    def sleep(_s):
        raise RuntimeError('sleep called')


class Impl:
    """the real code, set up once per process"""
    ready = None

    def __init__(self):
        logging.getLogger('qtoggleserver.drivers.persist.json').setLevel(logging.ERROR)   # "using in-memory storage"
        from qtoggleserver.conf import settings
        settings.persist.driver = 'qtoggleserver.drivers.persist.JSONDriver'
        settings.persist.file_path = None
        from qtoggleserver import persist
        from qtoggleserver.core import expressions  # noqa: F401  (import order, as in the repo's conftest)
        from qtoggleserver.core import api as core_api
        from qtoggleserver.core import events as core_events
        from qtoggleserver.core import history as core_history
        from qtoggleserver.core import ports as core_ports
        from qtoggleserver.core.api.funcs import ports as api_ports
        from qtoggleserver.core.events import handlers as event_handlers
        from qtoggleserver.drivers.persist.json import JSONDriver
        from qtoggleserver.system import date as system_date
        from qtoggleserver.web.handlers import APIHandler

        class MemDriver(JSONDriver):
            def __init__(self):
                super().__init__(file_path=None)

            def _load(self):
                return {}

            def _save(self, data):
                pass

            def is_samples_supported(self):
                return True

        class GatedDriver(MemDriver):
            """the same in-memory driver whose sample calls suspend at two gates (before and after the real call) when they are
            made on behalf of a part of an overlap block; the harness scheduler opens one gate at a time"""

            async def get_samples_by_timestamp(self, *a, **kw):
                await at_gate(1)
                r = list(await super().get_samples_by_timestamp(*a, **kw))
                await at_gate(2)
                return r

            async def get_samples_slice(self, *a, **kw):
                await at_gate(1)
                r = list(await super().get_samples_slice(*a, **kw))
                await at_gate(2)
                return r

            async def remove_samples(self, *a, **kw):
                await at_gate(1)
                r = await super().remove_samples(*a, **kw)
                await at_gate(2)
                return r

            async def save_sample(self, *a, **kw):
                await at_gate(1)
                r = await super().save_sample(*a, **kw)
                await at_gate(2)
                return r

        self.GatedDriver = GatedDriver

        class HPort(core_ports.Port):
            def __init__(self, port_id, integer=None):
                super().__init__(port_id)
                self._integer = integer

            async def read_value(self):
                raise core_ports.SkipRead()

        class NumPort(HPort):
            TYPE = core_ports.TYPE_NUMBER

        class BoolPort(HPort):
            TYPE = core_ports.TYPE_BOOLEAN

        self.settings = settings
        self.persist, self.core_api, self.core_events, self.core_history = persist, core_api, core_events, core_history
        self.core_ports, self.api_ports, self.event_handlers, self.system_date = core_ports, api_ports, event_handlers, system_date
        self.APIHandler, self.MemDriver, self.NumPort, self.BoolPort = APIHandler, MemDriver, NumPort, BoolPort
        self.min_age = int(core_history._CACHE_TIMESTAMP_MIN_AGE)
        self.real_ms = int(system_date.OLD_TIME_LIMIT) * 1000
        self.patched = []
        for m in (core_history, api_ports, system_date):
            self.patched.append((m, m.time))
            m.time = Clock
        self.handler = None
        self._application = None
        self.saved_settings = None

    def restore(self):
        for m, t in self.patched:
            m.time = t
        if self.handler is not None:
            try:
                self.event_handlers._registered_handlers.remove(self.handler)
            except ValueError:
                pass

    async def make_driver(self, kind):
        if kind == 'json':
            return self.GatedDriver()
        if kind == 'redis':
            import fakeredis
            import redis as python_redis
            from qtoggleserver.drivers.persist import redis as redis_driver
            orig = python_redis.StrictRedis
            python_redis.StrictRedis = fakeredis.FakeStrictRedis
            try:
                d = redis_driver.RedisDriver(samples_support=True)
                await d.init()
            finally:
                python_redis.StrictRedis = orig
            d._client.flushall()
            return d
        if kind == 'mongo':
            import mongomock
            import pymongo
            from qtoggleserver.drivers.persist import mongo as mongo_driver
            orig = pymongo.MongoClient
            pymongo.MongoClient = mongomock.MongoClient
            try:
                d = mongo_driver.MongoDriver()
                await d.init()
            finally:
                pymongo.MongoClient = orig
            d._db[COLL].delete_many({})
            return d
        raise ValueError(kind)

    def request(self, method, name, query):
        """an APIHandler over a stand-in tornado request (as tests/qtoggleserver/mock/api.py does, with plain objects in place
        of MagicMock for the request: 2 ms -> 0.1 ms per request)"""
        import types
        if self._application is None:
            self._application = mock.MagicMock()
        request = types.SimpleNamespace(
            headers={}, method=method, path='/api/ports/%s/history' % name, body=b'', version='HTTP/1.1',
            query_arguments={k: [v.encode()] for k, v in query.items()},
            connection=types.SimpleNamespace(set_close_callback=lambda cb: None),
            supports_http_1_1=lambda: True,
        )
        h = self.APIHandler(application=self._application, request=request)
        h.access_level = self.core_api.ACCESS_LEVEL_ADMIN
        return h


def enc_value(v):
    """python value -> ['b', bool] | ['i', int] | ['n', quarters]; None when outside the encodable domain"""
    if isinstance(v, bool):
        return ['b', v]
    if isinstance(v, int):
        return ['i', v]
    if isinstance(v, float) and math.isfinite(v) and float(v * 4).is_integer():
        return ['n', int(v * 4)]
    return None


def quarters(v):
    if isinstance(v, (int, float)) and not isinstance(v, bool) and math.isfinite(v) and float(v * 4).is_integer():
        return int(v * 4)
    return None


def canon_response(req, out, exc, impl):
    if exc is not None:
        if isinstance(exc, impl.core_api.APIError):
            field = FIELDS.get(exc.params.get('field'), 0) if set(exc.params) <= {'field'} else 0
            if (exc.status, exc.code) == (404, 'no-such-port') and not exc.params:
                return ['nosuchport']
            if (exc.status, exc.code) == (400, 'missing-field') and field:
                return ['missing', field]
            if (exc.status, exc.code) == (400, 'invalid-field') and field:
                return ['invalid', field]
        return ['other', '%s: %s' % (type(exc).__name__, exc)]
    if req['op'] == 'delete':
        return ['done'] if out is None else ['other', repr(out)[:200]]
    if req['op'] != 'get' or not isinstance(out, list):
        return ['other', repr(out)[:200]]
    by_ts = 'timestamps' in req['query']
    items = []
    for e in out:
        if e is None and by_ts:
            items.append(None)
            continue
        if not (isinstance(e, dict) and set(e) == {'timestamp', 'value'} and isinstance(e['timestamp'], int)
                and not isinstance(e['timestamp'], bool)):
            return ['other', repr(out)[:300]]
        v = enc_value(e['value'])
        if v is None:
            return ['other', repr(out)[:300]]
        items.append([e['timestamp'], v])
    return ['entries' if by_ts else 'samples', items]


async def dump_store(driver):
    """records of the collection in the driver's own order -> [[oid, ts, quarters]] (None if not encodable)"""
    recs = list(await driver.query(COLL, None, {}, [], None))
    out = []
    for r in recs:
        q = quarters(r.get('val'))
        if q is None or r.get('oid') not in OID_NUMS or not isinstance(r.get('ts'), int):
            return None
        out.append([OID_NUMS[r['oid']], r['ts'], q])
    return out


def dump_cache(impl):
    out = []
    for name, d in impl.core_history._samples_cache.items():
        for t, v in d.items():
            ev = None if v is None else enc_value(v)
            if (v is not None and ev is None) or name not in OID_NUMS:
                return None
            out.append([OID_NUMS[name], t, ev])
    return sorted(out, key=lambda e: (e[0], e[1]))


class _Null(logging.Handler):
    def emit(self, record):
        pass


_NULL = _Null()
SETTING_DEFAULTS = {'debug_log': False, 'debug': False, 'janitor_interval': 3600}


def apply_settings(impl, st):
    """configuration the history code paths read, per sequence: log level of the qtoggleserver loggers (the persist layer
    has `if logger.getEffectiveLevel() <= DEBUG` branches), settings.debug, settings.core.history_janitor_interval.
    An empty dict restores what was there when the harness started."""
    lg = logging.getLogger('qtoggleserver')
    if impl.saved_settings is None:
        impl.saved_settings = (lg.level, lg.propagate, impl.settings.debug, impl.settings.core.history_janitor_interval)
    level, propagate, debug, janitor = impl.saved_settings
    if st.get('debug_log'):
        if _NULL not in lg.handlers:
            lg.addHandler(_NULL)
        lg.propagate = False
        lg.setLevel(logging.DEBUG)
    else:
        if _NULL in lg.handlers:
            lg.removeHandler(_NULL)
        lg.propagate = propagate
        lg.setLevel(level)
    impl.settings.debug = bool(st['debug']) if 'debug' in st else debug
    impl.settings.core.history_janitor_interval = int(st['janitor_interval']) if 'janitor_interval' in st else janitor


CUR_PART = contextvars.ContextVar('c18_part', default=None)


class Part:
    """one request of an overlap block: a task that stops at the driver gates"""

    def __init__(self, pid, req):
        self.id, self.req = pid, req
        self.task = None
        self.reached = None       # future completed when the task stops at a gate
        self.release = None       # event the task waits on at the gate
        self.gate = 0             # 0 not started, 1 before the driver call, 2 after it, 3 finished
        self.result = None


async def at_gate(n):
    part = CUR_PART.get()
    if part is None:
        return                    # a request that runs alone: no suspension added
    part.gate = n
    part.release = asyncio.Event()
    if part.reached is not None and not part.reached.done():
        part.reached.set_result(n)
    await part.release.wait()


async def run_impl(impl, cases, driver_kind='json'):
    """-> per case: list of observations {'resp':..., 'store': [...]|None (None = unchanged), 'cache': [...], 'note':...}"""
    h = impl.core_history
    if impl.handler is None:
        impl.handler = h.HistoryEventHandler()
        impl.core_events.register_handler(impl.handler)
    impl.persist._thread_local.driver = await impl.make_driver(driver_kind)
    ports = {}
    kinds = {}

    async def make_port(num, kind):
        """register a harness port of the given kind under the id of port `num`"""
        args = {'driver': impl.BoolPort if kind == 'KBool' else impl.NumPort, 'port_id': PORTS[num][0]}
        if kind == 'KInt':
            args['integer'] = True
        port = (await impl.core_ports.load([args]))[0]
        await port.enable()
        ports[num], kinds[num] = port, kind
        return port

    async def drop_port(num):
        port = ports[num]
        try:
            await port.remove(persisted_data=False)
        except (Exception, asyncio.CancelledError):  # noqa: BLE001  (the cancelled write task is re-raised by cleanup)
            pass
        impl.core_ports._ports_by_id.pop(port.get_id(), None)
        return port

    for num, (name, kind) in PORTS.items():
        await make_port(num, kind)
    results = []
    try:
        for case in cases:
            driver = await impl.make_driver(driver_kind)
            impl.persist._thread_local.driver = driver
            h._samples_cache.clear()
            del h._pending_remove_samples[:]
            Clock.now_ms = case['now0']
            apply_settings(impl, case.get('settings') or {})
            for num in PORTS:
                if kinds[num] != PORTS[num][1]:          # a previous sequence left another port under this id
                    await drop_port(num)
                    await make_port(num, PORTS[num][1])
            for num, port in ports.items():
                port._history_interval = -1 if case['on_change'].get(str(num)) else 0
                port.set_last_read_value(None)
                port.invalidate_attrs()
            for oid, ts, q in case['store']:
                await impl.persist.save_sample(COLL, OID_NAMES[oid], ts, q / 4)
            prev = await dump_store(driver)
            obs = []

            async def execute(req):
                """one request through the real functions -> canonical response"""
                try:
                    if req['op'] == 'get':
                        out = await impl.api_ports.get_port_history(impl.request('GET', OID_NAMES[req['port']], req['query']),
                                                                    OID_NAMES[req['port']])
                        return canon_response(req, out, None, impl)
                    if req['op'] == 'delete':
                        out = await impl.api_ports.delete_port_history(
                            impl.request('DELETE', OID_NAMES[req['port']], req['query']), OID_NAMES[req['port']])
                        return canon_response(req, out, None, impl)
                    if req['op'] == 'retype':
                        # the port goes away together with its history (what the janitor does for a removed port) and a new
                        # port of another kind is added under the same id
                        old_port = await drop_port(req['port'])
                        await h.remove_samples([old_port])
                        new_port = await make_port(req['port'], req['kind'])
                        new_port._history_interval = -1 if case['on_change'].get(str(req['port'])) else 0
                        new_port.invalidate_attrs()
                        return ['none']
                    if req['op'] == 'change':
                        port = ports[req['port']]
                        kind = kinds[req['port']]
                        q = req['value']
                        new = None if q is None else (bool(q) if kind == 'KBool' else (q // 4 if kind == 'KInt' else q / 4))
                        # what the port's value really is, in quarters (a boolean port turns 5.0 into True = 1.0)
                        req['value'] = None if new is None else int(float(new) * 4)
                        old = port.get_last_read_value()
                        port.set_last_read_value(new)
                        before = set(impl.event_handlers._active_handle_tasks)
                        await port.trigger_value_change(old, new)
                        tasks = set(impl.event_handlers._active_handle_tasks) - before
                        if tasks:
                            await asyncio.wait(tasks)
                        return ['none']
                    if req['op'] == 'tick':
                        Clock.now_ms += req['ms']
                        return ['none']
                    raise ValueError(req['op'])
                except Exception as e:  # noqa: BLE001
                    return canon_response(req, None, e, impl)

            async def observe(event, req, index, resp):
                nonlocal prev
                cur = await dump_store(driver)
                cache = dump_cache(impl)
                note = None
                if cur is None or cache is None:
                    note = 'store or cache holds a value outside the encodable domain'
                obs.append({'event': event, 'req': req, 'index': index, 'resp': resp,
                            'store': None if cur == prev else cur, 'cache': cache or [], 'note': note})
                prev = cur

            async def advance(part, index):
                """let one part run its next segment alone; log it as the event it turned out to be"""
                loop = asyncio.get_running_loop()
                part.reached = loop.create_future()
                before = part.gate
                if part.task is None:
                    async def body():
                        CUR_PART.set(part)
                        return await execute(part.req)
                    part.task = asyncio.ensure_future(body())
                else:
                    part.release.set()
                await asyncio.wait({part.task, part.reached}, return_when=asyncio.FIRST_COMPLETED)
                done = part.task.done()
                resp = part.task.result() if done else ['none']
                if done:
                    part.gate = 3
                event = [('start', 'driver', 'finish')[before], part.id]
                if before == 1 and done:
                    resp = ['other', 'request ended inside the driver call: %r' % (resp,)]
                elif before == 2 and not done:
                    resp = ['other', 'request suspended again after the driver call']
                await observe(event, part.req, index, resp)

            next_id = 1
            for index, req in enumerate(case['requests']):
                if req['op'] != 'overlap':
                    req = dict(req)
                    await observe(['seq'], req, index, await execute(req))
                    continue
                parts = []
                for r in req['parts']:
                    parts.append(Part(next_id, dict(r)))
                    next_id += 1
                order = [i for i in req['schedule'] if 0 <= i < len(parts)]
                for i in order + [i for i in range(len(parts)) for _ in range(3)]:
                    if parts[i].gate < 3:
                        await advance(parts[i], index)
            results.append(obs)
    finally:
        apply_settings(impl, {})
        for port in ports.values():
            try:
                await port.remove(persisted_data=False)
            except (Exception, asyncio.CancelledError):  # noqa: BLE001  (the cancelled write task is re-raised by cleanup)
                pass
            impl.core_ports._ports_by_id.pop(port.get_id(), None)
        tasks = set(impl.event_handlers._active_handle_tasks)
        if tasks:
            await asyncio.wait(tasks)
    return results


# ----------------------------------------------------------------------------------------------------------------
# Coq literals (constructors of C18/Lit.v; every number is a primitive-int literal)

def c_int(n):
    n = int(n)
    return '(0 - %d)' % -n if n < 0 else '%d' % n


def c_value(v):
    tag, x = v
    if tag == 'b':
        return '(VB %s)' % coq.boolean(x)
    return '(%s %s)' % ('VI' if tag == 'i' else 'VN', c_int(x))


def c_sample(s):
    return 'S %s %s %s' % (c_int(s[0]), c_int(s[1]), c_int(s[2]))


def c_qarg(s):
    if s is None:
        return 'QAbsent'
    if s == '':
        return 'QEmpty'
    t = s[1:] if s.startswith('-') else s
    if t.isascii() and t.isdigit():
        return '(QI %s)' % c_int(int(s))
    return 'QBad'


def c_query(q):
    ts = q.get('timestamps')
    tsl = 'None' if ts is None else '(Some %s)' % coq.lst(ts.split(','), c_qarg)
    return '(Q %s %s %s %s)' % (c_qarg(q.get('from')), c_qarg(q.get('to')), c_qarg(q.get('limit')), tsl)


def c_request(r):
    if r['op'] == 'get':
        return 'G %s %s' % (c_int(r['port']), c_query(r['query']))
    if r['op'] == 'delete':
        return 'D %s %s' % (c_int(r['port']), c_query(r['query']))
    if r['op'] == 'change':
        return 'C %s %s' % (c_int(r['port']), coq.option(r['value'], c_int))
    return 'K %d' % r['ms']


def c_response(r):
    tag = r[0]
    if tag == 'samples':
        return '(RS %s)' % coq.lst(r[1], lambda e: 'TV %s %s' % (c_int(e[0]), c_value(e[1])))
    if tag == 'entries':
        return '(RE %s)' % coq.lst(r[1], lambda e: 'None' if e is None else 'Some (TV %s %s)' % (c_int(e[0]), c_value(e[1])))
    if tag == 'missing':
        return '(RM %d)' % r[1]
    if tag == 'invalid':
        return '(RI %d)' % r[1]
    return {'done': 'RDone', 'nosuchport': 'RNoSuchPort', 'none': 'RNone'}.get(tag, 'ROther')


def c_obs(o):
    store = 'None' if o['store'] is None else '(Some %s)' % coq.lst(o['store'], c_sample)
    cache = coq.lst(o['cache'], lambda e: 'CE %s %s %s' % (c_int(e[0]), c_int(e[1]), coq.option(e[2], c_value)))
    return 'O %s %s %s' % (c_response(o['resp']), store, cache)


def c_event(o):
    ev = o['event']
    if ev[0] == 'seq':
        return 'SEQ (%s)' % c_request(o['req'])
    if ev[0] == 'start':
        return 'ST %d (%s)' % (ev[1], c_request(o['req']))
    return '%s %d' % ('DR' if ev[0] == 'driver' else 'FI', ev[1])


def c_case(case, obs, impl):
    kinds = {p: PORTS[p][1] for p in PORTS}

    def c_cfg():
        return '(CFG %s %s)' % (' '.join(kinds[p] for p in PORTS),
                                ' '.join(coq.boolean(bool(case['on_change'].get(str(p)))) for p in PORTS))

    cfg = c_cfg()

    def c_step(o):
        if o['req']['op'] == 'retype':
            kinds[o['req']['port']] = o['req']['kind']
            return '(RT %d %s, %s)' % (o['req']['port'], c_cfg(), c_obs(o))
        return '(%s, %s)' % (c_event(o), c_obs(o))

    steps = coq.lst(obs, c_step)
    return 'CASE %s %s %s\n   %s' % (cfg, coq.lst(case['store'], c_sample), c_int(case['now0']), steps)


def header(impl):
    """shard preamble: the configuration (constants read from the imported modules)"""
    ports = '; '.join('(%d, (k%d, b%d))' % (p, p, p) for p in PORTS)
    return (
        'From Coq Require Import Uint63.\nFrom QT Require Import C18.Lit.\n'
        'Definition CFG (%s : kind) (%s : bool) : config :=\n  {| cfg_ports := [%s]%%Z; cfg_min_age := %s%%Z; cfg_real_ms := %s%%Z |}.\n' % (
            ' '.join('k%d' % p for p in PORTS), ' '.join('b%d' % p for p in PORTS), ports, coq.z(impl.min_age), coq.z(impl.real_ms))
        + 'Open Scope uint63_scope.\n'
    )


def evaluate(ctx, impl, cases, name, driver_kind='json', strict=True, shard=200, extra=None):
    """run the implementation and the Coq model/spec on the cases.
    -> (observations, {case index: step} model disagreements, {case index: step} spec contradictions, error text or None)"""
    t0 = _time.time()
    observations = asyncio.run(run_impl(impl, cases, driver_kind))
    t_impl = _time.time() - t0
    if not ctx.model_ok:
        return observations, {}, {}, 'model not built; cases not evaluated'
    shards, offsets = [], []
    for i in range(0, len(cases), shard):
        body = ';\n  '.join(c_case(c, o, impl) for c, o in zip(cases[i:i + shard], observations[i:i + shard]))
        shards.append('Definition cases : list case := [\n  %s].\n' % body)
        offsets.append(i)
    evals = ['bad_model cases', 'bad_spec cases', 'bad_sched cases'] if strict else ['bad_spec_relaxed cases']
    t0 = _time.time()
    outs = coq.eval_shards(ctx.workdir, name, header(impl), shards, evals, jobs=2)
    if len(cases) > 20:
        ctx.log('%s: %d sequences, implementation %.1fs, coqc (%d shards) %.1fs' % (
            name, len(cases), t_impl, len(shards), _time.time() - t0))
    bad_model, bad_spec, err = {}, {}, None
    for (rc, lists, text), off in zip(outs, offsets):
        if rc != 0 or len(lists) != len(evals):
            err = 'coqc failed on a case shard: %s' % text[-600:]
            continue
        if strict:
            for code in lists[0]:
                bad_model[off + code // 1000] = code % 1000
            for code in lists[1]:
                bad_spec[off + code // 1000] = code % 1000
            if extra is not None:
                extra.setdefault('bad_sched', set()).update(off + code // 1000 for code in lists[2])
        else:
            for code in lists[0]:
                bad_spec[off + code // 1000] = code % 1000
    return observations, bad_model, bad_spec, err


# ----------------------------------------------------------------------------------------------------------------
# generation

def gen_case(rng, min_age, overlaps=True):
    unreal = rng.random() < 0.04
    now0 = rng.choice([1_000_000_000, 1_546_304_400_000 - 5]) if unreal else NOW0 + rng.randrange(0, 10) * 1000 + rng.randrange(0, 3)
    anchors = [now0 - 3 * min_age, now0 - 2 * min_age, now0 - min_age - 1500, now0 - min_age, now0 - min_age // 2, now0 - 2000]
    if rng.random() < 0.3:
        anchors += [1000, 2000, 3000]
    anchors = [a for a in anchors if a >= 0] or [1000, 2000, 3000]

    def ts_near():
        return max(0, rng.choice(anchors) + rng.choice([0, 0, 0, 1, -1, 2, -2, 500, -500, 1000]))

    oids = [1, 2, 3, 4, ORPHAN]
    focus = rng.choice([1, 2, 3, 4])
    n = rng.choice([0, 1, 2, 3, 5, 8, 12, 20, 30, 40]) if rng.random() < 0.6 else rng.randint(0, 40)
    store = []
    for _ in range(n):
        oid = focus if rng.random() < 0.6 else rng.choice(oids)
        q = rng.choice([0, 0, 1, 2, 3, 4, 4, 5, 6, 8, 10, -1, -3, -4, -7, -15, 17, 40, rng.randint(-40, 40)])
        store.append([oid, ts_near(), q])
    pool = sorted({s[1] + d for s in store for d in (0, 0, -1, 1)} | {ts_near() for _ in range(3)}
                  | {now0 - min_age - 1, now0 - min_age, now0 - min_age + 1, now0, now0 + 5000})
    pool = [t for t in pool if t >= 0]
    if rng.random() < 0.5:
        pool = [0] + pool          # boundary argument 0 (a falsy number) for from / to / timestamps
    tspool = rng.sample(pool, min(len(pool), rng.randint(3, 8)))

    def num_arg(valid, allow_empty=False):
        r = rng.random()
        if r < 0.93:
            return str(valid())
        if r < 0.955:
            return str(-rng.randint(1, 5000))
        if r < 0.98 or not allow_empty:
            return rng.choice(BAD_STRINGS)
        return ''

    def pick_port():
        r = rng.random()
        if r < 0.7:
            return focus
        if r < 0.97:
            return rng.choice([1, 2, 3, 4])
        return rng.choice([ORPHAN, NO_PORT])

    def bounds():
        a, b = rng.choice(pool), rng.choice(pool)
        if rng.random() < 0.75 and a > b:
            a, b = b, a
        return a, b

    requests = []
    clock = now0
    for _ in range(rng.randint(2, 12)):
        r = rng.random()
        if r < 0.36:
            k = rng.choice([1, 1, 2, 3, 3, 4, 5, 6])
            ts = [str(rng.choice(tspool if rng.random() < 0.8 else pool)) for _ in range(k)]
            if rng.random() < 0.35 and k > 1:
                ts[rng.randrange(k)] = rng.choice(ts)          # force a duplicate
            if rng.random() < 0.05:
                ts[rng.randrange(k)] = rng.choice(BAD_STRINGS + ['', '-1', '-250'])
            q = {'timestamps': ','.join(ts)}
            if rng.random() < 0.12:
                q['from'] = num_arg(lambda: rng.choice(pool), True)
            if rng.random() < 0.12:
                q['to'] = num_arg(lambda: rng.choice(pool), True)
            if rng.random() < 0.12:
                q['limit'] = rng.choice(['1', '5', '0', '10000', '10001', 'abc', '', '-1'])
            requests.append({'op': 'get', 'port': pick_port(), 'query': q})
        elif r < 0.62:
            a, b = bounds()
            q = {}
            x = rng.random()
            if x < 0.80:
                q['from'] = num_arg(lambda: a)
            elif x < 0.90:
                q['from'] = ''
            if rng.random() < 0.8:
                q['to'] = num_arg(lambda: b, True)
            if rng.random() < 0.6:
                q['limit'] = rng.choice(['1', '1', '2', '2', '3', '3', '5', '8', '40', '10000', '1000', '0', '10001', 'abc', '', '-1'])
            requests.append({'op': 'get', 'port': pick_port(), 'query': q})
        elif r < 0.74:
            a, b = bounds()
            q = {}
            if rng.random() < 0.93:
                q['from'] = num_arg(lambda: a, True)
            if rng.random() < 0.93:
                q['to'] = num_arg(lambda: b, True)
            requests.append({'op': 'delete', 'port': pick_port(), 'query': q})
        elif r < 0.88:
            p = focus if rng.random() < 0.7 else rng.choice([1, 2, 3, 4])
            kind = PORTS[p][1]
            if rng.random() < 0.08:
                v = None
            elif kind == 'KBool':
                v = rng.choice([0, 4])
            elif kind == 'KInt':
                v = 4 * rng.randint(-5, 20)
            else:
                v = rng.randint(-40, 80)
            requests.append({'op': 'change', 'port': p, 'value': v})
        else:
            ms = rng.choice([0, 1, 2, 1000, min_age - 1, min_age, min_age + 1, min_age + 1500, 2 * min_age, rng.randint(0, 3 * min_age)])
            clock += ms
            requests.append({'op': 'tick', 'ms': ms})
    if rng.random() < 0.18:
        # the port is replaced by a port of another kind under the same id; it was queried before (so that anything the
        # code remembers about the id is there), records new samples afterwards and is queried again
        p = focus if rng.random() < 0.8 else rng.choice([1, 2, 3, 4])
        new_kind = rng.choice([k for k in ('KNum', 'KInt', 'KBool') if k != PORTS[p][1]])
        far = now0 + 10 ** 9
        before = [{'op': 'get', 'port': p, 'query': {'from': '0'}}] if rng.random() < 0.6 else \
            [{'op': 'get', 'port': p, 'query': {'timestamps': '%d,%d' % (rng.choice(pool), far)}}]
        block = before + [{'op': 'retype', 'port': p, 'kind': new_kind}]
        for _ in range(rng.choice([1, 2, 2, 3])):
            block.append({'op': 'change', 'port': p, 'value': rng.choice([10, 29, 6, -15, 1, 4, 0, rng.randint(-40, 80)])})
            if rng.random() < 0.5:
                block.append({'op': 'tick', 'ms': rng.choice([1, 1000, 5000])})
        block.append({'op': 'get', 'port': p, 'query': {'from': '0'}})
        block.append({'op': 'get', 'port': p, 'query': {'timestamps': '%d,%d' % (far, rng.choice(pool))}})
        if rng.random() < 0.3:
            block.append({'op': 'retype', 'port': p, 'kind': PORTS[p][1]})
            block.append({'op': 'change', 'port': p, 'value': rng.randint(-40, 80)})
            block.append({'op': 'get', 'port': p, 'query': {'from': '0'}})
        at = rng.randint(0, len(requests))
        requests[at:at] = block
    if overlaps and rng.random() < 0.4:
        for _ in range(rng.choice([1, 1, 2])):
            block = gen_overlap(rng, min_age, now0, focus, store, pool, tspool)
            at = rng.randint(0, len(requests))
            requests[at:at] = block
    on_change = {str(p): (rng.random() < (0.85 if p == focus else 0.5)) for p in PORTS}
    settings = {'debug_log': rng.random() < 1 / 3, 'debug': rng.random() < 0.25,
                'janitor_interval': rng.choice([3600, 3600, 1, 60, 86400])}
    return {'now0': now0, 'on_change': on_change, 'store': store, 'requests': requests, 'settings': settings}


def gen_overlap(rng, min_age, now0, focus, store, pool, tspool):
    """an overlap block (2-3 requests on a suspending driver, with the order in which their segments run) followed by
    re-queries that run alone.  Each part has three segments (start, driver call, finish); `schedule` lists part indices,
    one occurrence = one segment.  A third of the blocks is the pattern "by-timestamp query suspended in the driver while
    a DELETE covering its answer completes; ask again afterwards"."""
    mine = [s for s in store if s[0] == focus]
    old = [s for s in mine if now0 - s[1] > min_age + 10]

    def byts(ts):
        return {'op': 'get', 'port': focus, 'query': {'timestamps': ','.join(str(t) for t in ts)}}

    def delete(a, b):
        return {'op': 'delete', 'port': focus, 'query': {'from': str(a), 'to': str(b)}}

    def some_ts(k):
        return [rng.choice(tspool if rng.random() < 0.7 else pool) for _ in range(k)]

    def change_value():
        kind = PORTS[focus][1]       # a value the port can have: booleans 0/1, integers, quarters
        return rng.choice([0, 4]) if kind == 'KBool' else 4 * rng.randint(-5, 20) if kind == 'KInt' else rng.randint(-40, 80)

    if old and rng.random() < 0.35:
        smp = rng.choice(old)
        t = smp[1] + rng.choice([0, 0, 1, 2])
        extra = some_ts(rng.choice([0, 0, 1, 2]))
        asked = extra[:1] + [t] + extra[1:]
        a = max(0, smp[1] - rng.choice([0, 0, 1, 1000]))
        parts = [byts(asked), delete(a, smp[1] + 1 + rng.choice([0, 0, 1, 500]))]
        schedule = rng.choice([[0, 0, 1, 1, 1, 0], [0, 0, 1, 1, 0, 1], [0, 1, 1, 0, 1, 0], [1, 0, 1, 0, 1, 0],
                               [1, 0, 0, 0, 1, 1], [1, 0, 0, 1, 0, 1], [1, 0, 0, 0, 1, 1]])
        if rng.random() < 0.3:
            parts.append({'op': 'change', 'port': focus, 'value': change_value()})
            schedule = list(schedule)
            for _ in range(3):
                schedule.insert(rng.randint(0, len(schedule)), 2)
        after = [byts([t]), byts(asked[::-1])]
    else:
        parts = []
        for _ in range(rng.choice([2, 2, 3])):
            r = rng.random()
            if r < 0.45:
                parts.append(byts(some_ts(rng.choice([1, 2, 3, 4]))))
            elif r < 0.7:
                a, b = sorted([rng.choice(pool), rng.choice(pool)])
                parts.append(delete(a, b + rng.choice([0, 1])))
            elif r < 0.85:
                parts.append({'op': 'change', 'port': focus, 'value': change_value()})
            else:
                a, b = sorted([rng.choice(pool), rng.choice(pool)])
                q = {'from': str(a), 'to': str(b + 1)}
                if rng.random() < 0.5:
                    q['limit'] = rng.choice(['1', '2', '5'])
                parts.append({'op': 'get', 'port': focus, 'query': q})
        schedule = [i for i in range(len(parts)) for _ in range(3)]
        rng.shuffle(schedule)
        asked = [int(t) for p_ in parts if p_['op'] == 'get' and 'timestamps' in p_['query']
                 for t in p_['query']['timestamps'].split(',')]
        after = [byts(asked[:4])] if asked else []
        if rng.random() < 0.5:
            after.append({'op': 'get', 'port': focus, 'query': {'from': '0'}})
    return [{'op': 'overlap', 'parts': parts, 'schedule': schedule}] + after


def fixed_cases(min_age):
    """boundary cases no random store reaches: the default limit (1000) and the largest accepted limit (10000)"""
    store = [[1, NOW0 - 5000 + (i * 7919) % 1003, i % 9 - 4] for i in range(1003)]
    reqs = [
        {'op': 'get', 'port': 1, 'query': {'from': '0'}},
        {'op': 'get', 'port': 1, 'query': {'from': '0', 'limit': '10000'}},
        {'op': 'get', 'port': 1, 'query': {'from': '0', 'limit': '10001'}},
    ]
    return [{'now0': NOW0, 'on_change': {}, 'store': store, 'requests': reqs}]


def load_corpus():
    out = []
    for path in sorted(glob.glob(os.path.join(coq.VERIF, 'corpus', ID, '*.json'))):
        with open(path) as f:
            d = json.load(f)
        out.append((os.path.basename(path), d['case'] if 'case' in d and 'requests' not in d else d))
    return out


# ----------------------------------------------------------------------------------------------------------------
# classification, shrinking

def describe_request(r):
    if r['op'] == 'get':
        return 'GET /ports/%s/history?%s' % (OID_NAMES[r['port']], '&'.join('%s=%s' % kv for kv in r['query'].items()))
    if r['op'] == 'delete':
        return 'DELETE /ports/%s/history?%s' % (OID_NAMES[r['port']], '&'.join('%s=%s' % kv for kv in r['query'].items()))
    if r['op'] == 'change':
        return 'value of %s changes to %s' % (OID_NAMES[r['port']], None if r['value'] is None else r['value'] / 4)
    if r['op'] == 'retype':
        return 'port %s is removed with its history and added again as a %s port' % (
            OID_NAMES[r['port']], {'KBool': 'boolean', 'KInt': 'number (integer)', 'KNum': 'number'}[r['kind']])
    if r['op'] == 'overlap':
        return 'overlapping requests %s, segments run in the order %s' % (
            [describe_request(x) for x in r['parts']], r['schedule'])
    return 'clock advances by %d ms' % r['ms']


def describe_event(o):
    ev = o['event']
    if ev[0] == 'seq':
        return describe_request(o['req'])
    what = {'start': 'starts (argument handling, cache lookup / cache invalidation) and suspends at the driver',
            'driver': 'driver call runs', 'finish': 'resumes after the driver call and answers'}[ev[0]]
    return 'overlapping request #%d %s: %s' % (ev[1], describe_request(o['req']), what)


def classify(case, obs, step):
    """key of a violation: which kind of request, and what is wrong with the answer"""
    req, o = obs[step]['req'], obs[step]
    if req['op'] == 'get' and 'timestamps' in req['query']:
        key = {'request': 'GET history by timestamps'}
        if o['resp'][0] == 'entries':
            n_req = len(req['query']['timestamps'].split(','))
            key['aspect'] = 'number of entries' if len(o['resp'][1]) != n_req else 'order or content of entries'
        else:
            key['aspect'] = 'response kind'
    elif req['op'] == 'get':
        key = {'request': 'GET history range', 'aspect': 'samples returned'}
    elif req['op'] == 'delete':
        key = {'request': 'DELETE history', 'aspect': 'samples removed' if o['store'] is not None else 'response'}
    elif req['op'] == 'change':
        key = {'request': 'value change', 'aspect': 'samples recorded'}
    else:
        key = {'request': req['op'], 'aspect': 'state'}
    if o['event'][0] != 'seq':
        key['overlapping'] = True
    elif any(x['event'][0] != 'seq' for x in obs[:step]):
        key['after_overlap'] = True      # a request that runs alone, after requests overlapped earlier in the sequence
    if any(x['req']['op'] == 'retype' and x['req']['port'] == req.get('port') for x in obs[:step]):
        key['after_port_replaced'] = True
    return key


def shrink(ctx, impl, case, rounds=10):
    """remove requests / stored samples / single timestamps while the implementation still contradicts the spec"""
    def still_bad(cands, tag):
        if not cands:
            return []
        _obs, _bm, bs, err = evaluate(ctx, impl, cands, 'c18shrink_%s' % tag)
        return [] if err else sorted(bs)

    def variants(c):
        out = []
        reqs = c['requests']
        for i in range(len(reqs)):
            out.append(('req', i, dict(c, requests=reqs[:i] + reqs[i + 1:])))
        for i, r in enumerate(reqs):
            if r['op'] == 'get' and 'timestamps' in r['query']:
                ts = r['query']['timestamps'].split(',')
                for j in range(len(ts)):
                    if len(ts) > 1:
                        q = dict(r['query'], timestamps=','.join(ts[:j] + ts[j + 1:]))
                        out.append(('ts', (i, j), dict(c, requests=reqs[:i] + [dict(r, query=q)] + reqs[i + 1:])))
                for k in ('from', 'to', 'limit'):
                    if k in r['query']:
                        q = {a: b for a, b in r['query'].items() if a != k}
                        out.append(('arg', (i, k), dict(c, requests=reqs[:i] + [dict(r, query=q)] + reqs[i + 1:])))
        for i, r in enumerate(reqs):
            if r['op'] == 'overlap':
                for j in range(len(r['parts'])):
                    parts = r['parts'][:j] + r['parts'][j + 1:]
                    sched = [x - (x > j) for x in r['schedule'] if x != j]
                    rep = [dict(r, parts=parts, schedule=sched)] if len(parts) > 1 else list(parts)
                    out.append(('part', (i, j), dict(c, requests=reqs[:i] + rep + reqs[i + 1:])))
        st = c['store']
        if len(st) > 8:
            half = len(st) // 2
            out.append(('store', 'a', dict(c, store=st[:half])))
            out.append(('store', 'b', dict(c, store=st[half:])))
        else:
            for i in range(len(st)):
                out.append(('store', i, dict(c, store=st[:i] + st[i + 1:])))
        return out

    cur = case
    for rnd in range(rounds):
        vs = variants(cur)
        bad = still_bad([v[2] for v in vs], 'r%d' % rnd)
        if not bad:
            break
        nxt = vs[bad[0]][2]
        # everything that can be dropped individually can usually be dropped together
        drop_req = {vs[i][1] for i in bad if vs[i][0] == 'req'}
        drop_smp = {vs[i][1] for i in bad if vs[i][0] == 'store' and isinstance(vs[i][1], int)}
        if len(drop_req) + len(drop_smp) > 1:
            cand = dict(cur, requests=[r for i, r in enumerate(cur['requests']) if i not in drop_req],
                        store=[x for i, x in enumerate(cur['store']) if i not in drop_smp])
            if still_bad([cand], 'r%dc' % rnd):
                nxt = cand
        cur = nxt
    return cur


# ----------------------------------------------------------------------------------------------------------------
# check / search

def summarize(case, obs, step):
    return {
        'ports': {OID_NAMES[p]: {'kind': PORTS[p][1], 'history_interval': -1 if case['on_change'].get(str(p)) else 0} for p in PORTS},
        'clock_ms': case['now0'],
        'settings': dict(SETTING_DEFAULTS, **(case.get('settings') or {})),
        'stored_samples': [{'port': OID_NAMES[s[0]], 'timestamp': s[1], 'value': s[2] / 4} for s in case['store']],
        'requests': [describe_request(r) for r in case['requests']],
        'events': [describe_event(o) for o in obs],
        'failing_step': step,
        'machine': case,
    }


def run_batch(ctx, res, impl, cases, name, labels=None, do_shrink=True):
    t0 = _time.time()
    extra = {}
    observations, bad_model, bad_spec, err = evaluate(ctx, impl, cases, name, extra=extra)
    outside = sorted(extra.get('bad_sched', ()))
    if outside:
        res['distribution']['schedules outside the premise of the interleaving theorem (sched_okb = false)'] = \
            res['distribution'].get('schedules outside the premise of the interleaving theorem (sched_okb = false)', 0) + len(outside)
        res['tie_failures'].append({'note': 'the harness ran a schedule outside the premise of C18_overlap_cache_invariant',
                                    'case': cases[outside[0]]})
    res['extra']['impl_and_coq_wall_s'] = round(res['extra'].get('impl_and_coq_wall_s', 0) + _time.time() - t0, 2)
    if err:
        res['tie_failures'].append(err)
    dist = res['distribution']
    nontrivial = 0
    for case, obs in zip(cases, observations):
        kinds = set()
        cached_hit = False
        n_overlap = sum(1 for r in case['requests'] if r['op'] == 'overlap')
        if n_overlap:
            dist['sequences with overlapping requests'] = dist.get('sequences with overlapping requests', 0) + 1
            if any(o['event'][0] != 'seq' and o['store'] is not None for o in obs):
                dist['sequences where the store changes while a query is in flight'] = dist.get(
                    'sequences where the store changes while a query is in flight', 0) + 1
        for o in obs:
            r = o['req']
            if o['event'][0] in ('driver', 'finish'):
                if o['event'][0] == 'finish':
                    dist['response:' + o['resp'][0]] = dist.get('response:' + o['resp'][0], 0) + 1
                continue
            k = ('get-by-timestamps' if 'timestamps' in r['query'] else 'get-range') if r['op'] == 'get' else r['op']
            if o['event'][0] == 'start':
                dist['overlapping:' + k] = dist.get('overlapping:' + k, 0) + 1
            kinds.add(k)
            dist['request:' + k] = dist.get('request:' + k, 0) + 1
            if not (o['event'][0] == 'start' and o['resp'][0] == 'none'):
                dist['response:' + o['resp'][0]] = dist.get('response:' + o['resp'][0], 0) + 1
            if k == 'get-by-timestamps' and o['resp'][0] == 'entries':
                ts = r['query']['timestamps'].split(',')
                if len(set(ts)) < len(ts):
                    dist['by-timestamps with duplicates'] = dist.get('by-timestamps with duplicates', 0) + 1
                if ts != sorted(ts, key=int):
                    dist['by-timestamps unsorted'] = dist.get('by-timestamps unsorted', 0) + 1
            if o['note']:
                res['tie_failures'].append({'note': o['note'], 'request': describe_request(r)})
        st = dict(SETTING_DEFAULTS, **(case.get('settings') or {}))
        if st['debug_log']:
            dist['sequences with qtoggleserver loggers at DEBUG'] = dist.get('sequences with qtoggleserver loggers at DEBUG', 0) + 1
        if st['debug']:
            dist['sequences with settings.debug'] = dist.get('sequences with settings.debug', 0) + 1
        jk = 'sequences with history_janitor_interval=%d' % st['janitor_interval']
        dist[jk] = dist.get(jk, 0) + 1
        for i, o in enumerate(obs):
            r = o['req']
            if o['event'][0] not in ('seq', 'start'):
                continue
            # cold misses: requested timestamps that were not in the cache before this request
            if r['op'] == 'get' and 'timestamps' in r['query'] and o['resp'][0] == 'entries':
                before = {(e[0], e[1]) for e in (obs[i - 1]['cache'] if i else [])}
                cold = [int(t) for t in r['query']['timestamps'].split(',') if (r['port'], int(t)) not in before]
                tags = []
                if cold != sorted(cold):
                    tags.append('unsorted')
                if len(set(cold)) < len(cold):
                    tags.append('duplicate')
                for tag in tags:
                    for k2 in ['by-timestamps with %s uncached timestamps' % tag] + (
                            ['by-timestamps with %s uncached timestamps, loggers at DEBUG' % tag] if st['debug_log'] else []):
                        dist[k2] = dist.get(k2, 0) + 1
        for i in range(1, len(obs)):
            r = obs[i]['req']
            if obs[i]['event'][0] in ('seq', 'start') and r['op'] == 'get' and 'timestamps' in r['query'] \
                    and obs[i]['resp'][0] == 'entries':
                before = {(e[0], e[1]) for e in obs[i - 1]['cache']}
                if any((r['port'], int(t)) in before for t in r['query']['timestamps'].split(',') if t.lstrip('-').isdigit()):
                    cached_hit = True
        if cached_hit:
            dist['sequences with a cache hit'] = dist.get('sequences with a cache hit', 0) + 1
        n_st = len(case['store'])
        size_key = 'store size ' + ('0' if n_st == 0 else '1-10' if n_st <= 10 else '11-40' if n_st <= 40 else '>40')
        dist[size_key] = dist.get(size_key, 0) + 1
        if len(case['store']) >= 2 and len(kinds) >= 2:
            nontrivial += 1
    res['evaluations'] += sum(1 for obs in observations for o in obs if o['event'][0] in ('seq', 'start'))
    res['distinct_nontrivial'] += nontrivial
    res['extra']['sequences'] = res['extra'].get('sequences', 0) + len(cases)
    if len(res['samples']) < 6:
        for case, obs in list(zip(cases, observations))[:3]:
            res['samples'].append({'requests': [describe_request(r) for r in case['requests']][:6],
                                   'stored_samples': len(case['store']),
                                   'implementation': [o['resp'] if o['resp'][0] not in ('samples', 'entries')
                                                      else [o['resp'][0], o['resp'][1][:4]] for o in obs][:6]})
    for idx, step in sorted(bad_model.items()):
        case = cases[idx]
        res['tie_failures'].append({
            'note': 'model differs from implementation at step %d: %s' % (step, describe_event(observations[idx][step])),
            'label': labels[idx] if labels else None,
            'implementation': observations[idx][step]['resp'],
            'case': case if len(res['tie_failures']) < 3 else '(omitted)',
        })
    shrunk_done = False
    for idx, step in sorted(bad_spec.items()):
        case, obs = cases[idx], observations[idx]
        if do_shrink and not shrunk_done and not res['violations']:
            shrunk_done = True
            small = shrink(ctx, impl, case)
            o2, _bm, bs2, _e = evaluate(ctx, impl, [small], name + '_min')
            if 0 in bs2:
                case, obs, step = small, o2[0], bs2[0]
        res['violations'].append({
            'key': classify(case, obs, step),
            'what': '%s answered %s, which contradicts the specification (event %d of the replay)' % (
                describe_event(obs[step]), json.dumps(obs[step]['resp'] if obs[step]['store'] is None else
                                                  {'response': obs[step]['resp'], 'records_after': obs[step]['store']})[:400], step),
            'case': summarize(case, obs, step),
            'observed': [o['resp'] for o in obs],
        })


def _impl():
    if Impl.ready is None:
        Impl.ready = Impl()
    return Impl.ready


def check(ctx, res):
    res['rule'] = (
        'request sequences (2-12 requests: GET by timestamps with duplicates/unsorted/invalid items, GET range with '
        'present/absent/empty/negative/non-numeric from,to,limit, DELETE, value changes of number/integer/boolean ports '
        'with history_interval -1 or 0, clock advances around the cache age; a third of the sequences with the qtoggleserver '
        'loggers at DEBUG, a quarter with settings.debug, history_janitor_interval in {1, 60, 3600, 86400}) over random stores of 0-40 samples with '
        'clustered and equal timestamps on 4 ports + 1 orphan object; evaluations = requests executed; non-trivial = '
        'sequence with >= 2 stored samples and >= 2 kinds of request'
    )
    impl = _impl()
    try:
        if impl.min_age < 0:
            res['tie_failures'].append('_CACHE_TIMESTAMP_MIN_AGE is negative: the cache theorem does not apply')
        if ctx.replay:
            with open(ctx.replay) as f:
                d = json.load(f)
            case = d.get('case', d)
            case = case.get('machine', case)
            run_batch(ctx, res, impl, [case], 'c18replay', do_shrink=False)
            return
        corpus = load_corpus()
        if corpus:
            run_batch(ctx, res, impl, [c.get('machine', c) for _n, c in corpus], 'c18corpus', labels=[n for n, _c in corpus],
                      do_shrink=False)
        run_batch(ctx, res, impl, fixed_cases(impl.min_age), 'c18fixed', do_shrink=False)
        n = ctx.n(800, 40000)
        done = 0
        while done < n:
            k = min(4000, n - done)
            cases = [gen_case(ctx.rng, impl.min_age) for _ in range(k)]
            run_batch(ctx, res, impl, cases, 'c18cases%d' % done)
            done += k
        if not res['violations']:
            other_drivers(ctx, res, impl, ctx.n(40, 2000))
    finally:
        impl.restore()
        Impl.ready = None


def other_drivers(ctx, res, impl, n):
    """the same kind of sequences on fakeredis / mongomock, against the tie-tolerant specification oracle"""
    for kind in ('redis', 'mongo'):
        try:
            cases = [gen_case(ctx.rng, impl.min_age, overlaps=False) for _ in range(n)]
            observations, _bm, bad, err = evaluate(ctx, impl, cases, 'c18%s' % kind, driver_kind=kind, strict=False)
        except Exception as e:  # noqa: BLE001
            res['extra']['driver:%s' % kind] = 'not run: %s: %s' % (type(e).__name__, e)
            continue
        res['extra']['driver:%s' % kind] = '%d sequences, %d contradict the tie-tolerant oracle' % (n, len(bad))
        res['evaluations'] += sum(len(o) for o in observations)
        if err:
            res['tie_failures'].append('%s: %s' % (kind, err))
        for idx, step in sorted(bad.items())[:5]:
            case = cases[idx]
            key = classify(case, observations[idx], step)
            key['driver'] = kind
            res['violations'].append({
                'key': key,
                'what': '[%s driver] %s answered %s, which contradicts the specification' % (
                    kind, describe_event(observations[idx][step]), json.dumps(observations[idx][step]['resp'])[:300]),
                'case': summarize(case, observations[idx], step),
                'observed': [o['resp'] for o in observations[idx]],
            })


def search(ctx, res):
    """a proof or the tie broke and check() found no contradiction: ten times the budget"""
    impl = _impl()
    try:
        n = ctx.n(8000, 40000)
        done = 0
        while done < n and not res['violations']:
            cases = [gen_case(ctx.rng, impl.min_age) for _ in range(min(2000, n - done))]
            run_batch(ctx, res, impl, cases, 'c18search%d' % done)
            done += len(cases)
    finally:
        impl.restore()
        Impl.ready = None


REPLAY_HELP = (
    'bin/check C18 --replay <this file>   (case.machine: clock, ports, stored samples [port, timestamp ms, value*4], '
    'requests through core/api/funcs/ports.py get_port_history / delete_port_history on the in-memory JSON driver)'
)

LEVEL_TEXT = (
    'Coq theorems over a Gallina model of the JSON driver\'s sample queries, persist/base.py, core/history.py (type '
    'adaptation, the by-timestamp cache, invalidation) and the API argument handling, as a state machine over GET / '
    'DELETE / value-change / clock requests: for every store, every request sequence (hence every reachable cache state) '
    'and all arguments, a range query answers firstn limit (sort_by_ts (filter in_range store)) typed like the port, a '
    'query by timestamps answers one entry per requested timestamp in request order with the newest sample at or before '
    'it (cache invariant proved by induction over the request sequence), DELETE removes exactly the half-open range of '
    'that port, and a value change of an on-change port appends exactly one sample. The model is compared step by step '
    '(responses, driver records, cache contents) with the real functions on generated sequences, and the real functions '
    'are compared with the Coq specification oracle. Requests overlapping on a suspending driver are modelled as '
    'interleaved segments (Interleave.v): the cache invariant is proved over every admissible schedule, the harness replays '
    'the logged schedule through the model exactly, and the spec oracle accepts an overlapping answer iff it is right for '
    'some store the request\'s window saw, while anything asked after the overlap must be exact.'
)
LEVEL_NOTE = (
    'Trusted: Coq kernel incl. vm_compute; the correspondence harness (fake clock, harness ports, generators); the '
    'in-memory JSON driver subclass; values restricted to multiples of 1/4. The clock is monotone by construction of the '
    'request type; sampling task / janitor / background removal are not modelled. No axioms.'
)
TECHNIQUE = 'Coq proof (induction over request sequences, cache invariant) over a model tied by vm_compute correspondence'
