"""C11 — listeners get each permitted event once, in order; never one above their level.

Theorems: coq/theories/Props/C11.v over the model coq/theories/C11/Model.v instantiated with Gen/C11Gen.v.
Tie: (T) harness/translate/eventtable.py regenerates the event table (TYPE, REQUIRED_ACCESS, is_duplicate shape), the default
queue size, SESSION_EXPIRY_FACTOR and the statement list of Session.reset_and_wait; cross-checked here against the imported
classes.  (C) random / exhaustive traces of Trigger / Listen / Tick are run against the real `sessions` module (get,
reset_and_wait, SessionsEventHandler through core.events.trigger, update; half of the listens through the API function
get_listen) on an asyncio loop with a controlled clock; answers and final state are compared with the model (vm_compute).
Oracle: the same observations are compared with the specification (C11/Spec.v, SpecRun.v) -> violations, shrunk.
"""
import asyncio
import copy
import glob
import inspect
import json
import logging
import os
import re
import types

from harness.common import coq
from harness.translate import eventtable

ID = 'C11'
PROPS = 'theories/Props/C11.v'
MODEL_TARGETS = ['theories/C11/SpecRun.vo', 'theories/C11/Run.vo']
TRANSLATORS = [eventtable.translate]
TIE = ('translator (event table, queue size, expiry factor, reset_and_wait statements) cross-checked against the imported '
       'classes + trace correspondence (answers and final state) by vm_compute')
ALLOWED_AXIOMS = []
TRUSTED_BASE = [
    'harness/translate/eventtable.py (reads the shapes it documents; fail closed otherwise)',
    'correspondence harness harness/props/c11.py: fake ports/slaves, controlled clock (sessions.time), observation of the '
    'listen futures by a wrapper around Session.reset_and_wait that calls the original; generators',
    'modelled, not verified: asyncio futures (set_result wakes the awaiting listen call), dict iteration order, '
    'tornado/HTTP layer above get_listen, frontend events (qtoggleserver/frontend/events.py) are outside the table',
]
ASSUMPTIONS = [
    'settings.core.event_queue_size >= 1 (with 0 Session.push raises IndexError)',
    'get + reset_and_wait of one listen call are atomic (no await between them in get_listen); trigger() reaches the '
    'sessions handler synchronously whatever the other registered handlers do (translator: per-handler shielding in '
    'core/events/handlers.py:trigger, SessionsEventHandler.FIRE_AND_FORGET = False; harness: every trace runs under a '
    'configuration of other handlers that raise / are slow / are fire-and-forget, before and after the sessions handler)',
    '"its caller\'s level" is read as: an event is pending for a session when the level of the session\'s latest listen call '
    'permits it, and it is delivered only if the level of the request that receives it permits it too; pending events the '
    'new caller may not see are discarded',
    'full-update is superseded like device-update (the code does so; the statement names port/device/slave updates)',
    'a session idle for more than SESSION_EXPIRY_FACTOR x timeout is removed together with its pending events',
]

SID_COUNT = 4
LEVELS = [0, 10, 20, 30]


# ---------------------------------------------------------------------------------------------------------------------
# implementation side

class FakePort:
    def __init__(self, n):
        self._id = 'p%d' % n

    def get_id(self):
        return self._id

    async def to_json(self):
        return {'id': self._id}

    def __repr__(self):
        return 'FakePort(%s)' % self._id


class FakeSlave:
    def __init__(self, n):
        self._name = 's%d' % n

    def get_name(self):
        return self._name

    def to_json(self):
        return {'name': self._name}


class Clock:
    """stands in for the `time` module inside core/sessions.py"""
    def __init__(self):
        self.now = 0

    def time(self):
        return self.now


class Impl:
    """the imported implementation + what the harness replaces around it (nothing inside it)"""
    _inst = None

    @classmethod
    def get(cls):
        if cls._inst is None:
            cls._inst = Impl()
        return cls._inst

    def __init__(self):
        logging.disable(logging.CRITICAL)
        from qtoggleserver.conf import settings
        settings.persist.driver = 'qtoggleserver.drivers.persist.JSONDriver'   # in memory: put_ports / put_slave_devices reset ports
        settings.persist.file_path = None
        from qtoggleserver.core import expressions  # noqa: F401  (import order: prevents partial import errors)
        from qtoggleserver.core import events as core_events
        from qtoggleserver.core import sessions
        from qtoggleserver.core.api.funcs import various
        from qtoggleserver.core.events import base as ev_base, device as ev_device, handlers, port as ev_port
        from qtoggleserver.slaves import events as ev_slaves
        self.settings, self.core_events, self.sessions, self.various, self.handlers = (
            settings, core_events, sessions, various, handlers)
        from qtoggleserver.core import api as core_api
        from qtoggleserver.core.api.funcs import ports as ports_funcs
        from qtoggleserver.slaves.api.funcs import devices as devices_funcs
        self.APIError = core_api.APIError
        self.restore = {'P': ports_funcs.put_ports, 'S': devices_funcs.put_slave_devices}
        self.modules = {m.__name__: m for m in (ev_base, ev_port, ev_device, ev_slaves)}
        self.Event = ev_base.Event
        self.PortEvent = ev_port.PortEvent
        self.SlaveDeviceEvent = ev_slaves.SlaveDeviceEvent

        async def fake_attrs():
            return {'name': 'verif'}
        ev_device.core_device_attrs.to_json = fake_attrs      # device attributes are not under test
        self.clock = Clock()
        sessions.time = self.clock
        self.ports = [FakePort(i) for i in range(8)]
        self.slaves = [FakeSlave(i) for i in range(8)]
        self.default_queue_size = settings.core.event_queue_size
        self.orig_reset = sessions.Session.reset_and_wait
        _define_handlers(core_events)

    def classes(self):
        """concrete event classes in translator order: (class, kind) with kind in port/slave/none"""
        out = []
        for _key, modname in eventtable.EVENT_MODULES:
            mod = self.modules[modname]
            for name, c in vars(mod).items():
                if (inspect.isclass(c) and issubclass(c, self.Event) and c is not self.Event and c.__module__ == modname
                        and 'TYPE' in vars(c)):
                    kind = 'port' if issubclass(c, self.PortEvent) else 'slave' if issubclass(c, self.SlaveDeviceEvent) else 'none'
                    out.append((c, kind))
        return out

    def make(self, c, kind, obj):
        """construct a real event object of class c about object number obj"""
        target = self.ports[obj] if kind == 'port' else self.slaves[obj] if kind == 'slave' else None
        sig = inspect.signature(c.__init__)
        args, kwargs = [], {}
        placed = False
        for p in list(sig.parameters.values())[1:]:
            if p.kind == p.VAR_POSITIONAL:
                if target is not None and not placed:
                    args.append(target)
                    placed = True
            elif p.kind == p.VAR_KEYWORD:
                pass
            elif p.name in ('port', 'slave'):
                args.append(target)
                placed = True
            elif p.name == 'old_value':
                args.append(0)
            elif p.name == 'new_value':
                args.append(1)
            elif p.name == 'timestamp':
                kwargs['timestamp'] = 0
            elif p.default is not p.empty:
                pass
            else:
                raise TypeError('do not know how to fill %s.__init__(%s)' % (c.__name__, p.name))
        if target is not None and not placed:
            raise TypeError('%s.__init__ takes no object' % c.__name__)
        return c(*args, **kwargs)

    def runtime_table(self):
        """[{class, type, required, dup}] from the imported classes; dup probed by calling is_duplicate"""
        cls = self.classes()
        rows = []
        for c, kind in cls:
            a, b, d = self.make(c, kind, 0), self.make(c, kind, 0), self.make(c, kind, 1)
            others = [self.make(o, k, 0) for o, k in cls if o is not c]
            same, diff = bool(a.is_duplicate(b)), bool(a.is_duplicate(d))
            other = any(a.is_duplicate(o) for o in others)
            if other or a.is_duplicate(a) != same:
                shape = 'other'
            elif not same and not diff:
                shape = 'never'
            elif same and diff:
                shape = 'class'
            elif same and not diff and kind != 'none':
                shape = 'class_obj'
            else:
                shape = 'other'
            rows.append({'class': c.__name__, 'module': c.__module__, 'type': c.TYPE, 'required': c.REQUIRED_ACCESS,
                         'dup': shape, 'kind': kind})
        return rows


class FakeHandler:
    """what api_call / APIRequest read from the tornado handler"""
    def __init__(self, level, sid, timeout):
        self.access_level = level
        self.username = 'verif'
        self.request = types.SimpleNamespace(
            headers={'Session-Id': sid}, query_arguments={'timeout': [str(timeout).encode()]}, method='GET',
            path='/api/listen', body=b'')

    def decode_argument(self, v, name=None):
        return v.decode()


# bodies for PUT /ports and PUT /slave_devices: accepted ones and ones with a malformed entry (rejected with 400 inside the
# restore, i.e. after event handling was switched off)
RESTORE_PARAMS = {
    'P': {'ok': [], 'ok2': [{'id': 'no-such-port', 'display_name': 'x'}],
          'bad': [{'id': 'no-such-port'}, {'id': 'vport1', 'virtual': True, 'type': 'text'}]},
    'S': {'ok': [], 'ok2': [], 'bad': [{'scheme': 'http'}]},
}
FULL_UPDATE = {'cls': 5}     # index of the full-update class in the table (set by _prepare)


def expand(trace):
    """trace items -> (Coq events, position of (the last event of) every item).  A restore call is, for the sessions,
    Disable ; Enable [; Trigger full-update]"""
    evs, pos = [], []
    for st in trace:
        if st[0] == 'D':
            evs.append('Disable')
        elif st[0] == 'E':
            evs.append('Enable')
        elif st[0] in ('P', 'S'):
            evs += ['Disable', 'Enable']
            if st[1].startswith('ok'):
                evs.append('T %s 0' % coq.z(FULL_UPDATE['cls']))
        else:
            evs.append(coq_event(st))
        pos.append(len(evs) - 1)
    return evs, pos


def sid_str(sid):
    return 'sess-%d' % sid


# other event handlers next to the sessions handler (the hub's configuration).  Delivery to listening sessions must not
# depend on them.  'before' handlers are configured through settings.event_handlers and loaded by core.events.init(), as at
# start-up (startup.py: init_events() then init_sessions()); 'after' handlers are registered after sessions.init().
# entry: [kind, mode, period]  kind: sync (FIRE_AND_FORGET = False) | faf;  mode: ok | raise | slow | slow-raise;
# a raising handler raises on every period-th event it sees
HANDLER_PRESETS = {
    'none': {'before': [], 'after': []},
    'healthy': {'before': [['sync', 'ok', 1], ['faf', 'ok', 1]], 'after': [['sync', 'slow', 1]]},
    'raise-sync-before': {'before': [['sync', 'raise', 1]], 'after': []},
    'raise-sync-before-some': {'before': [['faf', 'ok', 1], ['sync', 'raise', 2]], 'after': []},
    'raise-sync-after': {'before': [], 'after': [['sync', 'raise', 1]]},
    'raise-faf-before': {'before': [['faf', 'raise', 1]], 'after': [['faf', 'slow-raise', 2]]},
    'slow-sync-before': {'before': [['sync', 'slow', 1], ['faf', 'slow', 1]], 'after': []},
    'mixed': {'before': [['faf', 'raise', 1], ['sync', 'slow-raise', 3], ['sync', 'ok', 1]], 'after': [['sync', 'raise', 2]]},
}
PRESET_WEIGHTS = [('none', 4), ('healthy', 1), ('raise-sync-before', 3), ('raise-sync-before-some', 2), ('raise-sync-after', 1),
                  ('raise-faf-before', 1), ('slow-sync-before', 1), ('mixed', 2)]


def pick_preset(rng):
    return rng.choices([n for n, _ in PRESET_WEIGHTS], [w for _, w in PRESET_WEIGHTS])[0]


def _define_handlers(core_events):
    """VerifSyncHandler / VerifFafHandler become attributes of this module so that core.events.init() can load them by path"""
    class _Base(core_events.Handler):
        def __init__(self, name=None, mode='ok', period=1):
            super().__init__(name)
            self.mode, self.period, self.count = mode, int(period), 0

        async def handle_event(self, event):
            self.count += 1
            if self.mode.startswith('slow'):
                await asyncio.sleep(0)
                await asyncio.sleep(0)
            if self.mode.endswith('raise') and self.count % self.period == 0:
                raise ConnectionError('verif: backend unreachable')

    class VerifSyncHandler(_Base):
        FIRE_AND_FORGET = False

    class VerifFafHandler(_Base):
        FIRE_AND_FORGET = True

    globals()['VerifSyncHandler'] = VerifSyncHandler
    globals()['VerifFafHandler'] = VerifFafHandler


async def install_handlers(impl, hcfg):
    """register the configured handlers and the sessions handler in start-up order"""
    cfg = HANDLER_PRESETS[hcfg] if isinstance(hcfg, str) else hcfg
    handlers, sessions = impl.handlers, impl.sessions
    handlers._registered_handlers[:] = []
    handlers._enabled = True

    def driver(kind):
        return __name__ + ('.VerifSyncHandler' if kind == 'sync' else '.VerifFafHandler')
    saved = impl.settings.event_handlers
    impl.settings.event_handlers = [
        {'driver': driver(k), 'name': 'verif-before-%d' % n, 'mode': m, 'period': p} for n, (k, m, p) in enumerate(cfg['before'])]
    try:
        await impl.core_events.init()
    finally:
        impl.settings.event_handlers = saved
    if len(handlers._registered_handlers) != len(cfg['before']):
        raise RuntimeError('core.events.init() did not load the configured handlers')
    await sessions.init()
    for n, (k, m, p) in enumerate(cfg['after']):
        cls = globals()['VerifSyncHandler' if k == 'sync' else 'VerifFafHandler']
        impl.core_events.register_handler(cls('verif-after-%d' % n, m, p))


async def drive(impl, cap, trace, info=None, hcfg='none'):
    """run one trace against the real code.  trace items: ['T', cls, obj] | ['L', sid, level, timeout, now, via_api] | ['K', now]
    -> (outs [(step, rid, [event ids])], final [(sid, [queue ids], level, rid|None, accessed, timeout)], problems [str])"""
    sessions, handlers = impl.sessions, impl.handlers
    classes = impl.classes()
    sessions._sessions_by_id.clear()
    await install_handlers(impl, hcfg)
    impl.settings.core.event_queue_size = cap
    impl.clock.now = 0
    loop = asyncio.get_running_loop()

    outs, problems = [], []
    ev_id = {}        # id(event object) -> trace position
    keep = []         # keep objects alive so that id() stays unique
    fut_rid = {}      # id(future) -> rid
    delivered = {}    # rid -> list of event objects
    cur = {'step': 0}
    api_tasks = []    # (rid, task)
    stats = info if info is not None else {}

    def record(rid, objs):
        ids = []
        for o in objs:
            if id(o) not in ev_id:
                problems.append('step %d: answer to %d contains an object that was never triggered: %r' % (cur['step'], rid, o))
                ids.append(10 ** 6)
            else:
                ids.append(ev_id[id(o)])
        delivered[rid] = list(objs)
        outs.append((cur['step'], rid, ids))

    def snapshot(fut):
        try:
            r = fut.result()
            return list(copy.copy(r)) if not isinstance(r, (list, tuple)) else list(r)
        except Exception as e:  # cancelled / exception set
            problems.append('step %d: listen future failed: %r' % (cur['step'], e))
            return []

    def wrapped_reset(self, timeout, access_level):
        rid = cur['step']
        stats.setdefault('reset_args', []).append((self.id, timeout, access_level))
        fut = impl.orig_reset(self, timeout, access_level)
        keep.append(fut)
        fut_rid[id(fut)] = rid
        if fut.done():
            objs = snapshot(fut)          # before the awaiting listen call consumes the one-shot `reversed` iterator
            loop.call_soon(record, rid, objs)
        else:
            fut.add_done_callback(lambda f: record(rid, snapshot(f)))
        return fut

    sessions.Session.reset_and_wait = wrapped_reset
    try:
        for i, st in enumerate(trace):
            cur['step'] = i
            if st[0] == 'T':
                c, kind = classes[st[1]]
                e = impl.make(c, kind, st[2])
                keep.append(e)
                ev_id[id(e)] = i
                before = {k: list(s.queue) for k, s in sessions._sessions_by_id.items()}
                await impl.core_events.trigger(e)
                for k, s in sessions._sessions_by_id.items():
                    gone = [o for o in before.get(k, []) if o not in s.queue]
                    for o in gone:
                        if type(o) is type(e):
                            stats['dedup'] = stats.get('dedup', 0) + 1
                        else:
                            stats['overflow'] = stats.get('overflow', 0) + 1
            elif st[0] == 'L':
                _, sid, level, timeout, now, via_api = st
                impl.clock.now = now
                s0 = sessions._sessions_by_id.get(sid_str(sid))
                if s0 is not None and s0.access_level > level:
                    stats['lowered'] = stats.get('lowered', 0) + 1
                if via_api:
                    n0 = len(stats.get('reset_args', []))
                    task = asyncio.ensure_future(impl.various.get_listen(FakeHandler(level, sid_str(sid), timeout)))
                    api_tasks.append((i, task))
                    await asyncio.sleep(0)
                    got = stats.get('reset_args', [])[n0:]
                    if got != [(sid_str(sid), timeout, level)]:
                        problems.append('step %d: get_listen called reset_and_wait with %r, expected %r'
                                        % (i, got, [(sid_str(sid), timeout, level)]))
                else:
                    sessions.get(sid_str(sid)).reset_and_wait(timeout, level)
            elif st[0] == 'K':
                impl.clock.now = st[1]
                n0 = len(sessions._sessions_by_id)
                sessions.update()
                if len(sessions._sessions_by_id) < n0:
                    stats['expired'] = stats.get('expired', 0) + 1
            elif st[0] == 'D':
                impl.core_events.disable()
            elif st[0] == 'E':
                impl.core_events.enable()
            elif st[0] in ('P', 'S'):
                # the real backup-restore API functions: they switch event handling off, must switch it on again whether
                # they succeed or fail, and trigger a full-update when they succeed
                params = copy.deepcopy(RESTORE_PARAMS[st[0]][st[1]])
                try:
                    await impl.restore[st[0]](FakeHandler(30, 'restore', 60), params)
                    went = 'ok'
                except impl.APIError:
                    went = 'bad'
                if went != ('ok' if st[1].startswith('ok') else 'bad'):
                    problems.append('step %d: %s %s %s' % (i, st[0], st[1], 'failed' if went == 'bad' else 'did not fail'))
                stats['restore'] = stats.get('restore', 0) + 1
                # event objects created inside the call (the full-update) are named after this step
                for s in sessions._sessions_by_id.values():
                    for o in s.queue:
                        if id(o) not in ev_id:
                            ev_id[id(o)] = i
                            keep.append(o)
            else:
                raise ValueError('bad trace item %r' % (st,))
            for _ in range(3):
                await asyncio.sleep(0)
            if st[0] == 'K' and any(not o[2] for o in outs if o[0] == i):
                stats['keepalive'] = stats.get('keepalive', 0) + 1
        # the API listen calls that were answered: the JSON body must be the delivered events, in order
        for rid, task in api_tasks:
            if rid in delivered:
                if not task.done():
                    problems.append('listen call %d was answered but get_listen did not return' % rid)
                    continue
                try:
                    body = task.result()
                    want = [await o.to_json() for o in delivered[rid]]
                    if body != want:
                        problems.append('get_listen body of call %d is %r, delivered events are %r' % (rid, body, want))
                except Exception as e:
                    problems.append('get_listen of call %d raised %r' % (rid, e))
            elif task.done():
                problems.append('get_listen of call %d returned without an answer being recorded: %r' % (rid, task))
        final = []
        for k, s in sessions._sessions_by_id.items():
            m = re.fullmatch(r'sess-(\d+)', k)
            q = [ev_id.get(id(o), 10 ** 6) for o in s.queue]
            rid = fut_rid.get(id(s.future)) if s.future is not None else None
            if s.future is not None and rid is None:
                problems.append('session %s has a future the harness did not see' % k)
            acc, tmo = s.accessed, s.timeout
            if any(float(x) != int(x) for x in (acc, tmo, s.access_level)):
                problems.append('session %s has non-integer fields' % k)
            final.append((int(m.group(1)) if m else -1, q, int(s.access_level), rid, int(acc), int(tmo)))
    finally:
        sessions.Session.reset_and_wait = impl.orig_reset
        for _rid, task in api_tasks:
            if not task.done():
                task.cancel()
        for task in list(handlers._active_handle_tasks):
            if not task.done():
                task.cancel()
        for _ in range(3):
            await asyncio.sleep(0)
        for task in list(handlers._active_handle_tasks):
            if task.done() and not task.cancelled():
                task.exception()     # retrieved: no "never retrieved" noise at exit
        handlers._active_handle_tasks.clear()
        sessions._sessions_by_id.clear()
        handlers._registered_handlers[:] = []
        impl.settings.core.event_queue_size = impl.default_queue_size
    return outs, final, problems


def run_impl(impl, cap, trace, info=None, hcfg='none'):
    try:
        return asyncio.run(drive(impl, cap, trace, info, hcfg))
    except Exception as e:
        return [], [], ['implementation raised %s: %s' % (type(e).__name__, e)]


# ---------------------------------------------------------------------------------------------------------------------
# Coq side

def coq_event(st):
    if st[0] == 'T':
        return 'T %s %s' % (coq.z(st[1]), coq.z(st[2]))
    if st[0] == 'L':
        return 'Listen %s %s %s %s' % (coq.z(st[1]), coq.z(st[2]), coq.z(st[3]), coq.z(st[4]))
    return 'Tick %s' % coq.z(st[1])


def coq_case(cap, trace, outs, final):
    evs, pos = expand(trace)

    def at(i):
        return pos[i] if 0 <= i < len(pos) else 10 ** 6
    return 'C %s %s %s %s' % (
        coq.z(cap),
        coq.lst(evs),
        coq.lst(outs, lambda o: 'O %s %s %s' % (coq.z(at(o[0])), coq.z(at(o[1])), coq.zlist([at(x) for x in o[2]]))),
        coq.lst(final, lambda s: 'S %s %s %s %s %s %s' % (
            coq.z(s[0]), coq.zlist([at(x) for x in s[1]]), coq.z(s[2]), coq.option(None if s[3] is None else at(s[3]), coq.z),
            coq.z(s[4]), coq.z(s[5]))),
    )


def coq_table(rows):
    shapes = dict(eventtable.SHAPES, other='DupNever')
    return 'Definition tbl : list evclass := %s.\n' % coq.lst(
        rows, lambda r: 'mk_evclass %s %s %s' % (coq.string(r['type']), coq.z(r['required']), shapes[r['dup']]))


HEADER_FULL = 'From QT Require Import C11.Run.\nOpen Scope Z_scope.\n'
HEADER_SPEC = 'From QT Require Import C11.SpecRun.\nOpen Scope Z_scope.\n'


def vo_ok(rel):
    return bool(coq.compiled([rel]))


def evaluate(ctx, rows, cases, name, want_model=True):
    """cases: [(cap, trace, outs, final)] -> (bad_model set|None, kinds list|None, errors [str])"""
    have_model = want_model and vo_ok('theories/C11/Run.v') and vo_ok('theories/Gen/C11Gen.v')
    have_spec = vo_ok('theories/C11/SpecRun.v')
    if not have_spec:
        return None, None, ['specification oracle (C11/SpecRun.v) is not built']
    header = HEADER_FULL if have_model else HEADER_SPEC
    evals = (['bad_model cases'] if have_model else []) + ['spec_kinds tbl cases']
    shards, spans = [], []
    for i in range(0, len(cases), 500):
        chunk = cases[i:i + 500]
        shards.append(coq_table(rows) + 'Definition cases : list case := [\n  %s].\n' % ';\n  '.join(
            coq_case(*c) for c in chunk))
        spans.append((i, len(chunk)))
    res = coq.eval_shards(ctx.workdir, name, header, shards, evals, jobs=2)
    bad_model = set() if have_model else None
    kinds = [0] * len(cases)
    errors = []
    for (rc, lists, err), (off, n) in zip(res, spans):
        if rc != 0 or len(lists) != len(evals) or len(lists[-1]) != n:
            errors.append('coqc failed on a case shard: %s' % err[-600:])
            continue
        if have_model:
            bad_model.update(off + j for j in lists[0])
        for j, k in enumerate(lists[-1]):
            kinds[off + j] = k
    return bad_model, kinds, errors


def expected_text(ctx, rows, case):
    """the specified answers per session, as printed by Coq (for the replay file)"""
    body = coq_table(rows) + 'Definition c : case := %s.\n' % coq_case(*case)
    path = os.path.join(ctx.workdir, 'c11expected.v')
    with open(path, 'w') as f:
        f.write(HEADER_SPEC + body + 'Eval vm_compute in (expected tbl c).\n')
    _rc, out, _err = coq.run_coqc_file(path)
    m = re.search(r'=\s*(.*?)\s*:\s*list', out.replace('\n', ' '))
    return re.sub(r'%\w+', '', re.sub(r'\s+', ' ', m.group(1))) if m else None


# ---------------------------------------------------------------------------------------------------------------------
# generation

def gen_trace(rng, ncls, weights, max_len=50):
    nsess = rng.randint(1, SID_COUNT)
    r = rng.random()
    cap = 4 if r < 0.55 else rng.choice([1, 2, 3, 8, 1024])
    n = rng.randint(1, max_len)
    clock = 0
    timeouts = rng.choice([[1], [1, 2, 5], [1, 5, 60], [2, 60]])
    p_trigger = rng.choice([0.4, 0.55, 0.7])
    p_listen = rng.choice([0.5, 0.65, 0.8])
    nobj = rng.randint(1, 3)
    admin = rng.random() < 0.5        # other requests switch event handling off and on / restore backups in this history
    trace = []
    for _ in range(n):
        r = rng.random()
        a = rng.random() if admin else 1.0
        if a < 0.03:
            trace.append(['D'])
        elif a < 0.08:
            trace.append(['E'])
        elif a < 0.14:
            trace.append([rng.choice('PPS'), rng.choice(['ok', 'ok2', 'bad', 'bad'])])
        elif r < p_trigger:
            trace.append(['T', rng.choices(range(ncls), weights)[0], rng.randrange(nobj)])
        elif r < p_trigger + (1 - p_trigger) * p_listen:
            if rng.random() < 0.3:
                clock += rng.choice([0, 1, 1, 2, 7])
            level = rng.choice([10, 10, 20, 30, 30, 30, 0]) if rng.random() < 0.9 else rng.choice(LEVELS)
            timeout = rng.choice(timeouts) if rng.random() < 0.97 else 0
            via_api = level >= 10 and 1 <= timeout <= 3600 and rng.random() < 0.5
            trace.append(['L', rng.randrange(nsess), level, timeout, clock, via_api])
        else:
            step = rng.choice([0, 1, 1, 1, 2, 2, 3, 6, 11, 21, 51, 61, 601])
            if rng.random() < 0.03:
                step = -rng.choice([1, 5, 100])
            clock += step
            trace.append(['K', clock])
    return cap, trace


def class_weights(rows):
    return [3 if r['dup'] != 'never' else 2 if r['required'] > 10 else 1 for r in rows]


def small_scope(rows, max_len):
    """all traces of <= max_len letters over 2 sessions, cap 2.  Alphabet: 3 triggers, 4 listens, 2 ticks."""
    def idx(t):
        return next(i for i, r in enumerate(rows) if r['type'] == t)
    try:
        trig = [('T', idx('port-update'), 0), ('T', idx('device-update'), 0), ('T', idx('value-change'), 0)]
    except StopIteration:
        trig = [('T', i, 0) for i in range(min(3, len(rows)))]
    letters = trig + [('L', s, l) for s in (0, 1) for l in (10, 30)] + [('K', 2), ('K', 25)]
    out = []

    def build(word):
        clock, trace = 0, []
        for x in word:
            if x[0] == 'T':
                trace.append(['T', x[1], x[2]])
            elif x[0] == 'L':
                trace.append(['L', x[1], x[2], 1, clock, False])
            else:
                clock += x[1]
                trace.append(['K', clock])
        return trace

    def rec(word):
        if word:
            out.append((2, build(word)))
        if len(word) < max_len:
            for x in letters:
                rec(word + [x])
    rec([])
    return out


# ---------------------------------------------------------------------------------------------------------------------
# check

def describe(rows, trace):
    parts = []
    for i, st in enumerate(trace):
        if st[0] == 'T':
            parts.append('%d:Trigger(%s,obj%d)' % (i, rows[st[1]]['type'], st[2]))
        elif st[0] == 'L':
            parts.append('%d:Listen(sid=%d,level=%d,timeout=%d,now=%d%s)' % (i, st[1], st[2], st[3], st[4], ',api' if st[5] else ''))
        elif st[0] == 'K':
            parts.append('%d:Tick(now=%d)' % (i, st[1]))
        elif st[0] in ('D', 'E'):
            parts.append('%d:%s' % (i, 'core_events.disable()' if st[0] == 'D' else 'core_events.enable()'))
        else:
            parts.append('%d:%s(%s)%s' % (i, 'put_ports' if st[0] == 'P' else 'put_slave_devices',
                                          json.dumps(RESTORE_PARAMS[st[0]][st[1]]), '' if st[1].startswith('ok') else '->400'))
    return ' ; '.join(parts)


def classify(rows, trace, outs, kind):
    """key of a violation, computed from the (shrunk) trace and the observed answers"""
    if kind == 1:
        for step, rid, ids in outs:
            lvl = trace[rid][2] if rid < len(trace) and trace[rid][0] == 'L' else None
            for eid in ids:
                if eid < len(trace) and trace[eid][0] == 'T' and lvl is not None and rows[trace[eid][1]]['required'] > lvl:
                    sid = trace[rid][1]
                    prev = [t for t in trace[:eid] if t[0] == 'L' and t[1] == sid]
                    queued_level = prev[-1][2] if prev else None
                    cause = ('queued-under-previous-higher-level'
                             if queued_level is not None and queued_level >= rows[trace[eid][1]]['required'] and rid > eid
                             else 'other')
                    return {'kind': 'level-safety', 'cause': cause, 'event_type': rows[trace[eid][1]]['type'],
                            'required': rows[trace[eid][1]]['required'], 'request_level': lvl}
        return {'kind': 'level-safety', 'cause': 'malformed-answer'}
    return {'kind': 'delivery'}


def still_fails(ctx, impl, rows, cap, trace, kind, hcfg):
    outs, final, _p = run_impl(impl, cap, trace, None, hcfg)
    _bm, kinds, errors = evaluate(ctx, rows, [(cap, trace, outs, final)], 'c11probe', want_model=False)
    return bool(kinds) and not errors and kinds[0] == kind


def shrink(ctx, impl, rows, cap, trace, kind, budget=14, hcfg='none'):
    """delete events while the implementation still contradicts the specification in the same way"""
    best = trace
    for _round in range(budget):
        n = len(best)
        cands = []
        for k in range(1, n):
            cands.append(best[:k])
        size = max(1, n // 2)
        while size >= 1:
            for a in range(0, n, size):
                c = best[:a] + best[a + size:]
                if c and c not in cands:
                    cands.append(c)
            size //= 2
        if not cands:
            break
        cases = []
        for c in cands:
            outs, final, problems = run_impl(impl, cap, c, None, hcfg)
            cases.append((cap, c, outs, final))
        _bm, kinds, errors = evaluate(ctx, rows, cases, 'c11shrink', want_model=False)
        if kinds is None or errors:
            break
        failing = [c for c, k in zip(cands, kinds) if k == kind]
        if not failing:
            break
        new = min(failing, key=len)
        if len(new) >= len(best):
            break
        best = new
    return best


def load_corpus():
    out = []
    for path in sorted(glob.glob(os.path.join(coq.VERIF, 'corpus', ID, '*.json'))):
        with open(path) as f:
            d = json.load(f)
        out.append((int(d['cap']), [list(x) for x in d['trace']], os.path.basename(path), d.get('handlers', 'none')))
    return out


def cross_check(ctx, res, rows):
    """translator output against the imported objects"""
    info = getattr(ctx, 'c11_table', None)
    impl = Impl.get()
    for r in rows:
        if r['dup'] == 'other':
            res['tie_failures'].append('%s.is_duplicate does not behave like never / same class / same class and object '
                                       '(probed on instances)' % r['class'])
    if info is None:
        res['tie_failures'].append('translator gave no table; falling back to run-time introspection for the oracle '
                                   '(tie: runtime-introspection)')
        res['extra']['tie_kind'] = 'runtime-introspection'
        return
    a = [(r['class'], r['module'], r['type'], r['required'], r['dup']) for r in info['table']]
    b = [(r['class'], r['module'], r['type'], r['required'], r['dup']) for r in rows]
    if a != b:
        res['tie_failures'].append({'note': 'translated event table differs from the imported classes',
                                    'translated': a, 'imported': b})
    if info['queue_size'] != impl.default_queue_size:
        res['tie_failures'].append('translated event_queue_size %r != settings.core.event_queue_size %r'
                                   % (info['queue_size'], impl.default_queue_size))
    if info['expiry_factor'] != impl.sessions.SESSION_EXPIRY_FACTOR:
        res['tie_failures'].append('translated SESSION_EXPIRY_FACTOR %r != imported %r'
                                   % (info['expiry_factor'], impl.sessions.SESSION_EXPIRY_FACTOR))
    if impl.sessions.SessionsEventHandler.FIRE_AND_FORGET is not False:
        res['tie_failures'].append('SessionsEventHandler.FIRE_AND_FORGET is not False: dispatch is no longer synchronous')
    res['extra']['tie_kind'] = 'translator+correspondence'


def run_cases(ctx, res, cases, label, rows, report_limit=3):
    """cases: [(cap, trace, tag[, handler preset])]"""
    impl = Impl.get()
    observed = []
    dist = res['distribution']
    nontrivial = set()
    cases = [c if len(c) > 3 else tuple(c) + ('none',) for c in cases]
    for cap, trace, tag, hcfg in cases:
        info = {}
        outs, final, problems = run_impl(impl, cap, trace, info, hcfg)
        observed.append((cap, trace, outs, final))
        for p in problems[:3]:
            if len(res['tie_failures']) < 40:
                res['tie_failures'].append({'note': 'implementation run: ' + p, 'cap': cap, 'trace': describe(rows, trace),
                                            'handlers': hcfg})
        dist['traces'] = dist.get('traces', 0) + 1
        dist['handlers:%s' % hcfg] = dist.get('handlers:%s' % hcfg, 0) + 1
        dist['events'] = dist.get('events', 0) + len(trace)
        for st in trace:
            k = {'T': 'op:trigger', 'L': 'op:listen', 'K': 'op:tick', 'D': 'op:disable', 'E': 'op:enable',
                 'P': 'op:put_ports', 'S': 'op:put_slave_devices'}[st[0]]
            if st[0] in 'PS':
                k += ':' + ('ok' if st[1].startswith('ok') else 'fails')
            dist[k] = dist.get(k, 0) + 1
            if st[0] == 'L' and st[5]:
                dist['listen_via_get_listen'] = dist.get('listen_via_get_listen', 0) + 1
        b = 'len:%02d-%02d' % (len(trace) // 10 * 10, len(trace) // 10 * 10 + 9)
        dist[b] = dist.get(b, 0) + 1
        dist['cap:%d' % cap] = dist.get('cap:%d' % cap, 0) + 1
        for k in ('dedup', 'overflow', 'lowered', 'expired', 'keepalive'):
            if info.get(k):
                dist['traces_with_' + k] = dist.get('traces_with_' + k, 0) + 1
        ndeliv = sum(1 for o in outs if o[2])
        dist['answers'] = dist.get('answers', 0) + len(outs)
        dist['answers_nonempty'] = dist.get('answers_nonempty', 0) + ndeliv
        dist['events_delivered'] = dist.get('events_delivered', 0) + sum(len(o[2]) for o in outs)
        sids = [st[1] for st in trace if st[0] == 'L']
        if ndeliv >= 1 and len(sids) > len(set(sids)):
            nontrivial.add(json.dumps([cap, trace]))
        if len(res['samples']) < 6 and len(trace) <= 14 and ndeliv:
            res['samples'].append({'cap': cap, 'trace': describe(rows, trace), 'answers': outs,
                                   'final_sessions': final})
    res['evaluations'] += len(cases)
    res['distinct_nontrivial'] += len(nontrivial)
    bad_model, kinds, errors = evaluate(ctx, rows, observed, 'c11' + label)
    for e in errors:
        res['tie_failures'].append(e)
    if kinds is None:
        return
    if bad_model is None:
        res['tie_failures'].append('model (C11/Run.v with Gen/C11Gen.v) is not built; answers compared with the specification only')
    else:
        for j in sorted(bad_model)[:report_limit]:
            cap, trace, outs, final = observed[j]
            res['tie_failures'].append({'note': 'model differs from implementation (answers or final state)', 'cap': cap,
                                        'trace': describe(rows, trace), 'answers': outs, 'final_sessions': final,
                                        'source': cases[j][2], 'handlers': cases[j][3]})
        if bad_model:
            dist['model_mismatches'] = dist.get('model_mismatches', 0) + len(bad_model)
    bad = [j for j, k in enumerate(kinds) if k]
    if bad:
        dist['spec_contradictions'] = dist.get('spec_contradictions', 0) + len(bad)
    # one report per kind, the shortest trace of each, shrunk
    for kind in (1, 2):
        js = [j for j in bad if kinds[j] == kind]
        if not js:
            continue
        if any(v['key'].get('kind') == ('level-safety' if kind == 1 else 'delivery') for v in res['violations']):
            continue
        j = min(js, key=lambda j: len(observed[j][1]))
        cap, trace, outs, final = observed[j]
        hcfg = cases[j][3]
        if hcfg != 'none' and still_fails(ctx, impl, rows, cap, trace, kind, 'none'):
            hcfg = 'none'      # the other handlers have nothing to do with it
        small = shrink(ctx, impl, rows, cap, trace, kind, hcfg=hcfg)
        outs, final, _p = run_impl(impl, cap, small, None, hcfg)
        key = classify(rows, small, outs, kind)
        if hcfg != 'none':
            key['handlers'] = hcfg
        exp = None
        try:
            exp = expected_text(ctx, rows, (cap, small, outs, final))
        except Exception:
            pass
        what = ('level safety: a listen answer contains an event above the level of the request'
                if kind == 1 else 'delivery: the answers differ from the specified ones (content / order / step)')
        res['violations'].append({
            'key': key,
            'what': '%s. cap=%d other event handlers: %s ; trace: %s ; observed answers (step, request, event ids): %s'
                    % (what, cap, hcfg if hcfg == 'none' else '%s %s' % (hcfg, json.dumps(HANDLER_PRESETS[hcfg])),
                       describe(rows, small), outs),
            'case': {'cap': cap, 'trace': small, 'handlers': hcfg, 'event_types': [r['type'] for r in rows],
                     'original_length': len(trace), 'source': cases[j][2], 'count_in_this_batch': len(js)},
            'expected': {'answers_per_session (sid, [(step, request, event ids)])': exp},
            'observed': {'answers': outs, 'final_sessions': final},
        })


def _prepare(ctx, res):
    impl = Impl.get()
    rows = impl.runtime_table()
    fu = [i for i, r in enumerate(rows) if r['type'] == 'full-update']
    if len(fu) == 1:
        FULL_UPDATE['cls'] = fu[0]
    else:
        res['tie_failures'].append('no full-update class in the event table: restore calls cannot be modelled')
    return impl, rows


def check(ctx, res):
    res['rule'] = (
        'random traces of 1-50 events over 1-4 session ids: Trigger of every concrete event class (update classes and '
        'admin-only classes weighted up, 1-3 objects), Listen with level in {0,10,20,30} and timeout in {0,1,2,5,60} (half '
        'through the API function get_listen), Tick with clock steps 0..601 s (3% backwards); event_queue_size 4 in 55% of '
        'the traces, else 1/2/3/8/1024; every trace runs under one of 8 configurations of *other* event handlers (none / healthy / '
        'raising or slow, synchronous or fire-and-forget, configured before the sessions handler through settings.event_handlers + '
        'core.events.init() as at start-up, or registered after it) - the expected answers do not depend on it; in half of the '
        'traces other requests interleave: core_events.disable() / enable() (3% / 5% of the steps) and the real API functions '
        'put_ports / put_slave_devices with accepted and with malformed bodies (6%; for the sessions: disable, enable, and a '
        'full-update when accepted). '
        'distinct = distinct (cap, trace); non-trivial = at least one non-empty answer and two listens on the same session id'
    )
    impl, rows = _prepare(ctx, res)
    cross_check(ctx, res, rows)
    res['extra']['event_table'] = [[r['class'], r['type'], r['required'], r['dup']] for r in rows]
    if ctx.replay:
        with open(ctx.replay) as f:
            d = json.load(f)
        c = d.get('case', d)
        run_cases(ctx, res, [(int(c['cap']), [list(x) for x in c['trace']], 'replay', c.get('handlers', 'none'))], 'replay', rows)
        return
    corpus = load_corpus()
    if corpus:
        run_cases(ctx, res, corpus, 'corpus', rows)
    weights = class_weights(rows)
    n = ctx.n(2000, 100000)
    batch = 4000
    done = 0
    while done < n:
        k = min(batch, n - done)
        cases = [gen_trace(ctx.rng, len(rows), weights) + ('random', pick_preset(ctx.rng)) for _ in range(k)]
        run_cases(ctx, res, cases, 'rnd%d' % done, rows)
        done += k
        if res['violations'] and done >= 2000:
            break
    if ctx.tier == 'thorough' and not res['violations']:
        ss = small_scope(rows, 5)
        for i in range(0, len(ss), 6000):
            run_cases(ctx, res, [(c, t, 'small-scope', 'none' if n % 3 else 'mixed') for n, (c, t) in enumerate(ss[i:i + 6000])],
                      'ss%d' % i, rows)
        res['exhaustive'] = True
        res['extra']['small_scope'] = ('all %d traces of <= 5 letters over the alphabet {Trigger port-update / device-update / '
                                       'value-change, Listen sid in {0,1} x level in {10,30} (timeout 1), Tick +2 s, Tick +25 s}, '
                                       'cap 2' % len(ss))


def search(ctx, res):
    """a proof or a tie broke and check() found nothing: look harder (10x budget, short traces first, small scope)"""
    impl, rows = _prepare(ctx, res)
    weights = class_weights(rows)
    ss = small_scope(rows, 4)
    for preset in ('none', 'raise-sync-before', 'mixed'):
        run_cases(ctx, res, [(c, t, 'small-scope', preset) for c, t in ss], 'srch_ss_' + preset, rows)
        if res['violations']:
            return
    if res['violations']:
        return
    n = ctx.n(20000, 200000)
    done = 0
    while done < n and not res['violations']:
        cases = [gen_trace(ctx.rng, len(rows), weights, max_len=ctx.rng.choice([8, 20, 50])) + ('random', pick_preset(ctx.rng))
                 for _ in range(4000)]
        run_cases(ctx, res, cases, 'srch%d' % done, rows)
        done += 4000


REPLAY_HELP = ('bin/check C11 --replay <this file>   (or by hand, PYTHONPATH=/repo: case.handlers names an entry of HANDLER_PRESETS in '
               'harness/props/c11.py: its "before" handlers go to settings.event_handlers, then core.events.init(); sessions.init(); '
               'then register its "after" handlers; per item of case.trace: '
               '["T", k, obj] -> await core.events.trigger(<class number k of case.event_types>(fake port/slave obj)); '
               '["L", sid, level, timeout, now, _] -> sessions.get("sess-<sid>").reset_and_wait(timeout, level) with time.time() = now; '
               '["K", now] -> sessions.update() with time.time() = now; settings.core.event_queue_size = case.cap)')

LEVEL_TEXT = (
    'Coq theorems, for every trace of Trigger / Listen / Tick events of any length over any number of sessions, about an '
    'executable model of core/sessions.py instantiated with the event table, constants and the statement list of '
    'Session.reset_and_wait regenerated from the source on every run: no answer contains an event whose REQUIRED_ACCESS '
    'exceeds the level of the listen call it answers (C11_level_safety); per session the answers equal the specified ones - '
    'pending permitted events minus superseded updates minus the oldest beyond event_queue_size, in trigger order, each '
    'event at most once (C11_exactly_once_in_order, C11_trigger_order); after a Tick no waiting call has a pending event or '
    'an expired timeout and a Listen that finds deliverable events is answered at once (C11_prompt). The model is compared '
    'with the real module on random and exhaustive small-scope traces (answers and final state), the real module with the '
    'specification oracle.'
)
LEVEL_NOTE = (
    'Trusted: Coq kernel incl. vm_compute; translator eventtable.py (cross-checked against the imported classes by probing '
    'is_duplicate on instances); the correspondence harness (fake ports/slaves, controlled clock, observation wrapper around '
    'reset_and_wait). push / respond / update / handle_event are hand-modelled and tied by correspondence only; asyncio, '
    'tornado and the frontend event classes are outside. Interpretation of "caller\'s level" and of full-update supersession: '
    'see assumptions. No axioms.'
)
TECHNIQUE = ('Coq proof (invariants by induction over the trace, simulation between the queue model and a closed-form per-session '
             'specification) over a model regenerated by an ast translator and tied by trace correspondence under vm_compute')
