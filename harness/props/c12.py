"""C12 — the master's mirror of a slave's ports equals the slave's state after sync.

Theorems: coq/theories/Props/C12.v over the message-level model coq/theories/C12/Mirror.v (specification: C12/Spec.v).
Tie (C): harness/props/c12_worker.py drives the REAL Slave / SlavePort objects
  * step by step ("micro": handle_event, main.update, fetch_and_update_ports, _poll_once against the simulated slave) and the
    mirror state dumped after the steps is compared with the model by vm_compute (C12/Run.v bad_model);
  * end to end ("e2e": the slave added through post_slave_devices runs its listen loop / poll loop / receives pushed events on
    the virtual clock, with random latencies and unreachable intervals, while a script mutates the simulated device); at sync
    points GET /ports of the master is compared with the device's state and the master's value-change events with what the
    device delivered -- the specification oracle (C12/Run.v bad_spec; the same predicate in Python is used while shrinking).
Tie (T): harness/translate/slavesync.py reads MASTER_ATTRS (Gen/C12Gen.v, C12/GenOk.v).
This module also holds the machinery shared with C13 (script generators, Coq encoders, worker pool).
"""
import copy
import glob
import json
import os
import subprocess
import sys
from concurrent.futures import ThreadPoolExecutor

from harness.common import coq
from harness.props import simslave
from harness.translate import slavesync

ID = 'C12'
PROPS = 'theories/Props/C12.v'
MODEL_TARGETS = ['theories/C12/Run.vo']
TRANSLATORS = [slavesync.translate_c12]
TIE = ('correspondence: real Slave/SlavePort objects driven step by step against the simulated slave, mirror state vs the model '
       'by vm_compute; MASTER_ATTRS by translator; end-to-end listen / poll / push runs on the virtual clock against the '
       'specification oracle')
ALLOWED_AXIOMS = []
TRUSTED_BASE = [
    'harness/props/simslave.py (behaves like a qToggle device for the calls the master makes; applies tornado\'s body check; '
    'a request either fails before it reaches the device or its answer is delivered; no event is lost in transit)',
    'harness/common/vloop.py (virtual clock asyncio loop), harness/props/c12_worker.py (drivers, dumps of private fields '
    '_cached_attrs/_remote_value_queue/_cached_value/_provisioning), generators',
    'harness/translate/slavesync.py (MASTER_ATTRS)',
    'modelled, not verified: HTTP transport and JSON coding, api_call retries and throttling (ParallelCaller), the listen loop\'s '
    'and poll loop\'s online/offline bookkeeping (exercised end to end only), device renaming, firmware update, persistence of '
    'master-kept port attributes across removal and re-addition of a port',
]
ASSUMPTIONS = [
    '"processed everything the slave reported": at a sync point the device has been reachable long enough, nothing is in '
    'flight and every remote value queue of an enabled port is drained',
    'a listen answer / event push that cannot be delivered is not lost by the device (it is delivered later); answers reach the '
    'master in the order the device logged them (the simulation delivers at most one answer per virtual millisecond)',
    'value order is stated (and checked) for ports that are not removed and are enabled at the end, in listening and push mode; '
    'with polling only the state at sync points is compared',
    'the master itself does not write to the ports in C12 scripts (writes through the master are the subject of C13 while the '
    'slave is offline; concurrent online writes are outside, see notes/C12.md)',
    'attribute values of one attribute keep one JSON type (Python compares True == 1)',
]

VERIF = coq.VERIF
WORKERS = 4


# ----------------------------------------------------------------------------------------------------------------------
# worker pool

def run_worker(jobs, procs=WORKERS, timeout=1500):
    """-> results in job order"""
    if not jobs:
        return []
    procs = max(1, min(procs, len(jobs)))
    chunks = [jobs[i::procs] for i in range(procs)]
    env = dict(os.environ)
    env['PYTHONHASHSEED'] = '0'

    def one(chunk):
        p = subprocess.run([sys.executable, '-m', 'harness.props.c12_worker'], input=json.dumps(chunk), capture_output=True,
                           text=True, cwd=VERIF, env=env, timeout=timeout)
        if p.returncode != 0:
            return [{'errors': ['worker process failed: ' + p.stderr[-1500:]], 'crashed': True} for _ in chunk]
        return json.loads(p.stdout)

    with ThreadPoolExecutor(max_workers=procs) as ex:
        outs = list(ex.map(one, chunks))
    res = [None] * len(jobs)
    for k, out in enumerate(outs):
        for j, r in enumerate(out):
            res[k + j * procs] = r
    return res


# ----------------------------------------------------------------------------------------------------------------------
# generators

GAIN_DEF = {'type': 'number', 'modifiable': True, 'min': 0, 'max': 100, 'integer': True, 'display_name': 'Gain',
            'description': ''}


def gen_port(rng, pid):
    """a slave port; which optional attributes it carries varies (a read-only port has no expression, a slave without history
    support no history_*, ...)"""
    typ = rng.choice(['number', 'number', 'boolean'])
    writable = rng.random() < 0.7
    p = {'id': pid, 'display_name': rng.choice(['', 'Port ' + pid, 'x']), 'type': typ}
    if typ == 'number' and rng.random() < 0.8:
        p['unit'] = rng.choice(['', 'C', 'u'])
    p.update({'writable': writable, 'enabled': rng.random() < 0.85})
    if typ == 'number':
        r = rng.random()
        if r < 0.6:
            p.update({'min': 0, 'max': 100, 'integer': True})
        elif r < 0.75:
            p.update({'integer': True, 'choices': [{'value': v, 'display_name': 'Choice %d' % v} for v in (0, 25, 50, 100)]})
        elif r < 0.85:
            p.update({'min': 0, 'max': 100, 'integer': True, 'step': 1})
    if rng.random() < 0.8:
        p['tag'] = rng.choice(['', 'stag'])
    if writable:                                    # only writable ports have an expression
        p['expression'] = rng.choice(['', '', 'ADD(1, 2)'])
        if rng.random() < 0.3:
            p['transform_write'] = rng.choice(['', 'MUL($, 2)'])
    if rng.random() < 0.3:
        p['transform_read'] = rng.choice(['', 'ADD($, 1)'])
    p.update({'persisted': rng.random() < 0.3, 'internal': False})
    if rng.random() < 0.7:
        p['virtual'] = rng.random() < 0.2
    if rng.random() < 0.7:
        p['online'] = True
    if rng.random() < 0.45:                         # the slave has history support
        p['history_interval'] = rng.choice([0, 60, -1])
        p['history_retention'] = rng.choice([0, 3600])
    if rng.random() < 0.25:                         # the slave is itself a hub: its ports have device_* attributes of their own
        if 'expression' in p:
            p['device_expression'] = rng.choice(['SUB(9, 1)', 'own dev expr'])
        if 'history_interval' in p:
            p['device_history_interval'] = rng.choice([5, 7200])
            p['device_history_retention'] = rng.choice([11, 99])
    p['value'] = rand_value(rng, typ)
    p['pending_value'] = None
    if rng.random() < 0.6:
        p['definitions'] = {'gain': dict(GAIN_DEF)}
        p['gain'] = rng.randint(0, 100)
    else:
        p['definitions'] = {}
    return p


def rand_value(rng, typ):
    return rng.randint(0, 100) if typ == 'number' else rng.random() < 0.5


def rand_attr_change(rng, p):
    """a slave-side attribute change of port json p -> (name, value)"""
    names = ['display_name', 'enabled', 'persisted']
    if 'expression' in p:
        names.append('expression')
    if 'history_interval' in p:
        names += ['history_interval', 'history_retention']
    if 'unit' in p:
        names.append('unit')
    if 'gain' in p:
        names += ['gain', 'gain']
    n = rng.choice(names)
    v = {'display_name': lambda: rng.choice(['', 'a', 'b', 'Port', 'long name %d' % rng.randint(0, 9)]),
         'enabled': lambda: rng.random() < 0.6, 'expression': lambda: rng.choice(['', 'ADD(1, 2)', 'MUL(2, 3)']),
         'persisted': lambda: rng.random() < 0.5, 'unit': lambda: rng.choice(['', 'C', 'u', 'V']),
         'history_interval': lambda: rng.choice([0, 60, 300, -1]), 'history_retention': lambda: rng.choice([0, 3600, 86400]),
         'gain': lambda: rng.randint(0, 100)}[n]()
    return n, v


class SimState:
    """what the generator knows about the device while it writes a script"""
    def __init__(self, rng, nports):
        self.rng = rng
        self.ports = {}
        self.next = 1
        for _ in range(nports):
            self.new_port()
        self.removed = set()

    def new_port(self):
        pid = 'p%d' % self.next
        self.next += 1
        self.ports[pid] = gen_port(self.rng, pid)
        return self.ports[pid]


REMOVABLE_ATTRS = ('min', 'max', 'integer', 'step', 'choices', 'unit', 'tag', 'transform_read', 'transform_write',
                   'history_interval', 'history_retention', 'virtual', 'online')


def gen_slave_op(rng, st, protect=()):
    """one mutation of the device: -> op tail (without dt) or None"""
    r = rng.random()
    ids = list(st.ports)
    if r < 0.55 and ids:
        pid = rng.choice(ids)
        p = st.ports[pid]
        v = rand_value(rng, p['type'])
        p['value'] = v
        return ['sv', pid, v]
    if r < 0.78 and ids:
        pid = rng.choice(ids)
        p = st.ports[pid]
        n, v = rand_attr_change(rng, p)
        p[n] = v
        return ['sa', pid, n, v]
    if r < 0.80 and ids:             # the port starts reporting attributes it did not have (its attribute set changes)
        pid = rng.choice(ids)
        p = st.ports[pid]
        cands = []
        if 'history_interval' not in p:
            cands.append([('history_interval', 60), ('history_retention', 3600)])
        if 'expression' not in p:
            cands.append([('expression', 'ADD(3, 4)')])
        if p['type'] == 'number' and 'unit' not in p:
            cands.append([('unit', 'V')])
        if p['type'] == 'number' and 'min' not in p and 'choices' not in p:
            cands.append([('min', 0), ('max', 100)])
        if 'device_expression' not in p and 'expression' in p:
            cands.append([('device_expression', 'own dev expr 2')])
        if cands:
            n, v = rng.choice(rng.choice(cands))
            p[n] = v
            return ['sa', pid, n, v]
    if r < 0.82 and ids:             # an optional attribute disappears from a port
        pid = rng.choice(ids)
        p = st.ports[pid]
        names = [n for n in REMOVABLE_ATTRS if n in p and 'device_' + n not in p]
        if names:
            n = rng.choice(names)
            p.pop(n)
            return ['sdel', pid, n]
    if r < 0.86 and len(ids) < 4:
        return ['sadd', copy.deepcopy(st.new_port())]
    if r < 0.92 and len(ids) > 1:
        cands = [i for i in ids if i not in protect]
        if cands:
            pid = rng.choice(cands)
            st.ports.pop(pid)
            st.removed.add(pid)
            return ['srm', pid]
    if r < 0.97:
        return ['sd', 'display_name', rng.choice(['', 'Dev', 'Device %d' % rng.randint(0, 5)])]
    return ['sfull']


def gen_master_write(rng, st):
    """a value written through the master (PATCH /ports/<slave>.<id>/value) to a port of the online slave; the device applies
    it at once (204), or answers 202 and applies it later, or never.  Nothing else happens 2.5 s before and after: a value-change
    crossing the answer of the write on the wire is outside C12's scripts (notes/C12.md)"""
    cands = [i for i, p in st.ports.items() if p['writable'] and p['enabled']]
    if not cands:
        return []
    pid = rng.choice(cands)
    p = st.ports[pid]
    v = rand_value(rng, p['type'])
    r = rng.random()
    ops = [[2500, 'wait']]
    after = 2500
    if r < 0.25:
        ops.append([0, 'slow', pid, ['never']])
    elif r < 0.5:
        ms = rng.choice([200, 1000, 3000])
        ops.append([0, 'slow', pid, ['later', ms]])
        after += ms
        p['value'] = v
    else:
        p['value'] = v
    ops.append([0, 'mv', pid, v])
    ops.append([after, 'wait'])
    if r < 0.5:
        ops.append([0, 'slow', pid, None])
    return ops


def gen_cancellations(rng, job):
    """twice: a command on the master (PATCH /devices/<name>) that cancels the task awaiting an API call to the slave while the
    request is in flight, then the opposite command.  Afterwards the slave must be mirrored as before"""
    ops = []
    for _ in range(2):
        if job['mode'] == 'poll':
            off, on = rng.choice([({'enabled': False}, {'enabled': True}), ({'poll_interval': 0}, {'poll_interval': job['poll']})])
            ops.append([rng.choice([0, 500]), 'at', {'m': 'GET', 'p': rng.choice(['/ports', '/device'])}, ['mp', off]])
            ops.append([job['poll'] * 1000 + 5000, 'mp', on])
            ops.append([3000, 'wait'])
        else:       # listening: cancel the refresh of a reconnect
            ops.append([500, 'down', 'refused'])
            ops.append([30000, 'at', {'m': 'GET', 'p': rng.choice(['/ports', '/device'])}, ['mp', {'enabled': False}]])
            ops.append([0, 'up'])
            ops.append([15000, 'mp', {'enabled': True}])
            ops.append([5000, 'wait'])
    return ops


def gen_e2e(rng, mode=None):
    """a C12 script: device mutations, outages, sync points"""
    mode = mode or rng.choice(['listen', 'listen', 'poll', 'push'])
    st = SimState(rng, rng.randint(1, 3))
    job = {'kind': 'e2e', 'mode': mode, 'poll': rng.choice([1, 2, 3]),
           'flags': ['listen'] + (['webhooks'] if rng.random() < 0.2 else []) + (['reverse'] if rng.random() < 0.1 else []),
           'lat': [rng.choice([1, 3, 10, 30, 100, 300, 800]) for _ in range(rng.randint(1, 6))],
           'ports': [copy.deepcopy(p) for p in st.ports.values()], 'ops': []}
 # a second slave whose name starts with the first one's name (dev1 / dev10): same port ids, its own values
    second = None
    if mode != 'push' and rng.random() < 0.15:
        st2 = SimState(rng, rng.randint(1, 3))
        second = job['second'] = {'name': rng.choice(['dev10', 'dev1x', 'dev1_b']), 'ports': [copy.deepcopy(p) for p in st2.ports.values()]}
    ops = job['ops']
    n = rng.randint(4, 28)
    down = False
    clean = True                 # no outage since the last sync point: the master is online
    burst = rng.random() < 0.4
    cancels = mode != 'push' and rng.random() < 0.25
    for _ in range(n):
        r = rng.random()
        dt = rng.choice([0, 0, 1, 20, 60, 300, 1500]) if burst else rng.choice([0, 50, 400, 2000, 6000])
        if mode != 'push' and not down and r < 0.08:
            ops.append([dt, 'down', rng.choice(simslave.FAULTS)])
            down = True
            clean = False
            ops.append([rng.choice([2000, 8000, 30000, 45000, 70000, 130000]), 'wait'])
        elif down and r < 0.25:
            ops.append([dt, 'up'])
            down = False
        elif not down and r < 0.16:
            ops.append([dt, 'sync'])
            clean = True
        elif clean and mode != 'push' and r < 0.26:
            if cancels and rng.random() < 0.5:
                cancels = False
                ops.extend(gen_cancellations(rng, job))
                ops.append([3000, 'sync'])
            else:
                ops.extend(gen_master_write(rng, st))
        elif not down and r < 0.29 and st.ports:
            ids = [i for i, p in st.ports.items() if p['enabled']]
            if mode == 'listen' and ids and rng.random() < 0.5:
                # many value changes of one port in a row: they reach the master in one or two answers, far faster than it reads
                pid = rng.choice(ids)
                k = rng.choice([140, 200, 260])
                ops.append([dt, 'svburst', pid, k, rng.randint(0, 50)])
                ops.append([k * 50 + 2000, 'wait'])
                st.ports[pid]['value'] = None          # (whatever the burst ends with; the generator does not need it)
            elif ids and len(st.ports) < 4:
                # a resync that already brings a port whose port-add is still queued, with further events behind it
                pid = rng.choice(ids)
                v = rand_value(rng, st.ports[pid]['type'])
                st.ports[pid]['value'] = v
                # (the port appears on the device just before it answers the GET /ports of the resync; the changes of the other
                # port come after that answer and before the master's next listen call)
                ops.append([dt, 'at', {'m': 'GET', 'p': '/ports'}, ['sadd', copy.deepcopy(st.new_port())]])
                ops.append([0, 'sfull'])
                ops.append([rng.choice([300, 800, 1700, 3000]), 'sv', pid, v])
                ops.append([rng.choice([0, 100]), 'sa', pid, 'display_name', 'after %d' % rng.randint(0, 9)])
                st.ports[pid]['display_name'] = ops[-1][4]
        elif second is not None and r < 0.40:
            p2 = rng.choice(second['ports'])
            if p2['enabled']:
                ops.append([dt, 'sv2', p2['id'], rand_value(rng, p2['type'])])
        else:
            op = gen_slave_op(rng, st)
            if op and op[0] == 'sdel' and mode == 'poll' and not down:
                # alone in a poll interval: nothing else changes on the device between two polls
                w = job['poll'] * 1000 + 2500
                ops.extend([[w, 'wait'], [0] + op, [w, 'wait']])
            elif op:
                ops.append([dt] + op)
    ops.append([rng.choice([0, 100, 3000]), 'up'])
    ops.append([0, 'sync'])
    if len(job['ports']) >= 2 and rng.random() < 0.3:
        job['refs'] = True           # the device shares equal "definitions" objects through JSON references in GET /ports
    if rng.random() < 0.08:          # a failed restore of the slave devices before this slave is added
        job['pre_restore'] = rng.choice([[{'scheme': 'http'}], [{'scheme': 'http', 'host': 'sim', 'port': 'eighty', 'path': '/'}]])
    return job


# ----------------------------------------------------------------------------------------------------------------------
# micro scripts (model tie)

def gen_micro(rng, poll=None):
    poll = (rng.random() < 0.35) if poll is None else poll
    st = SimState(rng, rng.randint(1, 3))
    job = {'kind': 'micro', 'poll': poll, 'flags': [], 'ports': [copy.deepcopy(p) for p in st.ports.values()], 'steps': []}
    steps = job['steps']
    undelivered = 0
    for _ in range(rng.randint(3, 30)):
        r = rng.random()
        if r < 0.45:
            op = gen_slave_op(rng, st)
            if op and op[0] != 'sfull' or (op and not poll):
                steps.append(op)
                undelivered += 1
        elif r < 0.70:
            if poll:
                steps.append(['poll'])
                steps.append(['drop'])
                undelivered = 0
            elif undelivered:
                k = rng.randint(1, undelivered)
                steps.append(['deliver', k])
                undelivered -= k
        elif r < 0.90:
            steps.append(['tick'])
        elif r < 0.95 and not poll:
            steps.append(['drop'])          # the listen session expired ...
            steps.append(['fetch'])         # ... and the slave was resynchronised
            undelivered = 0
        else:
            steps.append(['fetch' if not poll else 'poll'])
            if poll:
                steps.append(['drop'])
                undelivered = 0
    # final sync: everything delivered (or polled), queues drained
    if poll:
        steps += [['poll'], ['drop']]
    else:
        steps.append(['deliver', 10 ** 6])
    steps += [['tick'], ['drain']]
    return job


# ----------------------------------------------------------------------------------------------------------------------
# Coq encoding

class Pool:
    """interns strings / dicts of one shard as Coq definitions (long literals repeated inline are slow)"""
    def __init__(self):
        self.strs, self.dicts, self.x = {}, {}, {}
        self.defs = []

    def s(self, text):
        k = self.strs.get(text)
        if k is None:
            k = self.strs[text] = 's%d' % len(self.strs)
            self.defs.append('Definition %s : string := %s.' % (k, coq.string(text)))
        return k

    def val(self, v):
        if v is None:
            return 'VNone'
        if isinstance(v, bool):
            return '(VB %s)' % coq.boolean(v)
        if isinstance(v, int):
            return '(VZ %s)' % coq.z(v)
        if isinstance(v, str):
            return '(VS %s)' % self.s(v)
        key = json.dumps(v, sort_keys=True)
        k = self.x.get(key)
        if k is None:
            k = self.x[key] = len(self.x) + 1
        return '(VX %d)' % k

    def attrs(self, d):
        key = json.dumps(d, sort_keys=False)
        k = self.dicts.get(key)
        if k is None:
            k = self.dicts[key] = 'd%d' % len(self.dicts)
            body = coq.lst(list(d.items()), lambda kv: '(%s, %s)' % (self.s(kv[0]), self.val(kv[1])))
            self.defs.append('Definition %s : attrs := %s.' % (k, body))
        return k

    def header(self):
        return '\n'.join(self.defs) + '\n'


def enc_aux(pool, aux):
    if not aux or aux[0] == 'err':
        return 'None'
    return '(Some %s)' % pool.val(aux[1])


def enc_ports(pool, ports, auxs):
    return coq.lst(ports, lambda p: '(%s, %s)' % (pool.attrs(p), enc_aux(pool, (auxs or {}).get(p.get('id')))))


def enc_event(pool, item):
    ev = item['event']
    t, params = ev.get('type'), ev.get('params') or {}
    if t == 'value-change':
        return '(EValueChange %s %s)' % (pool.s(params['id']), pool.val(params.get('value')))
    if t == 'port-update':
        return '(EPortUpdate %s %s)' % (pool.attrs(params), enc_aux(pool, item.get('aux')))
    if t == 'port-add':
        return '(EPortAdd %s %s)' % (pool.attrs(params), enc_aux(pool, item.get('aux')))
    if t == 'port-remove':
        return '(EPortRemove %s)' % pool.s(params['id'])
    if t == 'device-update':
        return '(EDeviceUpdate %s)' % pool.attrs(params)
    if t == 'full-update':
        return '(EFullUpdate %s %s)' % (pool.attrs(item['dev']), enc_ports(pool, item['ports'], item.get('auxs')))
    return 'EUnknown'


def enc_obs(pool, dump):
    ports = coq.lst(dump['ports'], lambda p: '(%s, %s, %s, %s, %s, %s, %s, %s)' % (
        pool.s(p['id']), pool.attrs(p['cached']), coq.lst(p['queue'], pool.val), pool.val(p['cached_value']),
        coq.boolean(p['enabled']), pool.val(p['last_read']), coq.lst(p['prov'], pool.s), pool.val(p['tag'])))
    return '(%s, %s, %s)' % (ports, pool.attrs(dump['dev']), coq.lst(dump['dev_prov'], pool.s))


def micro_steps_c12(pool, res):
    """[(step text, obs text)] of one micro result (C12 step kinds)"""
    out = []
    for rec in res['steps']:
        k = rec['kind']
        if k == 'deliver':
            for item in rec['events']:
                out.append(('(MEv %s %s)' % (enc_event(pool, item), coq.boolean(item['raised'] is not None)),
                            '(Some %s)' % enc_obs(pool, item['after'])))
        elif k == 'tick':
            out.append(('MTick', '(Some %s)' % enc_obs(pool, rec['after'])))
        elif k == 'fetch':
            out.append(('(MFetch %s)' % enc_ports(pool, rec['ports'], rec.get('auxs')), '(Some %s)' % enc_obs(pool, rec['after'])))
        elif k == 'poll':
            out.append(('(MPoll %s %s)' % (pool.attrs(rec['dev']), enc_ports(pool, rec['ports'], rec.get('auxs'))),
                        '(Some %s)' % enc_obs(pool, rec['after'])))
    return out


def enc_sport(pool, pj):
    a = {k: v for k, v in pj.items() if k != 'value'}
    return '(mk_sport %s %s)' % (pool.attrs(a), pool.val(pj.get('value')))


def enc_view(pool, name, shown, slave_ports):
    return '(SView %s %s %s)' % (pool.s(name), coq.lst(shown, pool.attrs), coq.lst(slave_ports, lambda p: enc_sport(pool, p)))


HEADER = 'From QT Require Import C12.Run.\nOpen Scope string_scope.\n'


def eval_coq(ctx, name, header, shards, evals):
    """shards: [(pool, body)] -> per shard (rc, lists, err)"""
    texts = [pool.header() + body for pool, body in shards]
    return coq.eval_shards(ctx.workdir, name, header, texts, evals)


# ----------------------------------------------------------------------------------------------------------------------
# specification oracle in Python (used while shrinking; the verdict comes from the Coq one)

NO_FALLBACK_ATTRS = ('min', 'max', 'integer', 'step', 'choices')
MASTER_ATTRS = ('id', 'tag', 'expression', 'history_interval', 'history_retention', 'online', 'last_sync', 'expires')


def is_renamed(n):
    import re
    return bool(re.match(r'^(device_)+expression$', n) or re.match(r'^(device_)+history_[a-z0-9_]+$', n))


def view_port_problems(name, shown, sp):
    out = []
    for n, v in shown.items():
        if n == 'value':
            continue
        if n == 'id':
            if v != '%s.%s' % (name, sp['id']):
                out.append('id')
        elif n in MASTER_ATTRS:
            continue
        elif is_renamed(n):
            if v != sp.get(n[7:]):
                out.append(n)
        elif sp.get(n) is not None and v != sp.get(n):
            out.append(n)
        elif n in NO_FALLBACK_ATTRS and sp.get(n) is None:     # shown although the slave does not have it (any more)
            out.append(n)
    for n, v in sp.items():
        if n in ('id', 'value', 'pending_value') or v is None:
            continue
        mn = 'device_' + n if is_renamed('device_' + n) else n     # expression, history_*, and their device_... forms
        if n in MASTER_ATTRS and mn == n:
            continue
        if shown.get(mn) != v:
            out.append(mn)
    want = sp.get('value') if sp.get('enabled') else None
    if shown.get('value') != want:
        out.append('value')
    return sorted(set(out))


def view_problems(name, shown, slave_ports):
    """-> list of (port id, [attribute names that differ] | 'missing' | 'extra')"""
    out = []
    if not isinstance(shown, list):
        return [('*', 'GET /ports failed')]
    by_id = {}
    for a in shown:
        by_id.setdefault(a.get('id'), []).append(a)
    for sp in slave_ports:
        got = by_id.get('%s.%s' % (name, sp['id']), [])
        if len(got) != 1:
            out.append((sp['id'], 'missing' if not got else 'duplicate'))
        else:
            pr = view_port_problems(name, got[0], sp)
            if pr:
                out.append((sp['id'], pr))
    ids = {'%s.%s' % (name, sp['id']) for sp in slave_ports}
    for a in shown:
        if a.get('id') not in ids:
            out.append((a.get('id'), 'extra'))
    return out


def dedup(l):
    out = []
    for x in l:
        if not out or out[-1] != x or type(out[-1]) is not type(x):
            out.append(x)
    return out


def delivered_values(res):
    """per port id: the values the device delivered to the master, in arrival order"""
    d = {}
    for _t, kind, payload in res.get('delivered', []):
        if kind == 'event':
            for ev in payload:
                t, params = ev.get('type'), ev.get('params') or {}
                if t == 'value-change':
                    d.setdefault(params['id'], []).append(params.get('value'))
                elif t in ('port-update', 'port-add') and 'value' in params:
                    d.setdefault(params['id'], []).append(params['value'])
        elif kind == '/ports':
            for p in payload:
                if 'value' in p:
                    d.setdefault(p['id'], []).append(p['value'])
        elif kind.startswith('/ports/') and kind.endswith('/value'):
            if payload is not None:
                d.setdefault(kind[len('/ports/'):-len('/value')], []).append(payload)
    return d


def order_cases(job, res):
    """[(port id, delivered values, reported values)] for the ports the order statement covers"""
    if job['mode'] == 'poll' or not res.get('syncs') or any(op[1] == 'mp' or (op[1] == 'at' and op[3][0] == 'mp') for op in job['ops']):
        return []           # (disabling the slave on the master re-creates its ports)
    removed = {op[2] for op in job['ops'] if op[1] == 'srm'}
    last = res['syncs'][-1]
    if not last.get('quiescent'):
        return []
    deliv = delivered_values(res)
    shown = {}
    for _t, pid, v in res.get('vc', []):
        shown.setdefault(pid, []).append(v)
    out = []
    for sp in last['slave_ports']:
        pid = sp['id']
        if pid in removed or not sp.get('enabled'):
            continue
        out.append((pid, [None] + deliv.get(pid, []), [None] + shown.get(pid, [])))
    return out


def e2e_problems(job, res, name='dev1'):
    """python oracle: -> list of {'kind', ...}"""
    out = []
    for k, s in enumerate(res.get('syncs', [])):
        pr = view_problems(name, s['master_ports'], s['slave_ports'])
        if pr:       # also when the master never got back to an idle, listening / polling state within 120 s
            lost = [x for x in res.get('session_expiries', []) if x[0] <= s['t'] and x[1] > 0 and x[2]]
            cause = ('master-stopped-synchronising' if not s.get('quiescent')
                     else 'listen-session-expired-before-offline' if job['mode'] == 'listen' and lost else None)
            out.append({'kind': 'view', 'sync': k, 'ports': pr, 'quiescent': bool(s.get('quiescent')), 'cause': cause,
                        'events_lost_with_expired_session_while_online': lost})
        if s.get('second'):
            pr2 = view_problems(s['second']['name'], s['second']['master_ports'], s['second']['slave_ports'])
            if pr2:
                out.append({'kind': 'view', 'sync': k, 'ports': pr2, 'quiescent': bool(s.get('quiescent')),
                            'cause': 'other-slave-with-prefix-name', 'slave': s['second']['name']})
    for pid, d, sh in order_cases(job, res):
        if dedup(d) != dedup(sh):
            out.append({'kind': 'order', 'port': pid, 'delivered': dedup(d), 'reported': dedup(sh)})
    return out


def spec_cases_c12(pool, job, res, name='dev1'):
    """Coq scases of one e2e result: [(text, descr)]"""
    out = []
    for k, s in enumerate(res.get('syncs', [])):
        if isinstance(s['master_ports'], list):
            out.append((enc_view(pool, name, s['master_ports'], s['slave_ports']), ('view', k)))
        if s.get('second') and isinstance(s['second']['master_ports'], list):
            out.append((enc_view(pool, s['second']['name'], s['second']['master_ports'], s['second']['slave_ports']), ('view2', k)))
    for pid, d, sh in order_cases(job, res):
        out.append(('(SOrder %s %s)' % (coq.lst(d, pool.val), coq.lst(sh, pool.val)), ('order', pid)))
    return out


# ----------------------------------------------------------------------------------------------------------------------
# shrinking

def shrink_e2e(job, still_fails, budget=12):
    """remove ops while the failure persists.  still_fails(list of jobs) -> list of bool"""
    best = job
    for _ in range(budget):
        ops = best['ops']
        n = len(ops)
        cands = []
        size = max(1, n // 2)
        while size >= 1:
            for a in range(0, n - 1, size):           # never drop the final sync
                c = ops[:a] + ops[a + size:]
                if c and c[-1][1] == 'sync':
                    cands.append(c)
            size //= 2
        # also try shorter waits and a single latency
        cands.append([[min(op[0], 1000)] + op[1:] if op[1] != 'wait' else op for op in ops])
        jobs = []
        seen = set()
        for c in cands:
            key = json.dumps(c)
            if key in seen or c == ops:
                continue
            seen.add(key)
            jobs.append(dict(best, ops=c))
        if len(best.get('lat', [])) > 1:
            jobs.append(dict(best, lat=[best['lat'][0]]))
        if not jobs:
            break
        jobs = jobs[:48]
        flags = still_fails(jobs)
        failing = [j for j, f in zip(jobs, flags) if f]
        if not failing:
            break
        new = min(failing, key=lambda j: (len(j['ops']), len(j.get('lat', []))))
        if (len(new['ops']), len(new.get('lat', []))) >= (len(best['ops']), len(best.get('lat', []))):
            break
        best = new
    return best


def describe(job):
    return '%s%s lat=%s ports=%s ops: %s' % (
        job.get('mode'), '(%ss)' % job['poll'] if job.get('mode') == 'poll' else '',
        (job.get('lat'), 'second slave %s %s' % (job['second']['name'], [p['id'] for p in job['second']['ports']])) if job.get('second')
        else job.get('lat'),
        [p['id'] for p in job['ports']],
        ' ; '.join('+%d %s' % (op[0], ' '.join(json.dumps(x) if not isinstance(x, str) else x for x in op[1:]))
                   for op in job['ops']))


# ----------------------------------------------------------------------------------------------------------------------
# check

def load_corpus(pid):
    out = []
    for path in sorted(glob.glob(os.path.join(VERIF, 'corpus', pid, '*.json'))):
        with open(path) as f:
            d = json.load(f)
        job = d.get('case', d)
        if isinstance(job, dict) and job.get('kind') in ('e2e', 'micro'):
            out.append((job, os.path.basename(path)))
    return out


def cross_check(ctx, res):
    names = getattr(ctx, 'c12_master_attrs', None)
    if names is None:
        res['tie_failures'].append('translator gave no MASTER_ATTRS')
        return
    try:
        sys.path  # the implementation is importable (PYTHONPATH set by bin/check)
        from qtoggleserver.slaves import ports as slaves_ports
        if sorted(slaves_ports.MASTER_ATTRS) != names:
            res['tie_failures'].append('translated MASTER_ATTRS %r differ from the imported ones %r'
                                       % (names, sorted(slaves_ports.MASTER_ATTRS)))
    except Exception as e:
        res['tie_failures'].append('cannot import qtoggleserver.slaves.ports: %s' % e)
    if names != sorted(MASTER_ATTRS):
        res['tie_failures'].append('MASTER_ATTRS of the source %r are not the modelled ones %r' % (names, sorted(MASTER_ATTRS)))


def run_micro_batch(ctx, res, jobs, label, tags):
    results = run_worker(jobs)
    dist = res['distribution']
    cases, idx = [], []
    for j, (job, r) in enumerate(zip(jobs, results)):
        res['evaluations'] += 1
        dist['micro_scripts'] = dist.get('micro_scripts', 0) + 1
        if r.get('crashed') or 'init' not in r:
            res['tie_failures'].append({'note': 'micro run failed', 'errors': r.get('errors', [])[:2], 'source': tags[j]})
            continue
        for e in r.get('errors', [])[:2]:
            res['tie_failures'].append({'note': 'micro step raised in the harness: ' + e[-400:], 'source': tags[j]})
        cases.append((job, r))
        idx.append(j)
        for rec in r['steps']:
            k = 'micro:' + rec['kind']
            dist[k] = dist.get(k, 0) + 1
            if rec['kind'] == 'deliver':
                for it in rec['events']:
                    kk = 'event:' + it['event']['type'] + (':raised' if it['raised'] else '')
                    dist[kk] = dist.get(kk, 0) + 1
    shards, spans = [], []
    for i in range(0, len(cases), 60):
        pool = Pool()
        chunk = cases[i:i + 60]
        texts, specs = [], []
        for job, r in chunk:
            steps = micro_steps_c12(pool, r)
            texts.append('(%s, %s)' % (enc_obs(pool, r['init']), coq.lst(steps, lambda s: '(%s, %s)' % s)))
            last = r['steps'][-1]
            specs.append(enc_view(pool, 'dev1', last['view'] if isinstance(last['view'], list) else [], r['final_slave_ports']))
        body = ('Definition cases : list mcase := [\n %s].\nDefinition scases : list scase := [\n %s].\n'
                % (';\n '.join(texts), ';\n '.join(specs)))
        shards.append((pool, body))
        spans.append((i, len(chunk)))
    out = eval_coq(ctx, 'c12micro' + label, HEADER, shards, ['bad_model cases', 'bad_steps cases', 'bad_spec scases'])
    nontrivial = 0
    for (rc, lists, err), (off, n) in zip(out, spans):
        if rc != 0 or len(lists) != 3 or len(lists[1]) != n:
            res['tie_failures'].append('coqc failed on a micro shard: %s' % err[-700:])
            continue
        for j in lists[0]:
            job, r = cases[off + j]
            step = lists[1][j] - 1
            res['tie_failures'].append({'note': 'model differs from implementation (mirror state after a step)',
                                        'first_bad_model_step': step, 'script': job['steps'], 'ports': [p['id'] for p in job['ports']],
                                        'source': tags[idx[off + j]]})
            dist['model_mismatches'] = dist.get('model_mismatches', 0) + 1
        for j in lists[2]:
            job, r = cases[off + j]
            last = r['steps'][-1]
            pr = view_problems('dev1', last['view'], r['final_slave_ports'])
            res['violations'].append({
                'key': {'kind': 'view', 'driver': 'micro', 'poll': bool(job.get('poll')),
                        'attrs': sorted({a for _p, l in pr if isinstance(l, list) for a in l})[:4]},
                'what': 'after everything the device reported was handled and the queues drained, GET /ports of the master '
                        'differs from the device: %s' % pr,
                'case': job, 'observed': {'master': last['view'], 'slave': r['final_slave_ports']}})
    for job, r in cases:
        kinds = {rec['kind'] for rec in r['steps']}
        if len(kinds & {'deliver', 'fetch', 'poll', 'tick'}) >= 2 and any(rec['kind'] in ('sv', 'sa', 'sadd', 'srm') for rec in r['steps']):
            nontrivial += 1
    res['distinct_nontrivial'] += nontrivial
    if len(res['samples']) < 3 and cases:
        job, r = cases[0]
        res['samples'].append({'micro_script': job['steps'][:12], 'final_view_ids': [p.get('id') for p in (r['steps'][-1]['view'] or [])]})


def run_e2e_batch(ctx, res, jobs, label, tags):
    results = run_worker(jobs)
    dist = res['distribution']
    pool = Pool()
    texts, owners = [], []
    for j, (job, r) in enumerate(zip(jobs, results)):
        res['evaluations'] += 1
        dist['e2e_scripts'] = dist.get('e2e_scripts', 0) + 1
        dist['mode:' + job['mode']] = dist.get('mode:' + job['mode'], 0) + 1
        if r.get('crashed') or 'syncs' not in r:
            res['tie_failures'].append({'note': 'e2e run failed', 'errors': r.get('errors', [])[:2], 'source': tags[j]})
            continue
        for e in r.get('errors', [])[:2]:
            res['tie_failures'].append({'note': 'e2e harness problem: ' + e[-400:], 'script': describe(job), 'source': tags[j]})
        for op in job['ops']:
            dist['op:' + op[1]] = dist.get('op:' + op[1], 0) + 1
        dist['virtual_seconds'] = dist.get('virtual_seconds', 0) + r.get('vtime_ms', 0) // 1000
        dist['syncs'] = dist.get('syncs', 0) + len(r['syncs'])
        dist['requests_refused_by_network'] = dist.get('requests_refused_by_network', 0) + r.get('net_refused', 0)
        dist['device_events'] = dist.get('device_events', 0) + r.get('slave_events', 0)
        dist['master_value_changes'] = dist.get('master_value_changes', 0) + len(r.get('vc', []))
        for s in r['syncs']:
            if not s.get('quiescent') and not view_problems('dev1', s['master_ports'], s['slave_ports']) and not (
                    s.get('second') and view_problems(s['second']['name'], s['second']['master_ports'], s['second']['slave_ports'])):
                res['tie_failures'].append({'note': 'no quiescent state within 120 virtual seconds at a sync point '
                                                    '(online=%s)' % s.get('online'), 'script': describe(job), 'source': tags[j]})
        if r.get('net_refused', 0) and len(r['syncs']) >= 1 and r.get('slave_events', 0) >= 2:
            res['distinct_nontrivial'] += 1
        for text, d in spec_cases_c12(pool, job, r):
            texts.append(text)
            owners.append((j, d))
        if len(res['samples']) < 8 and len(job['ops']) <= 10:
            res['samples'].append({'e2e_script': describe(job),
                                   'final_master_values': [(p.get('id'), p.get('value')) for p in (r['syncs'][-1]['master_ports'] or [])]
                                   if r['syncs'] and isinstance(r['syncs'][-1]['master_ports'], list) else None})
    bad = set()
    for i in range(0, len(texts), 400):
        # all shards share the pool definitions
        body = 'Definition scases : list scase := [\n %s].\n' % ';\n '.join(texts[i:i + 400])
        out = eval_coq(ctx, 'c12e2e%s_%d' % (label, i), HEADER, [(pool, body)], ['bad_spec scases'])
        rc, lists, err = out[0]
        if rc != 0 or len(lists) != 1:
            res['tie_failures'].append('coqc failed on an e2e shard: %s' % err[-700:])
            continue
        bad.update(i + k for k in lists[0])
    failing = {}
    for k in sorted(bad):
        j, d = owners[k]
        failing.setdefault(j, []).append(d)
    dist['spec_contradictions'] = dist.get('spec_contradictions', 0) + len(failing)
    # cross-check of the two oracles (Coq and Python) on every script
    for j, (job, r) in enumerate(zip(jobs, results)):
        if 'syncs' in r and bool(e2e_problems(job, r)) != (j in failing):
            res['tie_failures'].append({'note': 'the Coq and the Python specification oracle disagree',
                                        'python': e2e_problems(job, r)[:2], 'coq': failing.get(j), 'script': describe(job)})
    reported = set()
    for j in sorted(failing, key=lambda j: len(jobs[j]['ops'])):
        job, r = jobs[j], results[j]
        probs = e2e_problems(job, r)
        kind = probs[0]['kind'] if probs else failing[j][0][0]
        cause = probs[0].get('cause') if probs else None
        if (kind, job['mode'], cause) in reported:
            continue
        reported.add((kind, job['mode'], cause))

        def still(js, kind=kind, cause=cause):
            rs = run_worker(js)
            return [any(p['kind'] == kind and p.get('cause') == cause for p in e2e_problems(jj, rr)) if 'syncs' in rr else False
                    for jj, rr in zip(js, rs)]
        small = shrink_e2e(job, still)
        rr = run_worker([small])[0]
        probs = [p for p in e2e_problems(small, rr) if p['kind'] == kind and p.get('cause') == cause] or probs
        p0 = probs[0] if probs else {}
        key = {'kind': kind, 'mode': job['mode']}
        if kind == 'view' and p0.get('cause'):
            key['cause'] = p0['cause']
        if kind == 'view':
            key['attrs'] = sorted({a for _p, l in p0.get('ports', []) if isinstance(l, list) for a in l})[:4] or \
                sorted({l for _p, l in p0.get('ports', []) if isinstance(l, str)})
        res['violations'].append({
            'key': key,
            'what': ('GET /ports of the master differs from the device at a sync point%s: %s'
                     % (' (the device dropped its listen session, with events still queued, while the master reported the slave '
                        'online: %s)' % p0.get('events_lost_with_expired_session_while_online')
                        if p0.get('cause') == 'listen-session-expired-before-offline'
                        else '' if p0.get('quiescent', True) else ' (120 s after the last change the master is still not waiting '
                        'in a listen call / polling: its synchronisation loop has stopped)', p0.get('ports')) if kind == 'view'
                     else 'port %s: the master reported the values %s, the device delivered %s'
                     % (p0.get('port'), p0.get('reported'), p0.get('delivered'))) + ' ; script: ' + describe(small),
            'case': small, 'expected': p0,
            'observed': {'syncs': rr.get('syncs', [])[-1:], 'vc': rr.get('vc'), 'source': tags[j],
                         'original_ops': len(job['ops'])}})


def check(ctx, res):
    res['rule'] = (
        'e2e: random scripts (4-30 timed ops: device value changes, attribute changes, port add/remove, device attribute '
        'changes, full-update, network down/up with outages of 2-130 s showing as one of %d fault kinds (connection refused, '
        'host/network unreachable, timeout, three gaierror codes, reset, ssl, stream closed, HTTP 500/503 with JSON body, truncated '
        'JSON, HTML 502), sync points; slave ports with varying optional attributes (expression only on writable ports, '
        'history_*, unit, min/max/step, choices, transform_*)' % len(simslave.FAULTS) + ' over 1-4 ports, listen / poll (1-3 s) / '
        'push mode, 1-6 cyclic latencies of 1-800 ms; micro: 3-30 steps (device mutations, delivery of 1..k queued events, '
        'main.update ticks, fetch_and_update_ports, _poll_once). non-trivial = e2e script with at least one refused request, '
        'a sync and two device events, or micro script with a device mutation and two kinds of master steps')
    cross_check(ctx, res)
    if ctx.replay:
        with open(ctx.replay) as f:
            d = json.load(f)
        job = d.get('case', d)
        (run_e2e_batch if job.get('kind') == 'e2e' else run_micro_batch)(ctx, res, [job], 'replay', ['replay'])
        return
    corpus = [(j, t) for j, t in load_corpus(ID)]
    for kind, fn in (('e2e', run_e2e_batch), ('micro', run_micro_batch)):
        js = [(j, t) for j, t in corpus if j['kind'] == kind]
        if js:
            fn(ctx, res, [j for j, _ in js], 'corpus', [t for _, t in js])
    n_e2e = ctx.n(120, 5000)
    n_micro = ctx.n(240, 6000)
    done = 0
    while done < n_micro:
        k = min(600, n_micro - done)
        run_micro_batch(ctx, res, [gen_micro(ctx.rng) for _ in range(k)], 'r%d' % done, ['random'] * k)
        done += k
    done = 0
    while done < n_e2e:
        k = min(400, n_e2e - done)
        run_e2e_batch(ctx, res, [gen_e2e(ctx.rng) for _ in range(k)], 'r%d' % done, ['random'] * k)
        done += k
        if res['violations'] and done >= 120:
            break


def search(ctx, res):
    n = ctx.n(600, 6000)
    done = 0
    while done < n and not res['violations']:
        run_e2e_batch(ctx, res, [gen_e2e(ctx.rng) for _ in range(200)], 's%d' % done, ['search'] * 200)
        run_micro_batch(ctx, res, [gen_micro(ctx.rng) for _ in range(200)], 's%d' % done, ['search'] * 200)
        done += 200


REPLAY_HELP = ('bin/check C12 --replay <this file>   (case = a job of harness/props/c12_worker.py: '
               'echo "[<case>]" | PYTHONPATH=/verif:/repo /venv/bin/python -m harness.props.c12_worker ; ops are '
               '[wait ms, op, args]: sv/sa/sadd/srm/sd/sfull mutate the simulated device, down/up switch the network, sync '
               'waits for quiescence and compares GET /ports of the master with the device)')

LEVEL_TEXT = (
    'Coq theorems over a message-level model of the master\'s mirror of a slave (attribute cache, FIFO remote value queue, '
    'cached value, enabled mirror, master-kept attributes, the _handle_* event handlers, fetch_and_update_ports, the _poll_once '
    'diff, one read per main-loop iteration): for every sequence of reported events the mirror stays equal to the slave\'s state '
    '(C12_mirror_after_events); after fetch_and_update_ports the master holds exactly one port per slave port, whatever it held '
    'before (C12_resync); for every interleaving of events and main-loop iterations the successive values read for a port are '
    'the reported ones with adjacent repeats removed (C12_value_order); device_expression / device_history_* map to the slave\'s '
    'expression / history_* and MASTER_ATTRS are never sent (C12_attr_mapping). The model is compared with the real Slave / '
    'SlavePort objects step by step (mirror dumps), the real master running its listen / poll loop on a virtual clock against a '
    'simulated device is compared with the specification at sync points.')
LEVEL_NOTE = (
    'Partial: message-level model. Trusted to the correspondence harness: HTTP transport, api_call retries, the online/offline '
    'bookkeeping of the listen and poll loops, simslave (a request fails before reaching the device or its answer is delivered; '
    'undeliverable listen answers are not lost), the virtual-clock loop. Device renaming, firmware update, concurrent online '
    'writes through the master are outside. No axioms.')
TECHNIQUE = ('Coq proof (pointwise-by-id simulation between the mirror and the slave state, invariant over schedules of events '
             'and ticks) over a hand-written model tied by step-by-step state correspondence under vm_compute; specification '
             'oracle on end-to-end runs of the real loops on a deterministic virtual-clock asyncio loop')
