"""C16 worker: time-processing expressions on REAL ports under the REAL hub (main.update, handle_value_changes,
BasePort.push_eval / _eval_loop / _eval_and_write / write queue) on the virtual clock, the output port having a slow driver
write, so that evaluations queue up behind a write and dependency changes land while an evaluation is queued.

    python -m harness.props.c16_worker      (stdin: JSON list of scenarios; stdout: JSON list of results)

Own process: harness.common.vloop replaces time.time globally.  Nothing in /repo is modified; the driver is a subclass of
core_ports.Port defined here.

scenario = {'expr': 'HELD($inp, 1, $par)', 'out_type': 'boolean'|'number', 'out_init': v, 'inp': v, 'par': v, 'wlat': ms,
            'tick': ms, 'events': [[t_ms, 'inp'|'par', value], ...], 'quiet': ms}
Each scenario is run twice: (a) as the hub does it (evaluations pushed only when handle_value_changes decides so: dependency
changes, pauses, pending evaluations) and (b) with an evaluation forced on every tick (main.force_eval_expressions(port), the
hub's own mechanism).  After the last event the inputs stay constant for `quiet` ms, long enough for every queue to drain and
every pause to expire; the property then requires the two runs to leave the SAME value on the port.
result = {'gated': final value, 'forced': final value, 'written_gated': [...], 'written_forced': [...], 'differs': bool,
          'shrunk': scenario (when differs), 'error': str|None}
"""
import asyncio
import json
import logging
import sys

logging.disable(logging.CRITICAL)

_env = {}


def env():
    if _env:
        return _env
    from qtoggleserver.conf import settings
    settings.persist.driver = 'qtoggleserver.drivers.persist.JSONDriver'
    settings.persist.file_path = None
    from qtoggleserver.core import expressions  # noqa: F401  (import order as in the repo's conftest)
    from qtoggleserver.core import main as core_main
    from qtoggleserver.core import ports as core_ports
    from qtoggleserver import persist

    async def fake_get(collection, id_):
        return None

    async def fake_noop(*a, **k):
        return 0
    persist.get = fake_get
    for name in ('replace', 'remove', 'insert', 'update', 'set_value', 'ensure_index'):
        if hasattr(persist, name):
            setattr(persist, name, fake_noop)

    class SrcPort(core_ports.Port):
        TYPE = core_ports.TYPE_NUMBER

        def __init__(self, port_id, value):
            super().__init__(port_id)
            self.src = value
            self.set_last_read_value(value)

        async def read_value(self):
            return self.src

    class OutNumber(core_ports.Port):
        TYPE = core_ports.TYPE_NUMBER
        WRITABLE = True

        def __init__(self, port_id, value, wlat):
            super().__init__(port_id)
            self.src = value
            self.wlat = wlat
            self.written = []
            self.set_last_read_value(value)

        async def read_value(self):
            return self.src

        async def write_value(self, value):
            if self.wlat:
                await asyncio.sleep(self.wlat / 1000.0)
            self.written.append(value)
            self.src = value

    class OutBoolean(OutNumber):
        TYPE = core_ports.TYPE_BOOLEAN

    _env.update(main=core_main, ports=core_ports, SrcPort=SrcPort, OutNumber=OutNumber, OutBoolean=OutBoolean)
    return _env


async def one_run(sc, forced):
    e = env()
    main, core_ports = e['main'], e['ports']
    out_cls = e['OutBoolean'] if sc['out_type'] == 'boolean' else e['OutNumber']
    inp, par, out = await core_ports.load([
        {'driver': e['SrcPort'], 'port_id': 'inp', 'value': sc['inp']},
        {'driver': e['SrcPort'], 'port_id': 'par', 'value': sc['par']},
        {'driver': out_cls, 'port_id': 'out', 'value': sc['out_init'], 'wlat': sc['wlat']},
    ], trigger_add=False)
    src = {'inp': inp, 'par': par}
    try:
        for p in (inp, par, out):
            await p.enable()
        main._last_time = 0
        main._force_eval_expression_ports.clear()
        main._force_eval_all_expressions = False
        await main.update()
        await out.set_attr('expression', sc['expr'])
        tick = sc['tick']
        events = sorted(sc['events'], key=lambda ev: ev[0])
        end = (events[-1][0] if events else 0) + sc['quiet']
        t = 0
        k = 0
        while t <= end:
            while k < len(events) and events[k][0] <= t:
                src[events[k][1]].src = events[k][2]
                k += 1
            if forced:
                main.force_eval_expressions(out)
            await main.update()
            await asyncio.sleep(tick / 1000.0)
            t += tick
        # let whatever is still in flight finish
        await asyncio.sleep(max(1.0, 4 * sc['wlat'] / 1000.0))
        busy = bool(out.has_pending_eval() or out.is_writing())
        await main.update()
        await asyncio.sleep(max(0.2, 3 * sc['wlat'] / 1000.0))
        return out.get_last_read_value(), list(out.written), busy
    finally:
        for p in (inp, par, out):
            try:
                await p.remove(persisted_data=False)
            except Exception:
                pass


def same(a, b):
    return a == b or (a != a and b != b)


def run_pair(sc):
    from harness.common import vloop
    g = vloop.run(one_run(sc, False))
    f = vloop.run(one_run(sc, True))
    return g, f


def shrink(sc, budget=40):
    """drop events while the two runs still disagree"""
    cur = dict(sc)
    ev = list(sc['events'])
    i = 0
    while i < len(ev) and budget > 0:
        cand = dict(cur, events=ev[:i] + ev[i + 1:])
        budget -= 1
        try:
            g, f = run_pair(cand)
            bad = not same(g[0], f[0]) and not g[2] and not f[2]
        except Exception:
            bad = False
        if bad:
            ev = cand['events']
            cur = cand
        else:
            i += 1
    return dict(cur, events=ev)


def run_scenario(sc):
    g, f = run_pair(sc)
    res = {'gated': g[0], 'forced': f[0], 'written_gated': g[1][-12:], 'written_forced': f[1][-12:],
           'busy_at_end': bool(g[2] or f[2]), 'error': None}
    res['differs'] = (not same(g[0], f[0])) and not res['busy_at_end']
    if res['differs'] and sc.get('shrink', True):
        small = shrink(sc)
        g2, f2 = run_pair(small)
        res['shrunk'] = small
        res['shrunk_gated'], res['shrunk_forced'] = g2[0], f2[0]
    return res


def main():
    scenarios = json.load(sys.stdin)
    out = []
    for sc in scenarios:
        try:
            out.append(run_scenario(sc))
        except Exception:
            import traceback
            out.append({'error': traceback.format_exc()[-1500:], 'differs': False})
    json.dump(out, sys.stdout)


if __name__ == '__main__':
    main()
