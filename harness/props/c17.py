"""C17 — calendar functions are consistent with the local calendar.

Theorems: coq/theories/Props/C17.v (calendar domain; instant-level results for fixed offsets).
Tie: (T) Gen/C17Gen.v regenerated from date.py (BOW's first-weekday rule) + (C) the real functions under several TZ
settings against the Coq model (vm_compute), and against the Coq specification oracle (Spec.v).
"""
import asyncio
import bisect
import os
import time

from harness.common import coq
from harness.translate import bowrule

ID = 'C17'
PROPS = 'theories/Props/C17.v'
MODEL_TARGETS = ['theories/C17/Run.vo']
TRANSLATORS = [bowrule.translate]
TIE = 'translator (BOW rule) + correspondence by vm_compute on generated cases per time zone'
ALLOWED_AXIOMS = []
TRUSTED_BASE = [
    'harness/translate/bowrule.py (reads the BOW subtraction rule from date.py)',
    'correspondence harness harness/props/c17.py; offset tables probed from time.localtime under TZ',
    'modelled, not verified: CPython datetime (fromtimestamp, timestamp() of naive values, timedelta arithmetic), '
    'calendar.monthrange, the tz database',
]
ASSUMPTIONS = [
    'instant-level theorems (results are local midnights, DATE rebuilds the instant) are proved for a constant UTC '
    'offset; across DST transitions they are only checked by the tie (spec oracle starts_local_day / DATE_spec)',
    'arguments of the date functions are integers (the functions truncate with int())',
    'wrap-around HMSINTERVAL/MDINTERVAL intervals (start > stop) are outside the statement',
]

ZONES = ['UTC', 'Europe/Bucharest', 'America/New_York', 'Australia/Lord_Howe', 'Asia/Kathmandu', 'America/Sao_Paulo']
T_MIN, T_MAX = 0, 13601088000  # 1970 .. 2401 (century years 2100/2200/2300 are not leap, 2400 is)
CODES = {'fields': 0, 'DATE': 1, 'BOY': 2, 'BOM': 3, 'BOW': 4, 'BOD': 5, 'HMSINTERVAL': 6, 'MDINTERVAL': 7, 'MILLISECOND': 8}


def set_tz(zone):
    os.environ['TZ'] = zone
    time.tzset()


def offset_table(lo=-2840140800, hi=14900000000, step=3 * 3600):
    """(off0, [(first instant, offset)...]) of the current TZ, probed from time.localtime (what datetime uses)."""
    def off(t):
        return time.localtime(t).tm_gmtoff
    off0 = off(lo)
    tbl = []
    prev, t = off0, lo
    while t < hi:
        t2 = t + step
        o = off(t2)
        if o != prev:
            a, b = t, t2  # off(a) == prev, off(b) != prev; find the first instant with a different offset
            while b - a > 1:
                m = (a + b) // 2
                if off(m) == prev:
                    a = m
                else:
                    b = m
            o = off(b)
            tbl.append((b, o))
            prev = o
            t = b
            continue
        t = t2
    return off0, tbl


def gen_cases(rng, n, tbl):
    """list of (fn, args)"""
    trans = [t for t, _ in tbl if T_MIN <= t <= T_MAX]
    cases = []

    def pick_ts():
        r = rng.random()
        if r < 0.35 and trans:
            return rng.choice(trans) + rng.choice([-7200, -3601, -3600, -1801, -1800, -1, 0, 1, 1799, 1800, 3599, 3600, 7200,
                                                   rng.randint(-90000, 90000)])
        if r < 0.55:
            # month / year ends, leap days
            y = rng.choice([rng.randint(1971, 2099), rng.randint(1971, 2399), rng.choice([2000, 2100, 2200, 2300, 2400])])
            m = rng.choice([1, 2, 2, 3, 12, rng.randint(1, 12)])
            d = rng.choice([1, 28, 29, 30, 31])
            import calendar
            d = min(d, calendar.monthrange(y, m)[1])
            import datetime
            base = int(datetime.datetime(y, m, d, tzinfo=datetime.timezone.utc).timestamp())
            return base + rng.choice([0, 1, 43200, 86399, rng.randint(0, 86399)]) + rng.choice([0, -86400, 86400]) * rng.randint(0, 1)
        if r < 0.85:
            return rng.randint(T_MIN + 86400 * 400, 4102444800 - 86400 * 400)
        return rng.randint(T_MIN + 86400 * 400, T_MAX - 86400 * 400)

    def local_midnight_near(ts):
        lt = time.localtime(ts)
        return ts - (lt.tm_hour * 3600 + lt.tm_min * 60 + lt.tm_sec)

    pending = []
    for _ in range(n):
        if pending:
            cases.append(pending.pop())
            continue
        r = rng.random()
        ts = pick_ts()
        if rng.random() < 0.12:
            # the same call evaluated shortly before and shortly after a local midnight (same expression object)
            m = local_midnight_near(ts)
            ts = m - rng.choice([60, 600, 1200, 3000])
            fn = rng.choice(['BOD', 'BOW', 'BOM', 'BOY'])
            a = [rng.choice([0, 0, 1, -1])] + ([rng.randint(0, 6)] if fn == 'BOW' else [])
            cases.append((fn, [ts] + a))
            pending.append((fn, [m + rng.choice([0, 60, 600, 1800])] + a))
            continue
        if r < 0.02:
            cases.append(('MILLISECOND', [ts * 1000 + rng.choice([0, 1, 499, 500, 999, rng.randint(0, 999)])]))
        elif r < 0.15:
            cases.append(('fields', [ts]))
        elif r < 0.27:
            if rng.random() < 0.8:
                lt = time.localtime(ts)
                a = [lt.tm_year, lt.tm_mon, lt.tm_mday, lt.tm_hour, lt.tm_min, lt.tm_sec]
                if rng.random() < 0.3:
                    a[rng.randrange(6)] += rng.choice([-1, 1, 30, -30])
            else:
                a = [rng.randint(1969, 2101), rng.randint(0, 13), rng.randint(0, 32), rng.randint(-1, 24),
                     rng.randint(-1, 60), rng.randint(-1, 60)]
            cases.append(('DATE', a))
        elif r < 0.35:
            cases.append(('BOY', [ts, rng.randint(-30, 30)]))
        elif r < 0.47:
            cases.append(('BOM', [ts, rng.choice([0, 1, -1, rng.randint(-60, 60)])]))
        elif r < 0.72:
            cases.append(('BOW', [ts, rng.choice([0, 0, 1, -1, rng.randint(-60, 60)]), rng.randint(0, 6)]))
        elif r < 0.82:
            cases.append(('BOD', [ts, rng.choice([0, 1, -1, rng.randint(-60, 60)])]))
        elif r < 0.92:
            lt = time.localtime(ts)
            sod = lt.tm_hour * 3600 + lt.tm_min * 60 + lt.tm_sec

            def hms(x):
                x = max(0, min(86399, x))
                return [x // 3600, x % 3600 // 60, x % 60]
            a = hms(sod + rng.choice([0, -1, 1, -rng.randint(0, 40000), rng.randint(0, 40000)]))
            b = hms(sod + rng.choice([0, -1, 1, -rng.randint(0, 40000), rng.randint(0, 40000)]))
            if rng.random() < 0.1:
                a[rng.randrange(3)] = rng.choice([-1, 24, 60])
            if rng.random() < 0.1:
                b[rng.randrange(3)] = rng.choice([-1, 24, 60])
            cases.append(('HMSINTERVAL', [ts] + a + b))
        else:
            lt = time.localtime(ts)

            def md():
                if rng.random() < 0.5:
                    return [lt.tm_mon + rng.choice([0, 0, -1, 1]), lt.tm_mday + rng.choice([0, -1, 1])]
                return [rng.randint(0, 13), rng.randint(0, 32)]
            cases.append(('MDINTERVAL', [ts] + md() + md()))
    return cases


NO_RTC = {}


async def eval_impl(cases):
    """run the real functions; -> list of ('list', [...]) | ('ok', v) | ('bad', i, v) | ('err', text)"""
    from qtoggleserver.core import expressions
    from qtoggleserver.core.expressions import EvalContext, ROLE_VALUE
    from qtoggleserver.core.expressions.exceptions import InvalidArgumentValue

    parsed = {}

    async def ev(text, ts):
        # one expression object per text, evaluated many times at different instants, like a port's expression
        e = parsed.get(text)
        if e is None:
            e = parsed[text] = expressions.parse(None, text, ROLE_VALUE)
        return await e.eval(EvalContext({}, ts * 1000 + 123))

    # a hub that starts without a real-time clock (wall clock before 2019) skips the date functions; once the clock is set
    # they must work: one evaluation under an old wall clock first, in the same process as everything that follows
    import time as _time
    real_time = _time.time
    _time.time = lambda: 1000.0
    try:
        try:
            await ev('YEAR()', 1700000000)
            NO_RTC['first'] = 'evaluated'
        except Exception as e:  # noqa: BLE001
            NO_RTC['first'] = type(e).__name__
    finally:
        _time.time = real_time

    out = []
    for fn, a in cases:
        try:
            if fn == 'MILLISECOND':
                e = parsed.get('MILLISECOND()') or parsed.setdefault('MILLISECOND()', expressions.parse(None, 'MILLISECOND()', ROLE_VALUE))
                v = await e.eval(EvalContext({}, a[0]))
                out.append(('ok', int(v)) if not isinstance(v, bool) and float(v).is_integer() else ('err', 'non-integer result %r' % (v,)))
                continue
            if fn == 'fields':
                vals = []
                for name in ('YEAR', 'MONTH', 'DAY', 'DOW', 'LDOM', 'HOUR', 'MINUTE', 'SECOND', 'MINUTEDAY', 'SECONDDAY'):
                    # alternate between the explicit-argument and the context-timestamp forms
                    text = '%s(%d)' % (name, a[0]) if (a[0] % 2) else '%s()' % name
                    vals.append(await ev(text, a[0]))
                if not all(float(v).is_integer() for v in vals):
                    out.append(('err', 'non-integer field %r' % (vals,)))
                else:
                    out.append(('list', [int(v) for v in vals]))
                continue
            if fn == 'DATE':
                text, ts = 'DATE(%s)' % ', '.join(str(x) for x in a), 1700000000
            else:
                args = a[1:]
                if fn in ('BOY', 'BOM', 'BOD') and args == [0] and a[0] % 2:
                    args = []
                text, ts = '%s(%s)' % (fn, ', '.join(str(x) for x in args)), a[0]
            v = await ev(text, ts)
            if isinstance(v, bool) or not float(v).is_integer():
                out.append(('err', 'non-integer result %r' % (v,)))
            else:
                out.append(('ok', int(v)))
        except InvalidArgumentValue as e:
            v = e.value
            out.append(('bad', int(e.arg_no), int(v)) if float(v).is_integer() else ('err', repr(e)))
        except Exception as e:
            out.append(('err', '%s: %s' % (type(e).__name__, e)))
    return out


def coq_rres(r):
    if r[0] == 'list':
        return '(RList %s)' % coq.zlist(r[1])
    if r[0] == 'ok':
        return '(ROk %s)' % coq.z(r[1])
    if r[0] == 'bad':
        return '(RBad %s %s)' % (coq.z(r[1]), coq.z(r[2]))
    return 'RErr'


HEADER = 'From QT Require Import C17.Run.\nOpen Scope Z_scope.\n'


def shard_text(off0, tbl, cases, results):
    rows = ';\n  '.join(
        '(%d, %s, %s)' % (CODES[fn], coq.zlist(a), coq_rres(r)) for (fn, a), r in zip(cases, results)
    )
    return (
        'Definition tbl : list (Z * Z) := %s.\n' % coq.lst(tbl, lambda p: '(%s, %s)' % (coq.z(p[0]), coq.z(p[1])))
        + 'Definition off := off_table %s tbl.\n' % coq.z(off0)
        + 'Definition cases : list (Z * list Z * rres) := [\n  %s].\n' % rows
    )


def classify(fn, a, tbl_off):
    """key of a violation (used to match known findings)"""
    key = {'function': fn}
    if fn == 'BOW':
        key['s_positive'] = a[2] > 0
    return key


def run_cases(ctx, res, per_zone, zones, rng):
    total = 0
    distinct = set()
    dist = {}
    t_impl = 0
    shards, meta = [], []
    for zone in zones:
        set_tz(zone)
        off0, tbl = offset_table()
        cases = gen_cases(rng, per_zone, tbl)
        t0 = time.time()
        results = asyncio.run(eval_impl(cases))
        t_impl += time.time() - t0
        for i in range(0, len(cases), 1000):
            shards.append(shard_text(off0, tbl, cases[i:i + 1000], results[i:i + 1000]))
            meta.append((zone, cases[i:i + 1000], results[i:i + 1000]))
        for (fn, a), r in zip(cases, results):
            total += 1
            dist[fn] = dist.get(fn, 0) + 1
            dist['result:' + r[0]] = dist.get('result:' + r[0], 0) + 1
            # non-trivial: anything except an identity offset (n = 0) on UTC
            if not (zone == 'UTC' and fn in ('BOY', 'BOM', 'BOW', 'BOD') and a[1] == 0) and fn != 'MILLISECOND':
                distinct.add((zone, fn, tuple(a)))
        if len(res['samples']) < 12:
            for (fn, a), r in list(zip(cases, results))[:2]:
                res['samples'].append({'zone': zone, 'function': fn, 'args': a, 'implementation': list(r)})
        dist['zone:%s:transitions' % zone] = len(tbl)
    set_tz('UTC')
    if not ctx.model_ok:
        res['tie_failures'].append('model not built; cases not evaluated')
        res['evaluations'] += total
        return
    outs = coq.eval_shards(ctx.workdir, 'c17cases', HEADER, shards, ['bad_model off cases', 'bad_spec off cases'])
    for (rc, lists, err), (zone, cases, results) in zip(outs, meta):
        if rc != 0 or len(lists) != 2:
            res['tie_failures'].append('coqc failed on a case shard (%s): %s' % (zone, err[-500:]))
            continue
        bad_model, bad_spec = lists
        for i in bad_model:
            fn, a = cases[i]
            res['tie_failures'].append({'zone': zone, 'function': fn, 'args': a, 'implementation': results[i],
                                        'note': 'model differs from implementation'})
        for i in bad_spec:
            fn, a = cases[i]
            res['violations'].append({
                'key': classify(fn, a, None),
                'what': '%s%r under TZ=%s returns %r, which contradicts the specification' % (fn, tuple(a), zone, results[i]),
                'case': {'zone': zone, 'function': fn, 'args': a},
                'observed': list(results[i]),
            })
    res['evaluations'] += total
    res['distinct_nontrivial'] += len(distinct)
    for k, v in dist.items():
        res['distribution'][k] = res['distribution'].get(k, 0) + v
    res['extra']['impl_wall_s'] = round(t_impl, 2)
    res['extra']['first_evaluation_under_a_wall_clock_before_2019'] = NO_RTC.get('first')


def check(ctx, res):
    res['rule'] = (
        'per time zone (%s): one evaluation under a wall clock before 2019 first (no real-time clock yet), then random instants 1970-2100 (15 %% up to 2401, century Februaries included) biased to DST transitions (+-2h), month/year ends and leap days; '
        'offsets n in [-60,60], first weekdays 0..6, valid and invalid DATE/HMSINTERVAL/MDINTERVAL arguments. '
        'distinct = distinct (zone, function, arguments); non-trivial = not an n=0 call under UTC' % ', '.join(ZONES)
    )
    per_zone = ctx.n(1000, 80000)
    run_cases(ctx, res, per_zone, ZONES, ctx.rng)


def search(ctx, res):
    """the proof or the tie broke: look harder for a concrete failing input (spec oracle vs implementation)"""
    run_cases(ctx, res, ctx.n(4000, 20000), ZONES, ctx.rng)


REPLAY_HELP = 'TZ=<zone> ; evaluate expressions.parse(None, "<function>(<args>)", 1).eval(EvalContext({}, ts*1000)) in /repo'

LEVEL_TEXT = (
    'Coq theorems over a Gallina model of the calendar arithmetic and of every date function: civil <-> day-number round '
    'trips for all day numbers (finite 400-year cycle check lifted by periodicity), BOM/BOW stepping loops equal closed '
    'forms for every n and first weekday (induction on the loop count), BOW lands on the requested weekday, week 0 contains '
    'today, successive n contiguous, HMSINTERVAL/MDINTERVAL iff, results are local midnights and DATE rebuilds the instant '
    '(fixed offsets). The BOW first-weekday rule is regenerated from date.py on every run and the theorem re-proved; the '
    'whole model is compared with the real functions under six time zones incl. all DST transitions, and the real functions '
    'are compared with the Coq specification oracle (that is where DST is covered).'
)
LEVEL_NOTE = (
    'Trusted: Coq kernel incl. vm_compute; translator bowrule.py; the correspondence harness and its generators; CPython '
    'datetime / tz database are modelled (Calendar.v) and tied by the correspondence only. Instant-level theorems assume a '
    'constant UTC offset; DST gaps/folds are decided by the differential tie against the spec oracle, not by a theorem. '
    'No axioms (Print Assumptions: closed under the global context).'
)
TECHNIQUE = 'Coq proof (induction + lifted finite check) over a model regenerated/tied by translator and vm_compute correspondence'
COQCHK_TIMEOUT = 2400   # the finite calendar sweeps are re-checked by coqchk's lazy conversion: ~8 min on an idle machine
