"""C01 — ports with expressions converge to the value of their expression.

Theorems: coq/theories/Props/C01.v (convergence at every quiescent state of the hub LTS, for every trace; re-evaluation after
every dependency change and only then; frame).  Tie: (T) Gen/C01Gen.v (does the evaluation task refresh after its write —
read from core/ports.py) + (C) trace acceptance: the real polling loop / evaluation and write tasks run on a virtual clock with
scripted driver latencies; every step they take is fed to the Coq LTS (vm_compute), final states compared.  Spec oracle: at
quiescence, every port with an expression holds the coerced value of its expression over the current values — evaluated by the
Coq specification on what the implementation reports.
"""
import json
import random
import os
import subprocess
import sys
import time

from harness.common import coq, repo
from harness.translate import evalwrite

ID = 'C01'
PROPS = 'theories/Props/C01.v'
MODEL_TARGETS = ['theories/C01/Run.vo', 'theories/C01/RichRun.vo']
TRANSLATORS = [evalwrite.translate]
TIE = 'translator (refresh after write) + trace acceptance of the real hub on a virtual clock against the Coq LTS'
ALLOWED_AXIOMS = []
TRUSTED_BASE = [
    'harness/translate/evalwrite.py (reads the shape of BasePort._eval_and_write)',
    'harness/common/vloop.py (virtual-clock asyncio loop), harness/props/c01_worker.py (instrumentation by wrapping '
    'read_transformed_value, handle_value_changes, _eval_and_write, transform_and_write_value, attr_set_expression, the update lock)',
    'modelled, not verified: asyncio scheduling (one LTS event per suspension point), echo/source port drivers',
]
ASSUMPTIONS = [
    'theorem scope: integer number ports, echo drivers and sources, no read/write transforms, no API value writes to ports with '
    'an expression, expressions not reading their own port, ports with an expression disabled only at rest (the busy case is '
    'known finding F16); stateless, time-independent expressions; expressions are evaluated over the snapshot of values and the '
    'LIVE enabled flags, so AVAILABLE / DEFAULT over a disabled port are inside the theorem (it needs disable() to force '
    'evaluation: regenerated from ports.py)',
    'write transforms are exercised by the spec oracle only (known finding: write transform without inverse)',
    'typed stream (number / integer / boolean ports, the hub\'s own VirtualPort, unavailable values, coercion, internal ports, '
    'an expression assigned while a polling pass is suspended in an event handler, results the port cannot take): no latencies, '
    'commands issued at rest, expressions over lower-numbered ports only, no NaN / infinite source values, no transforms; the '
    'specification (Expr.Spec.sem + adapt_value_type) is evaluated in Coq on the state the hub reports at rest; nothing is '
    'required when the evaluation fails with an error other than unavailability',
]

EXPRS = ['$p{a}', 'ADD($p{a}, $p{b})', 'MUL($p{a}, 2)', 'SUB($p{a}, 1)', 'IF(GT($p{a}, 2), $p{b}, 7)', 'MIN($p{a}, $p{b})',
         'ADD($p{a}, 1)', 'MAX($p{a}, $p{b}, 3)', 'DEFAULT($p{a}, 7)', 'IF(AVAILABLE($p{a}), $p{b}, 3)', 'DEFAULT($p{a}, $p{b})']


def gen_scenario(rng, allow_extras):
    n = rng.randint(2, 6)
    ports = []
    for i in range(n):
        ports.append({'value': rng.randint(0, 5),
                      'read_ms': rng.choice([0, 0, 0, 0, 10, 30, 60, 120]),
                      'write_ms': rng.choice([0, 0, 10, 50, 100, 200]),
                      'enable_ms': rng.choice([0, 0, 0, 120, 300])})
    script = []
    followers = {}
    n_follow = rng.randint(1, max(1, n - 1))
    for q in rng.sample(range(1, n), min(n_follow, n - 1)):
        a = rng.randrange(0, q)
        b = rng.randrange(0, q)
        text = rng.choice(EXPRS).format(a=a, b=b)
        followers[q] = text
        script.append([rng.choice([0, 0, 0, 20]), 'expr', q, text])
    sources = [p for p in range(n) if p not in followers]
    t = 400
    for _ in range(rng.randint(1, 10)):
        t += rng.choice([5, 20, 40, 60, 100, 150, 300, 700])
        p = rng.choice(sources)
        script.append([t, 'source', p, rng.randint(0, 5)])
        if rng.random() < 0.3:     # a -> b -> a inside one write latency
            script.append([t + rng.choice([20, 40, 60, 90]), 'source', p, ports[p]['value']])
    extras = False
    if allow_extras and rng.random() < 0.3:
        extras = True
        p = rng.choice(sources + list(followers)) if rng.random() < 0.4 else rng.choice(sources)
        t += rng.choice([200, 210, 260, 500])
        script.append([t, 'disable', p])
        script.append([t + rng.choice([30, 200, 400]), 'source', rng.choice(sources), rng.randint(6, 9)])
        if rng.random() < 0.8:
            script.append([t + rng.choice([60, 500, 700, 730]), 'enable', p])
    return {'ports': ports, 'script': script, 'tick_ms': 50, 'settle_ms': 6000, 'extras': extras}


CORPUS = [
    # F1: slow reader p0, source p1, follower p2 = $p1 with a slow write; p1: 1 -> 2 -> 1 within the write latency
    {'ports': [{'value': 0, 'read_ms': 30}, {'value': 1}, {'value': 1, 'write_ms': 100}],
     'script': [[0, 'expr', 2, '$p1'], [500, 'source', 1, 2], [560, 'source', 1, 1]], 'tick_ms': 50, 'settle_ms': 6000, 'extras': False},
    # F12: s = ADD($p0, $p1); disable p0; change p1; enable p0
    {'ports': [{'value': 5}, {'value': 1}, {'value': 0}],
     'script': [[0, 'expr', 2, 'ADD($p0, $p1)'], [500, 'disable', 0], [800, 'source', 1, 9], [1200, 'enable', 0]],
     'tick_ms': 50, 'settle_ms': 6000, 'extras': True},
    # F16: follower p1 = $p0 disabled while its own write is in flight, re-enabled during a pass after its turn
    {'ports': [{'value': 1}, {'value': 1, 'write_ms': 200}, {'value': 0, 'read_ms': 100}],
     'script': [[0, 'expr', 1, '$p0'], [500, 'source', 0, 2], [700, 'disable', 1], [900, 'source', 0, 1], [1100, 'enable', 1]],
     'tick_ms': 50, 'settle_ms': 6000, 'extras': True},
    # F13: write transform MUL($, 2) on a follower of p0; p0: 3 -> 6: the short-cut compares 6 with the read-back 6
    {'ports': [{'value': 3}, {'value': 0}],
     'script': [[0, 'twrite', 1, 'MUL($, 2)'], [20, 'expr', 1, '$p0'], [600, 'source', 0, 6]],
     'tick_ms': 50, 'settle_ms': 6000, 'extras': True},
]


def run_worker(scenarios):
    env = dict(os.environ)
    env['PYTHONPATH'] = coq.VERIF + ':' + repo.REPO
    p = subprocess.run([sys.executable, '-m', 'harness.props.c01_worker'], input=json.dumps(scenarios), capture_output=True,
                       text=True, env=env, cwd=coq.VERIF, timeout=1800)
    if p.returncode != 0:
        raise RuntimeError('worker failed: ' + p.stderr[-1500:])
    return json.loads(p.stdout)


def parse_expr(text):
    """-> Coq Expr.Syntax.expr literal (the texts are the ones the generator / the hub's str() produce)"""
    from harness.props import c02
    text = text.strip()
    if text.startswith('$'):
        return '(PortVal %s)' % coq.string(text[1:])
    if '(' in text:
        name, rest = text.split('(', 1)
        inner = rest[:-1]
        args, depth, cur = [], 0, ''
        for ch in inner:
            if ch == ',' and depth == 0:
                args.append(cur)
                cur = ''
                continue
            depth += ch == '('
            depth -= ch == ')'
            cur += ch
        if cur.strip():
            args.append(cur)
        return '(Call %s %s)' % (coq.string(name.strip()), coq.lst([parse_expr(a) for a in args]))
    return '(Lit (Some (VInt %s)))' % coq.z(int(text))


def oz(v):
    return 'None' if v is None else '(Some %s)' % coq.z(int(v))


def coq_event(ev):
    k = ev[0]
    if k in ('PassBegin', 'PassEnd'):
        return k
    if k in ('PassRead', 'PassSkip', 'Eval', 'WriteEnd', 'Enable', 'Disable'):
        return '(%s %d%%nat)' % (k, ev[1])
    if k == 'SourceSet':
        return '(SourceSet %d%%nat %s)' % (ev[1], oz(ev[2]))
    if k == 'SetExpr':
        return '(SetExpr %d%%nat %s)' % (ev[1], parse_expr(ev[2]))
    return None


HEADER = 'From QT Require Import C01.Run.\nOpen Scope Z_scope.\n'


def with_skips(trace, n):
    """insert PassSkip events: update() walks the ports in registry order and skips the disabled ones; the decision for a
    port is taken synchronously right after the previous pass event (PassBegin or the previous port's read)"""
    out = []
    expected = None          # index of the next port the running pass will look at
    last_pass_pos = None     # position in out right after which skip decisions were taken
    for ev in trace:
        k = ev[0]
        if k == 'PassBegin':
            out.append(ev)
            expected, last_pass_pos = 0, len(out)
        elif k == 'PassRead' and expected is not None:
            skipped = [['PassSkip', i] for i in range(expected, ev[1])]
            out[last_pass_pos:last_pass_pos] = skipped
            out.append(ev)
            expected, last_pass_pos = ev[1] + 1, len(out)
        elif k == 'PassEnd' and expected is not None:
            skipped = [['PassSkip', i] for i in range(expected, n)]
            out[last_pass_pos:last_pass_pos] = skipped
            out.append(ev)
            expected, last_pass_pos = None, None
        else:
            out.append(ev)
    return out


def check_batch(ctx, res, scenarios, tag):
    t0 = time.time()
    results = run_worker(scenarios)
    res['extra']['impl_wall_s'] = round(res['extra'].get('impl_wall_s', 0) + time.time() - t0, 2)
    model_rows, model_meta, spec_rows, spec_meta = [], [], [], []
    d = res['distribution']
    for sc, r in zip(scenarios, results):
        res['evaluations'] += 1
        if r.get('error'):
            res['tie_failures'].append({'scenario': sc, 'note': 'worker error: ' + r['error'][-400:]})
            continue
        d['events'] = d.get('events', 0) + len(r['trace'])
        d['quiescent'] = d.get('quiescent', 0) + int(bool(r['quiescent']))
        d['with_slow_read'] = d.get('with_slow_read', 0) + int(any(p.get('read_ms') for p in sc['ports']))
        d['with_slow_write'] = d.get('with_slow_write', 0) + int(any(p.get('write_ms') for p in sc['ports']))
        d['with_enable_disable'] = d.get('with_enable_disable', 0) + int(bool(sc.get('extras')))
        init_vals = [p['value'] for p in sc['ports']]
        # trace acceptance only for scenarios inside the model's alphabet
        evs = [coq_event(e) for e in with_skips(r['trace'], len(sc['ports']))]
        if all(e is not None for e in evs):
            model_rows.append('(%s, [%s], %s)' % (
                coq.lst(init_vals, oz), '; '.join(evs),
                coq.lst(r['final'], lambda f: '(%s, %s)' % (oz(f[0]), oz(f[1])))))
            model_meta.append((sc, r))
        # the specification, on what the implementation reports at quiescence (all ports enabled, no transforms in force)
        if r['quiescent'] and not any(r['twrite']):
            spec_rows.append('(%s, %s, %s)' % (
                coq.lst(r['exprs'], lambda t: 'None' if t is None else '(Some %s)' % parse_expr(t)),
                coq.lst(r['final'], lambda f: '(%s, %s)' % (oz(f[0]), oz(f[1]))),
                coq.lst(r['enabled'], coq.boolean)))
            spec_meta.append((sc, r))
        elif not r['quiescent']:
            d['not_quiescent'] = d.get('not_quiescent', 0) + 1
        for idx, want, got in r.get('tw_mismatch') or []:
            res['violations'].append({
                'key': {'kind': 'write-transform-not-inverse-of-read-transform'},
                'what': 'port p%d has a write transform; quiescent, its driver holds %r but transform(expression value) is %r'
                        % (idx, got, want),
                'case': sc, 'observed': {'final': r['final'], 'exprs': r['exprs'], 'twrite': r['twrite']}})
    if not ctx.model_ok:
        res['tie_failures'].append('model not built; traces not evaluated')
        return
    shards = ['Definition cases := [\n %s].\nDefinition scases := [\n %s].\n' % (';\n '.join(model_rows), ';\n '.join(spec_rows))]
    if not model_rows or not spec_rows:
        return
    outs = coq.eval_shards(ctx.workdir, 'c01' + tag, HEADER, shards, ['bad_model cases', 'bad_spec scases'], timeout=1200)
    for rc, lists, err in outs:
        if rc != 0 or len(lists) != 2:
            res['tie_failures'].append('coqc failed on the C01 cases: %s' % err[-800:])
            continue
        codes, bad_spec = lists
        for (sc, r), code in zip(model_meta, codes):
            if code == 1:
                res['tie_failures'].append({'note': 'the implementation took a step the model refuses', 'scenario': _short(sc),
                                            'trace_len': len(r['trace'])})
            elif code == 2:
                res['tie_failures'].append({'note': 'final state differs from the model', 'scenario': _short(sc), 'final': r['final']})
        for i in bad_spec:
            sc, r = spec_meta[i]
            kinds = sorted({c[1] for c in sc['script']})
            res['violations'].append({
                'key': {'kind': 'not-following-at-quiescence', 'uses_enable_disable': bool(sc.get('extras')),
                        'slow_read': any(p.get('read_ms') for p in sc['ports']),
                        'expression_port_disabled_while_busy': bool(r.get('disabled_busy'))},
                'what': 'quiescent hub, but a port does not hold the value of its expression: final (last, driver) = %r, '
                        'expressions = %r' % (r['final'], r['exprs']),
                'case': sc, 'observed': {'final': r['final'], 'exprs': r['exprs'], 'log': r['log'][-25:]},
            })
    res['distinct_nontrivial'] += sum(1 for sc, r in zip(scenarios, results)
                                      if not r.get('error') and any('WriteEnd' == e[0] for e in r['trace'])
                                      and (any(p.get('read_ms') for p in sc['ports']) or any(p.get('write_ms') for p in sc['ports'])))


def _short(sc):
    return {'ports': sc['ports'], 'script': sc['script']}


# ----------------------------------------------------------------------------------------------------------------
# second stream: typed ports (number / integer / boolean; harness ports and the hub's own VirtualPort), unavailable values

RICH_KINDS = ['hint', 'hnum', 'hbool', 'vint', 'vnum', 'vbool']
RICH_FUNCS = {'ADD': (2, 3), 'SUB': (2, 2), 'MUL': (2, 2), 'DIV': (2, 2), 'MIN': (2, 3), 'MAX': (2, 3), 'IF': (3, 3), 'GT': (2, 2),
              'LT': (2, 2), 'EQ': (2, 2), 'AND': (2, 2), 'OR': (2, 2), 'NOT': (1, 1), 'ABS': (1, 1), 'FLOOR': (1, 1), 'CEIL': (1, 1),
              'ROUND': (1, 1), 'AVAILABLE': (1, 1), 'DEFAULT': (2, 2), 'SGN': (1, 1), 'AVG': (2, 3)}
COQ_KIND = {'hint': 'KInt', 'vint': 'KInt', 'hnum': 'KNum', 'vnum': 'KNum', 'hbool': 'KBool', 'vbool': 'KBool'}


RICH_TWRITES = {
    'MUL($, 2)': ('call', 'MUL', [('self',), ('lit', '2', 2)]),
    'DIV($, 2)': ('call', 'DIV', [('self',), ('lit', '2', 2)]),
    'ADD($, 1)': ('call', 'ADD', [('self',), ('lit', '1', 1)]),
    'ADD($, 0)': ('call', 'ADD', [('self',), ('lit', '0', 0)]),
    'SUB(0, $)': ('call', 'SUB', [('lit', '0', 0), ('self',)]),
    'NOT($)': ('call', 'NOT', [('self',)]),
    'MUL($, 0.5)': ('call', 'MUL', [('self',), ('lit', '0.5', 0.5)]),
}


def rich_value(rng, kind):
    if rng.random() < 0.15:
        return None
    if kind.endswith('bool'):
        return rng.random() < 0.5
    if kind.endswith('int'):
        return rng.randint(-5, 10)
    return rng.choice([0.0, 0.5, 1.0, 2.5, -1.5, 3.0, 7.25, 10.0, -0.0, float(rng.randint(-5, 10))])


def rich_tree(rng, refs, depth):
    from harness.props import c02
    if depth <= 0 or rng.random() < 0.3:
        r = rng.random()
        if r < 0.7:
            return ('pv', rng.choice(refs))
        if r < 0.76:
            return ('lit', 'unavailable', None)          # e.g. IF($sel, $src, unavailable): the port must become unavailable
        return ('lit',) + c02.lit_text(None, rng.choice([0, 1, 2, 3, -1, 5, 0.5, 2.5, 10]))
    name = rng.choice(sorted(RICH_FUNCS))
    lo, hi = RICH_FUNCS[name]
    return ('call', name, [rich_tree(rng, refs, depth - 1) for _ in range(rng.randint(lo, hi))])


def gen_rich(rng):
    n = rng.randint(2, 6)
    ports = []
    for i in range(n):
        k = rng.choice(RICH_KINDS)
        ports.append({'id': 'p%d' % i, 'kind': k, 'value': rich_value(rng, k), 'internal': rng.random() < 0.25})
    script, trees = [], {}
    followers = sorted(rng.sample(range(1, n), rng.randint(1, n - 1)))
    for q in followers:
        t = rich_tree(rng, ['p%d' % j for j in range(q)], rng.choice([0, 1, 1, 2, 3]))
        if t[0] == 'lit':
            t = ('pv', 'p%d' % rng.randrange(q))
        if rng.random() < 0.15:
            # results the port cannot take for some source values (int(inf): OverflowError, float(complex): TypeError): the
            # evaluation task must survive them and follow again afterwards
            a = ('pv', 'p%d' % rng.randrange(q))
            t = rng.choice([
                ('call', 'MUL', [('call', 'MUL', [a, ('lit', '1e308', 1e308)]), ('lit', '1e10', 1e10)]),
                ('call', 'IF', [('call', 'GT', [a, ('lit', '2', 2)]), ('call', 'POW', [('lit', '-4', -4), ('lit', '0.5', 0.5)]), a]),
            ])
        trees['p%d' % q] = t
    for q in followers:
        if rng.random() < 0.2:
            ports[q]['twrite'] = rng.choice(sorted(RICH_TWRITES))
    order = list(followers)
    rng.shuffle(order)
    pending = list(order)
    sources = [i for i in range(n) if i not in followers]
    off = set()
    faulted = set()
    for _ in range(rng.randint(2, 9)):
        r = rng.random()
        hsrc = [i for i in sources if ports[i]['kind'].startswith('h') and not ports[i]['internal'] and i not in off and i not in faulted]   # internal / disabled / backed-off ports raise no event
        if pending and r < 0.12 and hsrc:
            # the expression is assigned by a synchronous event handler in the middle of a polling pass
            q = pending.pop()
            i = rng.choice(hsrc)
            script.append(['expr-in-handler', 'p%d' % q, trees['p%d' % q], 'p%d' % i, ('toggle', ports[i]['kind'])])
        elif pending and r < 0.5:
            q = pending.pop()
            script.append(['expr', 'p%d' % q, trees['p%d' % q]])
        elif r < 0.58 and [i for i in sources if ports[i]['kind'].startswith('v') and i not in off]:
            # a virtual port that is read by others goes away and comes back under the same id
            i = rng.choice([i for i in sources if ports[i]['kind'].startswith('v') and i not in off])
            script.append(['readd', 'p%d' % i, rich_value(rng, ports[i]['kind'])])
        elif r < 0.66 and len(sources) > 1 and [j for j in sources if ports[j]['kind'].startswith('h')]:
            # another port fails to read, once, in the pass that sees the change of a source (that port is then left alone
            # for the 10 s of its read-error back-off: it is not used as a trigger afterwards)
            j = rng.choice([j for j in sources if ports[j]['kind'].startswith('h')])
            i = rng.choice([i for i in sources if i != j])
            faulted.add(j)
            script.append(['set+fault', 'p%d' % i, rich_value(rng, ports[i]['kind']), 'p%d' % j,
                           rng.choice(['OSError', 'ValueError', 'RuntimeError', 'TimeoutError'])])
        elif r < 0.9 or not sources:
            i = rng.choice(sources) if sources else 0
            script.append(['set', 'p%d' % i, rich_value(rng, ports[i]['kind'])])
        else:
            i = rng.choice(sources)
            script.append(['disable', 'p%d' % i])
            off.add(i)
            script.append(['set', 'p%d' % rng.choice(sources), rich_value(rng, ports[rng.choice(sources)]['kind'])])
            if rng.random() < 0.8:
                script.append(['enable', 'p%d' % i])
                off.discard(i)
    for q in pending:
        script.append(['expr', 'p%d' % q, trees['p%d' % q]])
    if sources and rng.random() < 0.8:       # mostly finish with changes after every expression is in place
        for _ in range(rng.randint(1, 3)):
            i = rng.choice(sources)
            script.append(['set', 'p%d' % i, rich_value(rng, ports[i]['kind'])])
    # the value an in-handler assignment is triggered by must differ from what the source shows at that moment
    cur = {p['id']: p['value'] for p in ports}
    for c in script:
        if c[0] in ('set', 'set+fault'):
            cur[c[1]] = c[2]
        elif c[0] == 'expr-in-handler':
            old = cur.get(c[3])
            k = c[4][1]
            new = (not old) if k.endswith('bool') else ((old or 0) + 1)
            c[4] = bool(new) if k.endswith('bool') else (int(new) if k.endswith('int') else float(new))
            cur[c[3]] = c[4]
    # 'set' values must fit the kind of the port they go to
    for c in script:
        if c[0] in ('set', 'readd', 'set+fault'):
            k = ports[int(c[1][1:])]['kind']
            v = c[2]
            if v is not None:
                c[2] = bool(v) if k.endswith('bool') else (int(v) if k.endswith('int') else float(v))
    failed_restore_first = rng.random() < 0.1
    # some of the changes of a harness port are seen by a pass during which another task adds an unrelated port to the hub
    # (drawn from a generator of its own, seeded by the script)
    rng2 = random.Random(repr(script))
    for c in script:
        if c[0] == 'set' and ports[int(c[1][1:])]['kind'].startswith('h') and rng2.random() < 0.25:
            c[0] = 'set+add-during-read'
    return {'ports': ports, 'script': script, 'failed_restore_first': failed_restore_first}


RICH_CORPUS = [
    # the registry of ports changes (an unrelated port is added by another task) while the pass that sees a change is suspended
    # in a driver read: the pass must go on and the change must reach the expressions that read the port
    {'ports': [{'id': 'p0', 'kind': 'hint', 'value': 1}, {'id': 'p1', 'kind': 'hint', 'value': 0}, {'id': 'p2', 'kind': 'vint', 'value': None}],
     'script': [['expr', 'p2', ('call', 'MUL', [('pv', 'p0'), ('lit', '10', 10)])], ['set+add-during-read', 'p0', 2]]},
    # unavailability that comes from the literal, through a lazily evaluated branch
    {'ports': [{'id': 'p0', 'kind': 'hbool', 'value': True}, {'id': 'p1', 'kind': 'hnum', 'value': 5.0}, {'id': 'p2', 'kind': 'vnum', 'value': None}],
     'script': [['expr', 'p2', ('call', 'IF', [('pv', 'p0'), ('pv', 'p1'), ('lit', 'unavailable', None)])], ['set', 'p0', False]]},
    # disabling a port changes the value of the expressions that tolerate a disabled port (DEFAULT / AVAILABLE)
    {'ports': [{'id': 'p0', 'kind': 'hint', 'value': 0}, {'id': 'p1', 'kind': 'hint', 'value': 5}, {'id': 'p2', 'kind': 'vbool', 'value': None}],
     'script': [['expr', 'p1', ('call', 'DEFAULT', [('pv', 'p0'), ('lit', '1', 1)])], ['expr', 'p2', ('call', 'AVAILABLE', [('pv', 'p0')])],
                ['disable', 'p0']]},
    # a virtual follower of a sensor that becomes unavailable must become unavailable itself
    {'ports': [{'id': 'p0', 'kind': 'hnum', 'value': 21.5}, {'id': 'p1', 'kind': 'vnum', 'value': None},
               {'id': 'p2', 'kind': 'vnum', 'value': None}],
     'script': [['expr', 'p1', ('pv', 'p0')], ['expr', 'p2', ('call', 'ADD', [('pv', 'p1'), ('lit', '1', 1)])], ['set', 'p0', None]]},
    # boolean and integer coercion of a float result
    {'ports': [{'id': 'p0', 'kind': 'hnum', 'value': 2.5}, {'id': 'p1', 'kind': 'hint', 'value': 0}, {'id': 'p2', 'kind': 'vbool', 'value': None}],
     'script': [['expr', 'p1', ('call', 'MUL', [('pv', 'p0'), ('lit', '1.5', 1.5)])], ['expr', 'p2', ('call', 'SUB', [('pv', 'p0'), ('lit', '2.5', 2.5)])],
                ['set', 'p0', -0.5]]},
]


def run_rich_worker(scenarios):
    from harness.props import c01_rich_worker as w
    from harness.props import c02
    wire = []
    for sc in scenarios:
        script = []
        for c in sc['script']:
            if c[0] == 'expr':
                script.append([c[0], c[1], c02.text_of(c[2])])
            elif c[0] == 'expr-in-handler':
                script.append([c[0], c[1], c02.text_of(c[2]), c[3], w.enc(c[4])])
            elif c[0] in ('set', 'readd', 'set+add-during-read'):
                script.append([c[0], c[1], w.enc(c[2])])
            elif c[0] == 'set+fault':
                script.append([c[0], c[1], w.enc(c[2]), c[3], c[4]])
            else:
                script.append(c)
        wire.append({'ports': [{'id': p['id'], 'kind': p['kind'], 'value': w.enc(p['value']), 'internal': bool(p.get('internal')),
                                'twrite': p.get('twrite')} for p in sc['ports']], 'script': script,
                     'failed_restore_first': bool(sc.get('failed_restore_first'))})
    env = dict(os.environ)
    env['PYTHONPATH'] = coq.VERIF + ':' + repo.REPO
    p = subprocess.run([sys.executable, '-m', 'harness.props.c01_rich_worker'], input=json.dumps(wire), capture_output=True,
                       text=True, env=env, cwd=coq.VERIF, timeout=1800)
    if p.returncode != 0:
        raise RuntimeError('worker failed: ' + p.stderr[-1500:])
    return wire, json.loads(p.stdout)


def check_rich(ctx, res, scenarios, tag):
    from harness.common import pyvals
    from harness.props import c01_rich_worker as w
    from harness.props import c02
    t0 = time.time()
    wire, results = run_rich_worker(scenarios)
    res['extra']['impl_wall_s'] = round(res['extra'].get('impl_wall_s', 0) + time.time() - t0, 2)
    rows, meta = [], []
    d = res['distribution']
    for sc, ws, r in zip(scenarios, wire, results):
        res['evaluations'] += 1
        d['typed_scenarios'] = d.get('typed_scenarios', 0) + 1
        if r.get('error'):
            res['tie_failures'].append({'scenario': ws, 'note': 'typed stream: worker error: ' + r['error'][-500:]})
            continue
        if not r['quiescent']:
            d['typed_not_quiescent'] = d.get('typed_not_quiescent', 0) + 1
            res['tie_failures'].append({'scenario': ws, 'note': 'typed stream: the hub did not come to rest'})
            continue
        trees = {}
        for c in sc['script']:
            if c[0] in ('expr', 'expr-in-handler'):
                trees[c[1]] = c[2]
        if sc.get('failed_restore_first'):
            d['typed_after_refused_restore'] = d.get('typed_after_refused_restore', 0) + 1
            if not str(r.get('restore_outcome')).startswith('400'):
                res['tie_failures'].append({'scenario': ws, 'note': 'typed stream: the malformed restore was answered %r' % r.get('restore_outcome')})
        if r.get('armed_left'):
            res['tie_failures'].append({'scenario': ws, 'note': 'typed stream: an in-handler assignment was never triggered'})
            continue
        d['typed_expr_assigned_mid_pass'] = d.get('typed_expr_assigned_mid_pass', 0) + sum(1 for c in sc['script'] if c[0] == 'expr-in-handler')
        d['typed_read_fault_in_the_pass_of_a_change'] = d.get('typed_read_fault_in_the_pass_of_a_change', 0) + sum(1 for c in sc['script'] if c[0] == 'set+fault')
        if r.get('passes_aborted_by_an_exception'):
            d['typed_passes_aborted'] = d.get('typed_passes_aborted', 0) + r['passes_aborted_by_an_exception']
        d['typed_internal_ports'] = d.get('typed_internal_ports', 0) + sum(1 for p in sc['ports'] if p.get('internal'))
        for pid, kind, en, last, text, tw in r['ports']:
            d['typed_kind:' + kind] = d.get('typed_kind:' + kind, 0) + 1
            if last is None:
                d['typed_unavailable_at_rest'] = d.get('typed_unavailable_at_rest', 0) + 1
            if (pid in trees) != (text is not None):
                res['tie_failures'].append({'scenario': ws, 'note': 'typed stream: port %s expression %r after assigning %r'
                                                                    % (pid, text, c02.text_of(trees[pid]) if pid in trees else None)})
        ps = coq.lst(['(%s, %s, %s, %s)' % (coq.string(pid), COQ_KIND[kind], coq.boolean(en), pyvals.opt_pyval(w.dec(last)))
                      for pid, kind, en, last, text, tw in r['ports']])
        tws = {p['id']: p.get('twrite') for p in sc['ports']}
        for pid, kind, en, last, text, tw in r['ports']:
            if (tw or None) != (tws.get(pid) or None):
                res['tie_failures'].append({'scenario': ws, 'note': 'typed stream: port %s write transform %r, assigned %r' % (pid, tw, tws.get(pid))})
        d['typed_with_write_transform'] = d.get('typed_with_write_transform', 0) + sum(1 for q in trees if tws.get(q))
        d['typed_port_added_while_a_pass_is_in_a_read'] = d.get('typed_port_added_while_a_pass_is_in_a_read', 0) + sum(1 for c in sc['script'] if c[0] == 'set+add-during-read')
        d['typed_port_removed_and_added_again'] = d.get('typed_port_removed_and_added_again', 0) + sum(1 for c in sc['script'] if c[0] == 'readd')
        ex = coq.lst(['(%s, %s, %s)' % (coq.string(q), c02.coq_expr(t),
                                       'None' if not tws.get(q) else '(Some %s)' % c02.coq_expr(RICH_TWRITES[tws[q]]))
                      for q, t in sorted(trees.items())])
        rows.append('(%s, %s)' % (ps, ex))
        meta.append((ws, r))
    if not ctx.model_ok:
        res['tie_failures'].append('model not built; typed cases not evaluated')
        return
    if not rows:
        return
    outs = coq.eval_shards(ctx.workdir, 'c01rich' + tag, 'From QT Require Import C01.RichRun.\nOpen Scope Z_scope.\n',
                           ['Definition rcases : list (list rport * list (string * expr * option expr)) := [\n %s].\n' % ';\n '.join(rows)],
                           ['bad_rich rcases'], timeout=1200)
    for rc, lists, err in outs:
        if rc != 0 or len(lists) != 1:
            res['tie_failures'].append('coqc failed on the typed C01 cases: %s' % err[-800:])
            continue
        for i in lists[0]:
            ws, r = meta[i]
            res['violations'].append({
                'key': {'kind': 'not-following-at-quiescence', 'stream': 'typed',
                        'unavailable_involved': any(p[3] is None for p in r['ports']),
                        'virtual_follower': any(p[1].startswith('v') and p[4] for p in r['ports']),
                        'write_transform': any(p[5] for p in r['ports'])},
                'what': 'quiescent hub, but a port does not hold the (coerced) value of its expression, or is not unavailable '
                        'while its expression is: ports (id, kind, enabled, last value, expression) = %r' % (r['ports'],),
                'case': ws, 'observed': r['ports']})


def check(ctx, res):
    res['rule'] = ('scenarios of 2-6 integer ports (sources + followers with acyclic stateless expressions), driver read latencies '
                   '0-120 ms and write latencies 0-200 ms, bursts of source changes incl. a->b->a inside a write latency, 25% with '
                   'disable/enable of a read port; real update_loop at 50 ms ticks on a virtual clock; distinct non-trivial = '
                   'scenario with at least one driver write and at least one non-zero latency. Second stream: 2-6 typed ports '
                   '(harness number/integer/boolean ports and real virtual ports), random stateless expressions of depth <= 3 over '
                   '21 functions, source changes incl. unavailable, disable/enable of sources; checked at rest after every command')
    n = ctx.n(160, 6000)
    scenarios = list(CORPUS) + [gen_scenario(ctx.rng, True) for _ in range(n)]
    for i in range(0, len(scenarios), 400):
        check_batch(ctx, res, scenarios[i:i + 400], 'b%d' % i)
    for sc in scenarios[:4]:
        res['samples'].append(_short(sc))
    rich = list(RICH_CORPUS) + [gen_rich(ctx.rng) for _ in range(ctx.n(600, 6000))]
    for i in range(0, len(rich), 1000):
        check_rich(ctx, res, rich[i:i + 1000], 'r%d' % i)


def search(ctx, res):
    scenarios = [gen_scenario(ctx.rng, False) for _ in range(ctx.n(600, 6000))]
    for i in range(0, len(scenarios), 400):
        check_batch(ctx, res, scenarios[i:i + 400], 's%d' % i)
    rich = [gen_rich(ctx.rng) for _ in range(ctx.n(1500, 6000))]
    for i in range(0, len(rich), 1000):
        check_rich(ctx, res, rich[i:i + 1000], 'sr%d' % i)


REPLAY_HELP = 'echo "[<case>]" | PYTHONPATH=/verif:/repo /venv/bin/python -m harness.props.c01_worker'

LEVEL_TEXT = (
    'Coq theorem over a labelled transition system of the hub (non-atomic polling passes, per-port evaluation task with its '
    'queue of snapshots, stale-compare short-cut, write completion at echo drivers, source changes, expression assignment at any '
    'moment, enabling and disabling of ports) '
    'instantiated with the concrete expression language: an inductive invariant (coverage of every dependency change by a '
    'queued/pending evaluation, freshness of the last read value whenever the evaluation task compares against it) proved for '
    'every event gives convergence at every quiescent state reachable by ANY trace; plus re-evaluation after every dependency '
    'change and only then, and the frame property from deps_sound. Whether the evaluation task refreshes after its own write and '
    'whether enabling and disabling a port force a full evaluation are regenerated from ports.py on every run (the theorem '
    'needs all three); the real polling loop, evaluation and write tasks are run on a virtual clock with '
    'scripted latencies and every step they take must be accepted by the LTS; the convergence predicate is also evaluated on '
    'the implementation at quiescence.'
)
LEVEL_NOTE = (
    'Trusted: Coq kernel incl. vm_compute; translator evalwrite.py; vloop and the instrumentation wrappers; asyncio scheduling '
    'is modelled by one LTS event per suspension point. Theorem scope is partial: integer ports, echo/source drivers, no '
    'transforms (known finding F13 lives there), ports with an expression are disabled only at rest (premise of the theorem; '
    'the busy case is refuted in History/C01Old.v and is known finding F16); port types other than integer, virtual ports, '
    'unavailable values and coercion are covered by the second (typed) correspondence stream, whose specification is evaluated '
    'in Coq (C01/RichRun.v) but is not part of the LTS theorem. '
    'No axioms (Print Assumptions: closed).'
)
TECHNIQUE = 'Coq proof of an inductive invariant over an LTS (any trace length/interleaving); translator + trace acceptance on a virtual clock'
