"""C16 — time-processing functions follow their temporal specification; the hub's pausing never changes a port's value.

Theorems: coq/theories/Props/C16.v.
Tie: (T) Gen/C16Gen.v regenerated from timeprocessing.py / base.py / main.py / __init__.py (constants, the shape of every
pause_asap_eval call, the skip rule) and Gen/FuncTable.v (arities, DEPS) + (C) random sample histories evaluated on the real
function objects (outputs, the pause deadline AND which arguments were evaluated, inputs being values / unavailable / disabled
per sample) against the Coq model (vm_compute), against the Coq specification (Spec.v, ArgModel.v spec_o), end to end on REAL
ports with a slow driver write under the real main.update / push_eval / eval queue on the virtual clock (c16_worker.py:
hub-scheduled vs. forced-every-tick evaluation must leave the same value once the inputs are quiet), and end to end: every-tick evaluation against evaluation gated by the real
main.handle_value_changes, with the function at top level and nested.
"""
import asyncio
import fractions
import json
import math
import os
import time

from harness.common import coq, pyvals
from harness.translate import functable, timefuncs

ID = 'C16'
PROPS = 'theories/Props/C16.v'
MODEL_TARGETS = ['theories/C16/Run.vo']
TRANSLATORS = [functable.translate, timefuncs.translate]
TIE = ('translator (constants, pause_asap_eval call shapes, Expression.eval/pause bodies, main skip rule, registry) + '
       'correspondence by vm_compute on generated sample histories (outputs and pause deadlines) + end-to-end pause comparison '
       'through the real main.handle_value_changes')
ALLOWED_AXIOMS = []
TRUSTED_BASE = [
    'harness/translate/timefuncs.py (reads constants, the pause_asap_eval call shapes, the order of argument evaluation relative '
    'to the early exits of every _eval, base.py bodies, the main.py skip rule)',
    'harness/translate/functable.py (arities and DEPS of the fourteen functions)',
    'correspondence harness harness/props/c16.py: fake port registry over core.ports.get / get_all; the real function objects '
    'are driven with explicit EvalContext(port_values, now_ms); the real main.handle_value_changes decides which ticks evaluate',
    'harness/props/c16_worker.py + harness/common/vloop.py: real core.ports.Port subclasses (source ports, an output port whose '
    'write_value sleeps), real main.update / handle_value_changes / push_eval / _eval_loop / write queue on a virtual clock',
    'modelled, not verified: CPython numeric semantics (Base/PyNum.v), list.sort as the stable sorted permutation (no NaN), '
    'asyncio.gather (arguments are plain port values / literals here), the asyncio eval queue (an evaluation is assumed to '
    'finish within its tick, so has_pending_eval() is false)',
]
ASSUMPTIONS = [
    'argument outcomes (value / unavailable / error per sample) are modelled by ostep (ArgModel.v) and tied incl. which $port '
    'arguments are evaluated; history-level outcome theorems exclude FREEZE and SEQUENCE; the pause-invariant theorem is about '
    'evaluated arguments: the 1 s error pause and '
    'pausing functions whose argument itself depends on time (another time-processing function, MILLISECOND()), are outside '
    'the theorems; the latter REFUTES the pause invariant (History/C16Nested.v) and is reported by the end-to-end oracle as '
    'the known finding {kind: pause, position: nested-time-dependent-argument} (notes/C16.md finding 2)',
    'specification theorems: positive times, well-shaped arguments, no Python exception raised along the history; DELAY: '
    'constant delay, non-decreasing times, fewer than HISTORY_SIZE-1 pending changes; FREEZE: non-decreasing times; '
    'FMAVG/FMEDIAN: constant integer width >= 1',
    'pause-invariant theorem: time parameters (delay, duration, sampling interval) are Python ints/bools (exact arithmetic); '
    'float-typed ones, including literals (which the parser turns into floats), are covered by the bit-exact tie of the pause '
    'deadline and by the end-to-end comparison only; DELAY values are not NaN',
    'HELD with duration 0 answers false on the first matching sample (the code needs a second evaluation)',
]

FUNCS = ['DELAY', 'SAMPLE', 'FREEZE', 'HELD', 'DERIV', 'INTEG', 'FMAVG', 'FMEDIAN', 'RISING', 'FALLING', 'ACC', 'ACCINC', 'HYST',
         'SEQUENCE']
CODE = {f: i for i, f in enumerate(FUNCS)}
ASAP = ['DELAY', 'SAMPLE', 'FREEZE', 'HELD', 'DERIV', 'INTEG', 'FMAVG', 'FMEDIAN', 'SEQUENCE']
ROLES = {
    'DELAY': 'vd', 'SAMPLE': 'vd', 'FREEZE': 'vd', 'HELD': 'vxd', 'DERIV': 'vd', 'INTEG': 'vad', 'FMAVG': 'vwd', 'FMEDIAN': 'vwd',
    'RISING': 'v', 'FALLING': 'v', 'ACC': 'va', 'ACCINC': 'va', 'HYST': 'vtt',
}
STRIDE = 10000
T0 = 1700000000000
DAY = 86400000

VAL_PALETTES = [[0, 1], [19, 21, 22], [1, 1.0, True], [0.5, 1.5, -0.5], [0, -0.0, 0.0], [False, True], [3, 3, 7], [0.1, 0.2, 0.30000000000000004],
                [10, 20, 30, 40], [2 ** 53, 2 ** 53 + 1, 9007199254740992.0], [1e16, -1e16, 1], [-1, 0, 1, 2], [100, 100.5, 99.5]]
VAL_ODD = [float('inf'), float('-inf'), 1e308, -1e308, 5e-324, 2 ** 70, -(2 ** 70), 123.456, float('nan')]
DUR_POOL = [100, 200, 250, 300, 500, 1000, 1000.0, 1500, 2000, 2000.0, 999.5, 0.5, 1, 0, 0.0, -1, True, 700, 1200.0, 3000, 150.25,
            DAY, DAY + 1, 10 ** 13, 5000]
DUR_ODD = [float('nan'), float('inf'), -1000, 1e13, 2 ** 60]
WIDTH_POOL = [1, 2, 3, 4, 5, 8, 3, 2, 4, 2.5, 3.0, 0, -1, 0.5, 1024, 2000, True, 16]
WIDTH_ODD = [float('nan'), float('inf'), float('-inf'), -0.5, 1e3]


class FakePort:
    def __init__(self, pid):
        self._id = pid
        self.expression = None
        self.pushed = 0
        self.enabled = True

    def get_id(self):
        return self._id

    def is_enabled(self):
        return self.enabled

    def get_last_read_value(self):
        return None

    def get_expression(self):
        return self.expression

    def push_eval(self):
        self.pushed += 1

    def has_pending_eval(self):
        return False


_installed = {}
_lookups = {}          # port id -> number of core.ports.get() calls = evaluations of the `$port` argument (PortValue._eval)
DISABLED = 'disabled'  # marker in a tick's port values: the port exists but is disabled (PortValue raises DisabledPort)


def install():
    """fake port registry: $p1..$p9 exist and are enabled; `out` carries the expression under test in the end-to-end runs"""
    if _installed:
        return _installed
    from qtoggleserver.core import expressions  # noqa: F401  (must be imported before core.ports)
    from qtoggleserver.core import ports as core_ports
    reg = {'p%d' % i: FakePort('p%d' % i) for i in range(1, 10)}
    reg['out'] = FakePort('out')
    def counting_get(pid):
        _lookups[pid] = _lookups.get(pid, 0) + 1
        return reg.get(pid)
    core_ports.get = counting_get
    core_ports.get_all = lambda: [reg['out']]
    _installed.update(reg)
    return _installed


# ---------------------------------------------------------------------------------------------------- generation

def lit_text(v):
    if isinstance(v, bool):
        return 'true' if v else 'false'
    if isinstance(v, int):
        return str(v)
    return repr(v)


def lit_value(v):
    """what LiteralValue._eval returns for the literal text of v"""
    return float(int(v)) if isinstance(v, bool) else float(v)


def gen_times(rng, n):
    mode = rng.choice(['regular', 'regular', 'irregular', 'jumps', 'mixed'])
    t = rng.choice([T0 + rng.randint(0, 10 ** 9), T0, 1000, 5, 1552559696654, rng.randint(1, 2 ** 41)])
    tick = rng.choice([100, 100, 200, 250, 500, 1000, rng.randint(100, 1000)])
    out = []
    for _ in range(n):
        out.append(t)
        r = rng.random()
        if mode == 'regular':
            dt = tick
        elif mode == 'irregular':
            dt = rng.choice([1, 10, 50, 100, 137, 999, 1000, 1001, 5000, 60000, tick, tick, rng.randint(0, 3000)])
        elif mode == 'jumps':
            dt = tick
            if r < 0.08:
                dt = rng.choice([DAY, DAY + 1, DAY - 1, DAY + rng.randint(2, 10 ** 7), 3 * DAY, DAY + tick])
            elif r < 0.12 and t > 2 * DAY:
                dt = -rng.choice([DAY + 1, DAY + rng.randint(2, 10 ** 6), 5000, tick])
        else:
            dt = rng.choice([tick, tick, tick, 0, 1, 2 * tick, rng.randint(0, 2000)])
            if r < 0.03:
                dt = rng.choice([DAY + 1, DAY])
            elif r < 0.05 and t > 2 * DAY:
                dt = -rng.randint(1, DAY + 5)
        t = max(1, t + dt)
    return out, mode


def gen_signal(rng, n, odd_ok=True, nan_ok=True):
    pal = list(rng.choice(VAL_PALETTES))
    if odd_ok and rng.random() < 0.12:
        x = rng.choice(VAL_ODD)
        if nan_ok or x == x:
            pal.append(x)
    p_change = rng.choice([0.05, 0.1, 0.2, 0.4, 0.7])
    v = rng.choice(pal)
    out = []
    for _ in range(n):
        out.append(v)
        if rng.random() < p_change:
            v = rng.choice(pal)
    return out


def gen_param(rng, role, n, sig_pal):
    """-> (literal?, [value per sample])"""
    if role == 'd':
        pool, odd = DUR_POOL, DUR_ODD
    elif role == 'w':
        pool, odd = WIDTH_POOL, WIDTH_ODD
    else:       # x (HELD's fixed value), a (accumulator), t (threshold)
        pool, odd = sig_pal + [0, 1, 20, 2.5], VAL_ODD
    def pick():
        return rng.choice(odd) if rng.random() < 0.04 else rng.choice(pool)
    r = rng.random()
    if r < 0.4:
        v = pick()
        return True, [lit_value(v)] * n, lit_text(v)
    if r < 0.8:
        v = pick()
        return False, [v] * n, None
    v = pick()
    out = []
    for _ in range(n):
        out.append(v)
        if rng.random() < 0.12:
            v = pick()
    return False, out, None


def inject_failures(rng, vals):
    """stretches of 1-5 samples in which the port is unavailable (value None) or disabled"""
    out = list(vals)
    p = rng.choice([0.04, 0.08, 0.15])
    i = 0
    while i < len(out):
        if i > 0 and rng.random() < p:
            kind = None if rng.random() < 0.7 else DISABLED
            for _ in range(rng.choice([1, 1, 2, 3, 5])):
                if i < len(out):
                    out[i] = kind
                    i += 1
        i += 1
    return out


def gen_history(rng, fname, n=None, faulty=None):
    """-> {'function', 'text', 'ticks': [(now_ms, {port: value | None | DISABLED})], 'args': [[argument outcomes] per tick], 'mode'}"""
    n = n or rng.choice([8, 10, 12, 16, 20, 24, 30, 40, 60])
    if faulty is None:
        faulty = rng.random() < 0.35
    times, mode = gen_times(rng, n)
    nan_ok = fname != 'FMEDIAN'
    sig = gen_signal(rng, n, nan_ok=nan_ok)
    sig_pal = sorted(set(x for x in sig if x == x and not math.isinf(x)), key=repr)[:4] or [0]
    if fname == 'SEQUENCE':
        k = rng.choice([2, 3, 4, 4, 5, 6, 7])
        roles = ''.join('vd'[i % 2] for i in range(k))
    else:
        roles = ROLES[fname]
    cols, texts = [], []
    port_no = 0
    for j, role in enumerate(roles):
        if role == 'v' and (j == 0 or rng.random() < 0.5):
            port_no += 1
            cols.append(('p%d' % port_no, sig if j == 0 else gen_signal(rng, n, nan_ok=nan_ok)))
            texts.append('$p%d' % port_no)
            continue
        if role == 'w' and not nan_ok:
            lit, vals, text = gen_param(rng, role, n, sig_pal)
            vals = [3 if v != v else v for v in vals]
            if lit and text == 'nan':
                text, vals = '3', [3.0] * n
        else:
            lit, vals, text = gen_param(rng, 'x' if role == 'v' else role, n, sig_pal)
        if lit:
            cols.append((None, vals))
            texts.append(text)
        else:
            port_no += 1
            cols.append(('p%d' % port_no, vals))
            texts.append('$p%d' % port_no)
    if faulty:
        cols = [(p, inject_failures(rng, vals) if p and rng.random() < 0.7 else vals) for p, vals in cols]
    ticks = [(times[i], {p: vals[i] for p, vals in cols if p}) for i in range(n)]
    args = [[vals[i] for _, vals in cols] for i in range(n)]
    return {'function': fname, 'text': '%s(%s)' % (fname, ', '.join(texts)), 'ticks': ticks, 'args': args, 'mode': mode,
            'faulty': bool(faulty)}


# ---------------------------------------------------------------------------------------------------- implementation

def exc_code(e):
    for cls, c in ((ZeroDivisionError, 0), (OverflowError, 1), (ValueError, 2), (TypeError, 3), (IndexError, 5)):
        if isinstance(e, cls):
            return c
    return 99


def arg_ports(text):
    """positions of the `$port` arguments of F(a, b, ...) with plain arguments: {position: port id}"""
    inner = text[text.index('(') + 1:text.rindex(')')]
    return {i: p.strip()[1:] for i, p in enumerate(inner.split(',')) if p.strip().startswith('$')}


async def eval_history(text, ticks):
    """drive the real function object; -> [(outcome, deadline, evaluated)], outcome = ('val', v) | ('none',) | ('skipped',)
    | ('exc', code) | ('unavail',) | ('err',); evaluated = positions of the `$port` arguments that were evaluated (counted
    through the port registry look-up every PortValue._eval makes)"""
    from qtoggleserver.core import expressions
    from qtoggleserver.core.expressions import EvalContext, ROLE_VALUE
    from qtoggleserver.core.expressions.exceptions import EvalSkipped, ExpressionEvalError, ValueUnavailable
    reg = install()
    e = expressions.parse(None, text, ROLE_VALUE)
    try:
        pos = arg_ports(text)
    except ValueError:
        pos = {}
    out = []
    try:
        for now, pv in ticks:
            ctxv = {}
            for p, v in pv.items():
                reg[p].enabled = not isinstance(v, str)
                ctxv[p] = None if not reg[p].enabled else v
            _lookups.clear()
            try:
                v = await e.eval(EvalContext(ctxv, now))
                if v is None:
                    o = ('none',)
                elif isinstance(v, (bool, int, float)):
                    o = ('val', v)
                else:
                    o = ('err',)
            except EvalSkipped:
                o = ('skipped',)
            except ValueUnavailable:
                o = ('unavail',)
            except ExpressionEvalError:
                o = ('err',)
            except Exception as x:
                o = ('exc', exc_code(x))
            out.append((o, e._asap_eval_paused_until_ms, sorted(i for i, p in pos.items() if _lookups.get(p))))
    finally:
        for p in reg.values():
            p.enabled = True
    return out


def same_value(a, b):
    if a is None or b is None:
        return a is b
    return a == b or (a != a and b != b)


async def run_hub(text, ticks, gated):
    """the port's value after every tick; gated = only the ticks the real main.handle_value_changes pushes an evaluation for"""
    from qtoggleserver.core import expressions, main
    from qtoggleserver.core.expressions import EvalContext, ROLE_VALUE
    from qtoggleserver.core.expressions.exceptions import ExpressionEvalError
    reg = install()
    port = reg['out']
    e = expressions.parse('out', text, ROLE_VALUE)
    port.expression = e
    out, val, prev = [], None, None
    evaluated = 0
    try:
        main._force_eval_expression_ports.clear()
        main.force_eval_expressions()            # what main.init() does at start-up
        for now, pv in ticks:
            if gated:
                changed = {'asap'} | {'$' + k for k in pv if prev is None or not same_value(prev.get(k), pv[k])}
                port.pushed = 0
                await main.handle_value_changes(changed, {}, fractions.Fraction(now, 1000))
                do = port.pushed > 0
            else:
                main._force_eval_all_expressions = False
                do = True
            if do:
                evaluated += 1
                try:
                    v = await e.eval(EvalContext(dict(pv), now))
                    val = v
                except ExpressionEvalError:
                    pass
                except Exception:
                    pass
            out.append(val)
            prev = pv
    finally:
        port.expression = None
        main._force_eval_all_expressions = False
    return out, evaluated


def pause_differs(text, ticks):
    a, na = asyncio.run(run_hub(text, ticks, True))
    b, nb = asyncio.run(run_hub(text, ticks, False))
    for i, (x, y) in enumerate(zip(a, b)):
        if not same_value(x, y):
            return i, a, b, na
    return None, a, b, na


def shrink_ticks(text, ticks, budget=150):
    """greedy delta debugging on the tick list, then simplification of time stamps; the disagreement must persist"""
    def bad(ts):
        return len(ts) > 0 and pause_differs(text, ts)[0] is not None
    cur = list(ticks)
    first = pause_differs(text, cur)[0]
    cur = cur[:first + 1]
    chunk = max(1, len(cur) // 2)
    while chunk >= 1 and budget > 0:
        i = 0
        progressed = False
        while i < len(cur) and budget > 0:
            cand = cur[:i] + cur[i + chunk:]
            budget -= 1
            if bad(cand):
                cur = cand
                progressed = True
            else:
                i += chunk
        if chunk == 1 and not progressed:
            break
        chunk = max(1, chunk // 2) if chunk > 1 else (1 if progressed else 0)
    return cur


# ---------------------------------------------------------------------------------------------------- Coq side

HEADER = 'From QT Require Import C16.Run.\nFrom Coq Require Import Uint63.\nOpen Scope uint63_scope.\n'


def zlit(n):
    """Z literal built from primitive-integer numerals (see C16/Run.v)"""
    n = int(n)
    if 0 <= n < 2 ** 62:
        return '(zi %d)' % n
    if -(2 ** 62) < n < 0:
        return '(zn %d)' % -n
    a, digits = abs(n), []
    while a:
        digits.append(a % 2 ** 62)
        a >>= 62
    return '(zl %s [%s])' % (coq.boolean(n < 0), '; '.join(str(d) for d in digits))


def vlit(v):
    if isinstance(v, bool):
        return '(VBool %s)' % coq.boolean(v)
    if isinstance(v, int):
        return '(vi %d)' % v if 0 <= v < 2 ** 62 else '(VInt %s)' % zlit(v)
    if v != v:
        return '(VFloat S754_nan)'
    s = coq.boolean(math.copysign(1.0, v) < 0)
    if v == 0:
        return '(VFloat (S754_zero %s))' % s
    if math.isinf(v):
        return '(VFloat (S754_infinity %s))' % s
    m, e = math.frexp(abs(v))
    mi = int(m * (1 << 53))
    e -= 53
    if e < -1074:
        sh = -1074 - e
        assert mi % (1 << sh) == 0
        mi >>= sh
        e = -1074
    return '(vf %s %d %s)' % (s, mi, zlit(e))


def coq_outc(o):
    if o[0] == 'val':
        return '(OVal %s)' % vlit(o[1])
    if o[0] == 'none':
        return 'ONone'
    if o[0] == 'skipped':
        return 'OSkipped'
    if o[0] == 'exc':
        return '(OExc %s)' % zlit(o[1])
    raise ValueError(o)


def coq_xout(tb, o):
    if o[0] == 'unavail':
        return 'XUnavail'
    if o[0] == 'err':
        return 'XErr'
    return tb.name('o', 'xout', '(XOut %s)' % ('(OVal %s)' % tb.val(o[1]) if o[0] == 'val' else coq_outc(o)))


class Tables:
    """per shard: every distinct value / argument list / outcome is defined once and referred to by a short name
    (coqc's parse + elaboration time is proportional to the size of the text)"""

    def __init__(self):
        self.defs = []
        self.names = {}

    def name(self, prefix, typ, text):
        k = (prefix, text)
        if k not in self.names:
            n = '%s%d' % (prefix, len(self.names))
            self.names[k] = n
            self.defs.append('Definition %s : %s := %s.' % (n, typ, text))
        return self.names[k]

    def val(self, v):
        return self.name('v', 'pyval', vlit(v))

    def args(self, a):
        al = 'an'
        for x in reversed(a):
            ao = 'AUnavail' if x is None else 'AErr' if isinstance(x, str) else '(AVal %s)' % self.val(x)
            al = '(ac %s %s)' % (ao, al)
        return self.name('a', 'list argo', al)

    def zs(self, l):
        return self.name('e', 'list Z', '[%s]%%Z' % '; '.join('%d' % i for i in l))


def coq_case(tb, h, obs, want_spec=True):
    body = 'on'
    for (now, _pv), a, (o, d, ev) in reversed(list(zip(h['ticks'], h['args'], obs))):
        body = '(r %d %s %s %s %s\n %s)' % (now, tb.args(a), coq_xout(tb, o), tb.val(d), tb.zs(ev), body) if 0 <= now < 2 ** 62 else \
            '(oc (ob %s %s %s %s %s)\n %s)' % (zlit(now), tb.args(a), coq_xout(tb, o), tb.val(d), tb.zs(ev), body)
    try:
        mask = sorted(arg_ports(h['text']))
    except ValueError:
        mask = []
    return '(cs %s %s %s %s)' % (zlit(CODE[h['function']]), coq.boolean(want_spec), tb.zs(mask), body)


def shard_text(items):
    tb = Tables()
    body = 'cn'
    for h, obs, sp in reversed(items):
        body = '(cc %s\n %s)' % (coq_case(tb, h, obs, sp), body)
    return '\n'.join(tb.defs) + '\nDefinition cases : list case := %s.\nOpen Scope Z_scope.\n' % body


def describe_out(o):
    return [o[0]] + [pyvals.describe(x) if isinstance(x, (bool, int, float)) else x for x in o[1:]]


def describe_in(v):
    """a port's state at one tick: a value, unavailable (None) or disabled"""
    if v is None:
        return {'unavailable': True}
    if isinstance(v, str):
        return {'disabled': True}
    return pyvals.describe(v)


def history_json(h, obs=None, upto=None):
    n = len(h['ticks']) if upto is None else upto + 1
    d = {'function': h['function'], 'expression': h['text'],
         'ticks': [[now, {p: describe_in(v) for p, v in pv.items()}] for now, pv in h['ticks'][:n]]}
    if obs is not None:
        d['implementation'] = [{'outcome': describe_out(o), 'paused_until_ms': pyvals.describe(dl), 'evaluated_port_arguments': ev}
                               for o, dl, ev in obs[:n]]
    return d


def undescribe(d):
    if 'unavailable' in d:
        return None
    if 'disabled' in d:
        return DISABLED
    if 'bool' in d:
        return bool(d['bool'])
    if 'int' in d:
        return int(d['int'])
    return float.fromhex(d['float'])


def history_from_json(j):
    """rebuild a history (with evaluated arguments) from its JSON form: the expression's arguments are $ports or literals"""
    text = j['expression']
    fname = text[:text.index('(')]
    inner = text[text.index('(') + 1:text.rindex(')')]
    parts = [p.strip() for p in inner.split(',')]
    ticks = [(int(now), {p: undescribe(v) for p, v in pv.items()}) for now, pv in j['ticks']]
    args = []
    for now, pv in ticks:
        row = []
        for p in parts:
            if p.startswith('$'):
                row.append(pv[p[1:]])
            elif p in ('true', 'false'):
                row.append(1.0 if p == 'true' else 0.0)
            else:
                row.append(float(p))
        args.append(row)
    return {'function': fname, 'text': text, 'ticks': ticks, 'args': args, 'mode': 'replay'}


def classify_spec(h, step):
    return {'kind': 'spec', 'function': h['function']}


def eval_batch(ctx, res, items, tag):
    """items: [(history, want_spec)].  Runs the implementation, then the Coq model and specification."""
    install()
    t0 = time.time()

    async def run_all():
        return [await eval_history(h['text'], h['ticks']) for h, _ in items]
    observed = asyncio.run(run_all())
    t_impl = time.time() - t0
    res['evaluations'] += sum(len(o) for o in observed)
    if not ctx.model_ok:
        res['tie_failures'].append('model not built; %d histories not evaluated' % len(items))
        return observed
    per = 500
    shards, metas = [], []
    triples = [(h, obs, sp) for (h, sp), obs in zip(items, observed)]
    # the long histories get shards of their own (they run beside the others)
    for t in [t for t in triples if len(t[0]['ticks']) > 200]:
        shards.append(shard_text([t]))
        metas.append([t])
    rest = [t for t in triples if len(t[0]['ticks']) <= 200]
    for i in range(0, len(rest), per):
        shards.append(shard_text(rest[i:i + per]))
        metas.append(rest[i:i + per])
    t0 = time.time()
    outs = coq.eval_shards(ctx.workdir, 'c16_' + tag, HEADER, shards, ['bad_model cases', 'bad_spec cases'], jobs=2, timeout=1500)
    t_coq = time.time() - t0
    for (rc, lists, err), chunk in zip(outs, metas):
        if rc != 0 or len(lists) != 2:
            res['tie_failures'].append('coqc failed on a case shard (%s): %s' % (tag, err[-600:]))
            continue
        bad_model, bad_spec = lists
        for code in bad_model:
            ci, step = divmod(code, STRIDE)
            h, obs, _ = chunk[ci]
            res['tie_failures'].append({'note': 'model differs from implementation at evaluation %d' % step,
                                        'history': history_json(h, obs, step)})
        for code in bad_spec:
            ci, step = divmod(code, STRIDE)
            h, obs, _ = chunk[ci]
            res['violations'].append({
                'key': classify_spec(h, step),
                'what': '%s: evaluation %d of the history answers %r having evaluated its $port arguments at positions %r, which '
                        'contradicts the specification (Spec.v spec_%s / ArgModel.v spec_o, spec_evaluated)'
                        % (h['text'], step, obs[step][0], obs[step][2], h['function']),
                'case': dict(history_json(h, obs, step), kind='spec'),
                'observed': describe_out(obs[step][0]),
            })
    ex = res['extra']
    ex['impl_wall_s'] = round(ex.get('impl_wall_s', 0) + t_impl, 2)
    ex['coq_wall_s'] = round(ex.get('coq_wall_s', 0) + t_coq, 2)
    return observed


# ---------------------------------------------------------------------------------------------------- end-to-end pauses

def gen_hub_case(rng, fname, nested=None):
    """a tick sequence in which inputs change rarely, so that pauses decide which ticks evaluate"""
    n = rng.choice([30, 45, 65, 80])
    tick = rng.choice([100, 100, 100, 200, 250, 500])
    t = T0 + rng.randint(0, 10 ** 6)
    h = gen_history(rng, fname, n, faulty=False)
    # regular ticks (occasionally one long gap), rare input changes
    times = []
    for i in range(n):
        times.append(t)
        t += tick if rng.random() > 0.03 else rng.choice([tick * 7, 5000, DAY + 1])
    ports = sorted({p for _, pv in h['ticks'] for p in pv})
    cur = dict(h['ticks'][0][1])
    ticks = []
    p_change = rng.choice([0.03, 0.06, 0.12, 0.3])
    for i in range(n):
        for p in ports:
            if rng.random() < p_change:
                cur[p] = h['ticks'][i][1][p]
        ticks.append((times[i], dict(cur)))
    text = h['text']
    if text.startswith(fname + '($p1') and rng.random() < 0.5:
        # the usual way these functions are used: the signal is a condition on a port, so the port can change while the
        # function's argument stays the same
        vals = sorted((v for _, pv in ticks for v in [pv['p1']] if v == v), key=float)
        c = vals[len(vals) // 2] if vals else 0
        cond = rng.choice(['GT($p1, %s)', 'GTE($p1, %s)', 'LT($p1, %s)', 'NOT(EQ($p1, %s))']) % lit_text(c if not isinstance(c, bool) else int(c))
        text = fname + '(' + cond + text[len(fname) + 4:]
    if nested:
        text = nested % text
    return text, ticks


NESTINGS = ['ADD(%s, 0)', 'IF(1, %s, 7)', 'MUL(%s, 1)']
TIME_IN_TIME = ['HELD(DELAY($p1, 1000), 1, 2000)', 'FREEZE(DELAY($p1, 1000), 500)', 'HELD(SAMPLE($p1, 700), 1, 500)',
                'FREEZE(HELD($p1, 1, 800), 300)', 'DELAY(HELD($p1, 1, 1500), 1000)', 'DERIV(DELAY($p1, 900), 500)',
                'HELD(LT(MILLISECOND(), 500), 1, 200)', 'FREEZE(GT(MILLISECOND(), 500), 300)', 'SAMPLE(MILLISECOND(), 300)']


def ticks_json(ticks):
    return [[now, {p: pyvals.describe(v) for p, v in pv.items()}] for now, pv in ticks]


def hub_compare(ctx, res, n_cases, rng):
    install()
    dist = res['distribution']
    skipped_ticks = 0
    total_ticks = 0
    seen = set()
    for i in range(n_cases):
        fname = ASAP[i % len(ASAP)]
        nested = None if (i // len(ASAP)) % 2 == 0 else rng.choice(NESTINGS)
        text, ticks = gen_hub_case(rng, fname, nested)
        first, a, b, n_eval = pause_differs(text, ticks)
        res['evaluations'] += 2 * len(ticks)
        total_ticks += len(ticks)
        skipped_ticks += len(ticks) - n_eval
        k = 'hub:%s:%s' % (fname, 'nested' if nested else 'top')
        dist[k] = dist.get(k, 0) + 1
        if first is None:
            continue
        key = {'kind': 'pause', 'function': fname, 'position': 'nested' if nested else 'top'}
        if (fname, bool(nested)) in seen:
            continue
        seen.add((fname, bool(nested)))
        small = shrink_ticks(text, ticks)
        f2, a2, b2, _ = pause_differs(text, small)
        res['violations'].append({
            'key': key,
            'what': 'port carrying %s: evaluating only when main.handle_value_changes allows gives %r at tick %d, evaluating '
                    'on every tick gives %r (%d ticks)' % (text, a2[f2], f2, b2[f2], len(small)),
            'case': {'kind': 'pause', 'expression': text, 'ticks': ticks_json(small),
                     'port_value_with_pauses': [None if x is None else pyvals.describe(x) for x in a2],
                     'port_value_every_tick': [None if x is None else pyvals.describe(x) for x in b2]},
            'expected': [None if x is None else pyvals.describe(x) for x in b2],
            'observed': [None if x is None else pyvals.describe(x) for x in a2],
        })
    ex = res['extra']
    ex['hub_cases'] = ex.get('hub_cases', 0) + n_cases
    ex['hub_ticks'] = ex.get('hub_ticks', 0) + total_ticks
    ex['hub_ticks_skipped_by_pause'] = ex.get('hub_ticks_skipped_by_pause', 0) + skipped_ticks


NESTED_KEY = {'kind': 'pause', 'position': 'nested-time-dependent-argument'}


def probe_time_in_time(res, rng):
    """a pausing function whose ARGUMENT depends on time (another time-processing function, MILLISECOND()): gated vs.
    every-tick evaluation through the real main.handle_value_changes.  Each differing expression is a violation of the
    property's last sentence, keyed NESTED_KEY (a known finding, see notes/C16.md finding 2).  Real objects only: these
    expressions never enter the model tie (the step functions take evaluated arguments)."""
    install()
    bad = []
    for text in TIME_IN_TIME:
        sig = [0] * 5 + [1] * 60
        ticks = [(T0 + 100 * i, {'p1': v}) for i, v in enumerate(sig)]
        first, a, b, _ = pause_differs(text, ticks)
        res['evaluations'] += 2 * len(ticks)
        if first is None:
            continue
        bad.append({'expression': text, 'first_differing_tick': first})
        ticks = ticks[:first + 1]
        res['violations'].append({
            'key': dict(NESTED_KEY),
            'what': 'port carrying %s (an argument that itself depends on time): evaluating only when main.handle_value_changes '
                    'allows gives %r at tick %d, evaluating on every tick gives %r' % (text, a[first], first, b[first]),
            'case': {'kind': 'pause', 'position': NESTED_KEY['position'], 'expression': text, 'ticks': ticks_json(ticks)},
            'expected': [None if x is None else pyvals.describe(x) for x in b[:first + 1]],
            'observed': [None if x is None else pyvals.describe(x) for x in a[:first + 1]],
        })
    res['extra']['nested_time_in_time'] = {
        'note': 'reported as violations with key %r (known finding, notes/C16.md finding 2)' % (NESTED_KEY,),
        'probed': len(TIME_IN_TIME), 'differ': bad}


# ---------------------------------------------------------------------------------------------------- real ports, slow writes

QUEUE_FUNCS = ['HELD', 'HELD', 'HELD', 'FREEZE', 'FREEZE', 'DELAY', 'DELAY', 'SAMPLE', 'DERIV', 'FMAVG', 'FMEDIAN']
QUEUE_KEY = {'kind': 'pause', 'position': 'hub-eval-queue'}


def gen_queue_scenario(rng):
    """an expression on a real output port with a slow driver write; dependency changes land while a write is in progress and
    an evaluation is queued behind it; then the inputs stay constant until everything has drained (harness/props/c16_worker.py)"""
    f = rng.choice(QUEUE_FUNCS)
    pars = [100, 150, 200, 300, 500]
    if f == 'HELD':
        expr, out_type, out_init = 'HELD($inp, %d, $par)' % rng.choice([1, 1, 0, 2]), 'boolean', True
    elif f in ('FMAVG', 'FMEDIAN'):
        expr, out_type, out_init = '%s($inp, %d, $par)' % (f, rng.choice([2, 3])), 'number', 7
    else:
        expr, out_type, out_init = '%s($inp, $par)' % f, 'number', 7
    wlat = rng.choice([0, 100, 200, 400, 400, 400])
    tick = rng.choice([20, 50, 50])
    inp, par = rng.choice([0, 0, 1, 2]), rng.choice(pars)
    events = []
    t = rng.choice([60, 100, 100, 150])
    cur_inp, cur_par = inp, par
    for _ in range(rng.choice([2, 2, 3, 4, 6])):
        if rng.random() < 0.45:
            cur_par = rng.choice([p for p in pars if p != cur_par])
            events.append([t, 'par', cur_par])
        else:
            cur_inp = rng.choice([v for v in (0, 1, 2) if v != cur_inp])
            events.append([t, 'inp', cur_inp])
        t += rng.choice([40, 60, 100, 100, 150, 300, wlat + 50, 700])
    return {'function': f, 'expr': expr, 'out_type': out_type, 'out_init': out_init, 'inp': inp, 'par': par, 'wlat': wlat,
            'tick': tick, 'events': events, 'quiet': 2500 + 3 * max(pars) + 4 * wlat}


def run_queue_worker(scenarios, timeout=900):
    import subprocess
    import sys as _sys
    p = subprocess.run([_sys.executable, '-m', 'harness.props.c16_worker'], input=json.dumps(scenarios), capture_output=True,
                       text=True, timeout=timeout, cwd=coq.VERIF)
    if p.returncode != 0:
        raise RuntimeError('c16_worker failed: ' + p.stderr[-800:])
    return json.loads(p.stdout)


def queue_violation(sc, r, name=None):
    small = r.get('shrunk') or sc
    g, f = (r.get('shrunk_gated'), r.get('shrunk_forced')) if r.get('shrunk') else (r['gated'], r['forced'])
    fname = sc.get('function') or sc['expr'][:sc['expr'].index('(')]
    return {
        'key': dict(QUEUE_KEY, function=fname),
        'what': '%sreal output port (driver write takes %d ms) carrying %s, inputs %r then constant for %d ms: the port ends at %r '
                'under the hub\'s scheduling of evaluations, at %r when an evaluation is forced on every tick'
                % ('corpus %s: ' % name if name else '', small['wlat'], small['expr'], small['events'], small['quiet'], g, f),
        'case': dict({k: v for k, v in small.items() if k != 'shrink'}, kind='hub-queue'),
        'expected': f, 'observed': g,
    }


def queue_compare(ctx, res, n, rng):
    t0 = time.time()
    scs = [gen_queue_scenario(rng) for _ in range(n)]
    try:
        results = run_queue_worker(scs)
    except Exception as e:
        res['tie_failures'].append('real-port stream (c16_worker) did not run: %s' % str(e)[-600:])
        return
    seen = set()
    dist = res['distribution']
    nerr = 0
    for sc, r in zip(scs, results):
        k = 'queue:%s:wlat%d' % (sc['function'], sc['wlat'])
        dist[k] = dist.get(k, 0) + 1
        res['evaluations'] += 2
        if r.get('error'):
            nerr += 1
            if nerr <= 3:
                res['tie_failures'].append('real-port scenario failed to run: %s' % r['error'][-400:])
            continue
        if r.get('busy_at_end'):
            dist['queue:not-quiescent'] = dist.get('queue:not-quiescent', 0) + 1
        if r.get('differs') and sc['function'] not in seen:
            seen.add(sc['function'])
            res['violations'].append(queue_violation(sc, r))
    ex = res['extra']
    ex['queue_scenarios'] = ex.get('queue_scenarios', 0) + n
    ex['queue_wall_s'] = round(ex.get('queue_wall_s', 0) + time.time() - t0, 2)


# ---------------------------------------------------------------------------------------------------- corpus / replay

CORPUS = os.path.join(coq.VERIF, 'corpus', 'C16')


def run_corpus_case(ctx, res, j, name):
    kind = j.get('kind')
    if kind == 'hub-queue':
        sc = {k: v for k, v in j.items() if k not in ('kind', 'note')}
        r = run_queue_worker([dict(sc, shrink=False)])[0]
        res['evaluations'] += 2
        if r.get('error'):
            res['tie_failures'].append('corpus %s did not run: %s' % (name, r['error'][-400:]))
        elif r.get('differs'):
            res['violations'].append(queue_violation(sc, r, name))
        return None
    if kind == 'pause':
        install()
        ticks = [(int(now), {p: undescribe(v) for p, v in pv.items()}) for now, pv in j['ticks']]
        first, a, b, _ = pause_differs(j['expression'], ticks)
        res['evaluations'] += 2 * len(ticks)
        if first is not None:
            fname = j.get('function') or j['expression'][:j['expression'].index('(')]
            key = {'kind': 'pause', 'function': fname, 'position': j.get('position', 'top')}
            if j.get('position') == NESTED_KEY['position']:
                key = dict(NESTED_KEY)
            res['violations'].append({
                'key': key,
                'what': 'corpus %s: port carrying %s gives %r at tick %d when evaluated only as main.handle_value_changes allows, '
                        '%r when evaluated on every tick' % (name, j['expression'], a[first], first, b[first]),
                'case': {'kind': 'pause', 'position': j.get('position', 'top'), 'expression': j['expression'], 'ticks': j['ticks']},
                'expected': [None if x is None else pyvals.describe(x) for x in b],
                'observed': [None if x is None else pyvals.describe(x) for x in a],
            })
        return None
    return history_from_json(j)


def corpus_items(ctx, res):
    items = []
    if not os.path.isdir(CORPUS):
        return items
    for name in sorted(os.listdir(CORPUS)):
        if not name.endswith('.json'):
            continue
        with open(os.path.join(CORPUS, name)) as f:
            j = json.load(f)
        for case in (j if isinstance(j, list) else [j]):
            h = run_corpus_case(ctx, res, case, name)
            if h is not None:
                items.append((h, True))
    return items


def long_histories(rng):
    """queue bounds: more than 1024 pending changes for DELAY, more than 1024 accepted samples for FMAVG (model tie only)"""
    n = 1100
    d = {'function': 'DELAY', 'text': 'DELAY($p1, $p2)', 'mode': 'long',
         'ticks': [(T0 + 10 * i, {'p1': i % 7, 'p2': 20000}) for i in range(n)] +
                  [(T0 + 10 * n + 3000 * i, {'p1': 3, 'p2': 20000}) for i in range(8)]}
    d['args'] = [[pv['p1'], pv['p2']] for _, pv in d['ticks']]
    a = {'function': 'FMAVG', 'text': 'FMAVG($p1, 2000, 10)', 'mode': 'long',
         'ticks': [(T0 + 10 * i, {'p1': (i * 37) % 101}) for i in range(n)]}
    a['args'] = [[pv['p1'], 2000.0, 10.0] for _, pv in a['ticks']]
    return [(d, False), (a, False)]


# ---------------------------------------------------------------------------------------------------- entry points

def _distribution(res, items):
    dist = res['distribution']
    distinct = set()
    for h, _ in items:
        dist[h['function']] = dist.get(h['function'], 0) + 1
        dist['times:' + h['mode']] = dist.get('times:' + h['mode'], 0) + 1
        ln = len(h['ticks'])
        b = 'len:<=12' if ln <= 12 else 'len:<=30' if ln <= 30 else 'len:<=60' if ln <= 60 else 'len:>60'
        dist[b] = dist.get(b, 0) + 1
        if '$p2' in h['text'] or '$p3' in h['text']:
            dist['with_port_parameters'] = dist.get('with_port_parameters', 0) + 1
        if h.get('faulty'):
            dist['with_unavailable_or_disabled_inputs'] = dist.get('with_unavailable_or_disabled_inputs', 0) + 1
        # non-trivial: at least 8 samples and the first argument takes at least two different values
        firsts = {repr(a[0]) for a in h['args']}
        if ln >= 8 and len(firsts) >= 2:
            distinct.add((h['text'], tuple(t for t, _ in h['ticks'][:6]), tuple(repr(a) for a in h['args'][:6])))
    res['distinct_nontrivial'] += len(distinct)


def _outcome_distribution(res, observed):
    dist = res['distribution']
    for obs in observed:
        for o, d, _ev in obs:
            k = 'outcome:' + o[0]
            dist[k] = dist.get(k, 0) + 1
            if d:
                dist['paused_evaluations'] = dist.get('paused_evaluations', 0) + 1


def run_generated(ctx, res, n_per_fn, n_hub, tag, with_corpus, n_queue=0):
    rng = ctx.rng
    items = []
    if with_corpus:
        items += corpus_items(ctx, res)
        items += long_histories(rng)
    for fname in FUNCS:
        for _ in range(n_per_fn):
            items.append((gen_history(rng, fname), True))
    _distribution(res, items)
    observed = eval_batch(ctx, res, items, tag)
    _outcome_distribution(res, observed)
    for (h, _), obs in list(zip(items, observed))[len(items) - 14 * n_per_fn::max(1, n_per_fn)][:12]:
        res['samples'].append(history_json(h, obs, 5))
    t0 = time.time()
    hub_compare(ctx, res, n_hub, rng)
    res['extra']['hub_wall_s'] = round(res['extra'].get('hub_wall_s', 0) + time.time() - t0, 2)
    if n_queue:
        queue_compare(ctx, res, n_queue, rng)


def replay(ctx, res):
    with open(ctx.replay) as f:
        j = json.load(f)
    case = j.get('case', j)
    h = run_corpus_case(ctx, res, case, os.path.basename(ctx.replay))
    if h is not None:
        eval_batch(ctx, res, [(h, True)], 'replay')


def check(ctx, res):
    res['rule'] = (
        'per function: random sample histories of 8-60 evaluations (regular 100-1000 ms ticks, irregular gaps, jumps of more '
        'than a day forwards and backwards, repeated time stamps), signal values from small palettes (so that values repeat) '
        'plus boundary ints/bools/floats, parameters as literals or as ports (constant or changing between evaluations), in 35% of '
        'the histories stretches of samples in which a port is unavailable or disabled; '
        'outputs, pause deadlines and evaluated $port arguments of the real objects against the Coq model, outputs and evaluated '
        'arguments against the Coq specification of the effective history at every '
        'evaluation; plus tick sequences with rare input changes evaluated on every tick vs. gated by the real '
        'main.handle_value_changes (top level and nested in ADD/IF/MUL); plus real ports under the real hub on the virtual clock: '
        'an output port with a 0-400 ms driver write carrying HELD/FREEZE/DELAY/SAMPLE/DERIV/FMAVG/FMEDIAN of two source ports, 2-6 '
        'dependency changes clustered around the first writes (so that they land while an evaluation is queued behind a write), '
        'then quiet: final port value with the hub\'s scheduling vs. an evaluation forced on every tick.  distinct = distinct (expression, first six samples); '
        'non-trivial = at least 8 samples and at least two different signal values')
    if ctx.replay:
        replay(ctx, res)
        return
    n = ctx.n(1300, 30000)        # thorough: about 25 minutes on this machine (100000 took 79 min)
    # thorough runs are split in rounds to bound memory
    rounds = 1 if n <= 3000 else (n + 2999) // 3000
    per = n // rounds
    for r in range(rounds):
        run_generated(ctx, res, per, ctx.n(900, 6000) if r == 0 else 0, 'r%d' % r, with_corpus=(r == 0),
                      n_queue=ctx.n(500, 6000) if r == 0 else 0)
        if res['violations']:
            break
    probe_time_in_time(res, ctx.rng)


def search(ctx, res):
    """the proof or the tie broke: look harder for a concrete failing input (spec oracle and end-to-end pause comparison)"""
    run_generated(ctx, res, ctx.n(1500, 6000), ctx.n(4500, 30000), 'search', with_corpus=False, n_queue=ctx.n(3000, 12000))


REPLAY_HELP = ('bin/check C16 --replay <this file>; kind "pause": parse the expression with expressions.parse("out", text, 1), walk '
               'the ticks [now_ms, port values], evaluate with EvalContext(port_values, now_ms) (a) on every tick and (b) only when '
               'main.handle_value_changes({"asap"} + changed "$port" ids, {}, now_ms/1000) pushes an evaluation; kind "spec": '
               'evaluate on every tick and compare with Spec.v')

LEVEL_TEXT = (
    'Coq theorems over a Gallina model of the fourteen history-dependent expression functions as step functions (state, now, '
    'evaluated arguments) -> (state, outcome, pause), of Expression.eval/pause_asap_eval and of the main loop\'s skip rule: for '
    'every history each function equals its specification written as a function of the sample history (induction on the '
    'history), an evaluation skipped by the hub would have changed neither state nor value (paused_eval_noop), hence the port '
    'values with and without pausing coincide for every tick sequence (C16_pause_invariant); time jumps beyond one day yield '
    'no value and restart the sampling chain.  The shape of every pause_asap_eval call, the constants, the bodies of '
    'Expression.eval/pause_asap_eval/is_asap_eval_paused and the skip rule of main.handle_value_changes are re-read from the '
    'source on every run; outputs and pause deadlines of the real function objects are compared bit for bit with the model on '
    'random histories, the outputs with the specification, and gated vs. every-tick evaluation end to end through the real '
    'main.handle_value_changes.')
LEVEL_NOTE = (
    'Trusted: Coq kernel incl. vm_compute; the translators; the correspondence harness and generators. The step functions take '
    'evaluated arguments (failing arguments and time functions nested in time functions are outside). Pause-invariant theorem '
    'for int-typed time parameters (float-typed ones by tie and end-to-end runs only). Specification theorems under the '
    'preconditions listed in Spec.v (DELAY constant delay / monotone time / bounded backlog; FREEZE monotone time; '
    'FMAVG/FMEDIAN constant integer width). No axioms.')
TECHNIQUE = 'Coq proof (induction on sample histories, simulation of gated vs. every-tick evaluation) over a model tied by translator and vm_compute correspondence'
