"""C14 — per-port driver calls never overlap and writes keep request order.

Theorems: coq/theories/Props/C14.v over the labelled transition system coq/theories/C14/Model.v (one port's I/O).
Tie: (C) trace acceptance.  A worker subprocess (harness/props/c14_worker.py) runs schedules against the REAL code on the
virtual-clock loop: real `core_ports.Port` objects whose driver calls are completed by the schedule, the real `main.update()`,
the real `patch_port_value` / `patch_port_sequence`, expression-driven writes, `reset()` and a run-time `core_ports.load` of a
persisted writable port.  One event is logged per step (instrumentation from outside).  Each port's event sequence is then
  * fed to the Coq `step` (vm_compute): `None` = the implementation took a transition the model forbids  -> tie failure;
  * judged by the trace-level specification Spec.v (vm_compute) and by its transcription below                -> violation,
    reported with the schedule shrunk by command removal.
"""
import glob
import itertools
import json
import os
import subprocess
import sys
import time

from harness.common import coq, repo

ID = 'C14'
PROPS = 'theories/Props/C14.v'
MODEL_TARGETS = ['theories/C14/Run.vo']
TRANSLATORS = []
TIE = ('correspondence by trace acceptance: events logged from the real read_transformed_value / _write_value_queued / '
       '_write_value_loop / load_from_data / main.update under generated schedules on a virtual clock, replayed through the '
       'Coq step function and judged by the Coq trace specification (vm_compute)')
ALLOWED_AXIOMS = []
TRUSTED_BASE = [
    'harness/common/vloop.py (virtual-clock asyncio loop: only interleavings at real suspension points)',
    'harness/props/c14_worker.py (driver subclass of core_ports.Port; wrappers of the port queue\'s put_nowait/get_nowait, '
    'of main.update and of read_transformed_value/_write_value_queued log faithfully) and harness/props/c14.py (generators, '
    'Coq literal printer, transcription of Spec.v used for shrinking - cross-checked against the Coq evaluation on every case)',
    'modelled, not verified: asyncio scheduling (suspension points = events), asyncio.Queue, real port drivers (abstracted to '
    'futures completed by the schedule)',
]
ASSUMPTIONS = [
    'readers may be cancelled while they WAIT in the read guard (modelled: ReadCancel); a reader already at the driver is not; '
    'submitters of a write are never cancelled while they wait for their ticket (true of every call site: API requests, '
    'fire_and_forget tasks, the eval loop, which is cancelled after the write loop)',
    'port removal (cleanup() cancels the write loop) is in the schedules for the exclusion, order and drop clauses; that the '
    'tickets pending at removal are never answered (notes/C14.md, finding 2) is not held against the code',
    'a port is loaded once, when it is created (core_ports.load); reset() may run at any time',
    'the exclusion theorems are about driver calls made through read_transformed_value, the write loop and load_from_data; a '
    'driver that calls its own write_value (gpio/dummy handle_enable) is outside',
]

WORKER = 'harness.props.c14_worker'
CAPS = [4, 1024]
KINDS = {1: 'read-overlap', 2: 'write-overlap', 4: 'write-order', 8: 'drop-rule', 16: 'drop-notification',
         32: 'write-result', 64: 'ticket-never-answered', 128: 'submitter-told-wrongly',
         256: 'accepted-value-not-queued'}


# ---------------------------------------------------------------------------------------------------------------------
# schedules

def template(rng, cap=None):
    def lat(choices):
        return rng.choice(choices)
    return {
        's': {'writable': False, 'rlat': lat([0, 0, 20, None])},
        'w': {'writable': True, 'rlat': lat([0, 20, None, None]), 'wlat': lat([None, None, 30, 70]),
              'plain': rng.random() < 0.35},
        'e': {'writable': True, 'expr': rng.choice(['ADD($s, 1)', '$s', 'ADD($s, $w)']), 'rlat': lat([0, 0, 20]),
              'wlat': lat([None, 30, 70]), 'plain': rng.random() < 0.25},
        'pl': {'writable': True, 'late': True, 'rlat': lat([0, 20]), 'wlat': lat([None, None, 30]),
               'plain': rng.random() < 0.35},
    }


def gen_schedule(rng, sid):
    cap = CAPS[sid % 2]
    ports = template(rng)
    n = rng.choice([6, 10, 16, 24, 32])
    cmds = []
    counter = [0]

    # toggle mode: API writes over a two-value alphabet, so that requests carry the value the port currently shows (or showed
    # one write ago) - between a completed write and the following poll the cached value is stale
    toggle = rng.random() < 0.4

    def val():
        counter[0] += 1
        return counter[0]

    def aval():
        return rng.choice([0, 1]) if toggle else val()

    loaded = False
    while len(cmds) < n:
        r = rng.random()
        if r < 0.24:
            p = rng.choice(['w', 'w', 'w', 'e'] + (['pl', 'pl'] if loaded else []))
            for _ in range(rng.choice([1, 1, 1, 2, 3, 6, 7])):
                cmds.append(['ApiWrite', p, aval()])
        elif r < 0.38:
            cmds.append(['Tick'])
        elif r < 0.50:
            cmds.append(['Advance', rng.choice([1, 5, 10, 20, 30, 50, 100, 1000, 1000, 61000, 130000])])
        elif r < 0.58:
            cmds.append(['SetSource', 's', rng.randint(0, 9)])
        elif r < 0.70:
            cmds.append(['CompleteRead', rng.choice(['s', 'w', 'w', 'e', 'pl']), rng.choice(['val'] * 8 + ['skip', 'err'])])
        elif r < 0.85:
            cmds.append(['CompleteWrite', rng.choice(['w', 'w', 'e', 'pl']), rng.choice(['ok'] * 5 + ['exc', 'timeout'])])
        elif r < 0.89:
            k = rng.randint(2, 6)
            cmds.append(['SetSequence', 'w', [val() for _ in range(k)], [rng.choice([0, 5, 10, 40]) for _ in range(k)],
                         rng.choice([1, 1, 2])])
        elif r < 0.92:
            cmds.append(['Reset', rng.choice(['w', 'w', 'e', 's'])])
            if rng.random() < 0.5:
                if rng.random() < 0.5:
                    cmds.append(['Advance', rng.choice([1, 5, 1000])])
                cmds.append(['CancelWaitingReader', cmds[-1][1] if cmds[-1][0] == 'Reset' else cmds[-2][1]])
                if rng.random() < 0.6:
                    cmds.append(rng.choice([['Reset', cmds[-1][1]], ['Tick']]))
        elif r < 0.92 + 0.005 * (len(cmds) > n // 2):
            cmds.append(['Remove', rng.choice(['w', 'w', 'e'])])
        elif r < 0.925:
            cmds.append(['CancelWaitingReader', rng.choice(['w', 'e', 's'])])
        elif r < 0.93:
            cmds.append(['SetExpr', 'e', rng.choice(['', 'ADD($s, 2)', '$s'])])
        elif r < 0.95:
            cmds.append(['SetAttr', rng.choice(['w', 'e', 's']), val()])
        elif r < 0.985:
            p = rng.choice(['w', 'w', 'e', 's'])
            cmds.append(['Disable', p])
            if rng.random() < 0.7:
                cmds.append(rng.choice([['CompleteWrite', p, 'ok'], ['Advance', 50], ['Tick'], ['ApiWrite', p, val()]]))
                cmds.append(['Enable', p])
        elif not loaded:
            cmds.append(['Load', 'pl', val()])
            loaded = True
    return {'id': sid, 'cap': cap, 'ports': ports, 'cmds': cmds}


SMALL_PORTS = {'w': {'writable': True, 'rlat': None, 'wlat': None}}
SMALL_A = [['ApiWrite', 'w', None], ['Tick'], ['CompleteRead', 'w', 'val'], ['CompleteWrite', 'w', 'ok']]
SMALL_B = SMALL_A + [['Reset', 'w']]
SMALL_C = SMALL_B + [['CancelWaitingReader', 'w']]
SMALL_D = SMALL_C + [['Disable', 'w'], ['Enable', 'w']]
SMALL_E = SMALL_A + [['CompleteWrite', 'w', 'timeout']]
SMALL_T = [['ApiWrite', 'w', 0], ['ApiWrite', 'w', 1], ['Tick'], ['CompleteRead', 'w', 'val'], ['CompleteWrite', 'w', 'ok']]
SMALL_L = [['Tick'], ['Reset', 'w'], ['CompleteRead', 'w', 'val'], ['Advance', 61000], ['Advance', 1000]]
SMALL_R = SMALL_A + [['Remove', 'w']]
SMALL_PORTS_PLAIN = {'w': {'writable': True, 'rlat': None, 'wlat': None, 'plain': True}}


def enum_small(alphabet, maxlen, cap, first_id, ports=None):
    """all command sequences of length 1..maxlen over the alphabet, on the one-port template"""
    out = []
    sid = first_id
    for n in range(1, maxlen + 1):
        for combo in itertools.product(range(len(alphabet)), repeat=n):
            cmds, k = [], 0
            for i in combo:
                c = list(alphabet[i])
                if c[0] == 'ApiWrite' and c[2] is None:
                    k += 1
                    c[2] = k
                cmds.append(c)
            out.append({'id': sid, 'cap': cap, 'ports': ports or SMALL_PORTS, 'cmds': cmds})
            sid += 1
    return out


# ---------------------------------------------------------------------------------------------------------------------
# implementation side

def run_worker(ctx, schedules, tag, want_glog=False):
    if want_glog:
        schedules = [dict(s, want_glog=True) for s in schedules]
    ip = os.path.join(ctx.workdir, 'c14_in_%s.json' % tag)
    op = os.path.join(ctx.workdir, 'c14_out_%s.json' % tag)
    with open(ip, 'w') as f:
        json.dump({'schedules': schedules}, f)
    env = dict(os.environ)
    env['PYTHONPATH'] = '%s:%s' % (coq.VERIF, repo.REPO)
    env['PYTHONHASHSEED'] = '0'
    p = subprocess.run([sys.executable, '-m', WORKER, ip, op], capture_output=True, text=True, env=env, timeout=7200,
                       cwd=coq.VERIF)
    if p.returncode != 0 or not os.path.exists(op):
        raise RuntimeError('c14 worker failed (rc=%s): %s' % (p.returncode, (p.stderr or p.stdout)[-1500:]))
    with open(op) as f:
        runs = json.load(f)['runs']
    os.remove(ip)
    os.remove(op)
    return runs


# ---------------------------------------------------------------------------------------------------------------------
# transcription of Spec.v (used to shrink without calling coqc; compared with the Coq evaluation on every case)

def spec_code(cap, drained, tr):
    def excl(starts, ends):
        n = 0
        for e in tr:
            if e[0] in starts:
                if n:
                    return False
                n = 1
            elif e[0] in ends:
                if not n:
                    return False
                n -= 1
        return True

    code = 0
    if not excl(('ReadStart',), ('ReadEnd',)):
        code += 1
    if not excl(('WriteStart', 'DirectStart'), ('WriteEnd', 'DirectEnd')):
        code += 2
    submitted = [(e[1], e[2]) for e in tr if e[0] == 'WriteSubmit']
    failed = [e[3] for e in tr if e[0] == 'WriteSubmit' and e[3] is not None]
    took = [(e[1], e[2]) for e in tr if e[0] == 'WriteTake']
    dwrites = [e[1] for e in tr if e[0] == 'WriteStart']
    wends = [e[1] for e in tr if e[0] == 'WriteEnd']
    delivers = [(e[1], e[2]) for e in tr if e[0] == 'Deliver']
    surviving = [v for v, t in submitted if t not in failed]
    if dwrites != surviving[:len(dwrites)]:
        code += 4
    ok = True
    sub_t, fail_t, took_t = [], [], []
    for e in tr:
        if e[0] == 'WriteSubmit':
            q = [t for t in sub_t if t not in fail_t and t not in took_t]
            d = e[3]
            if d is None:
                ok = ok and not (cap > 0 and cap <= len(q))
            else:
                ok = ok and cap > 0 and len(q) == cap and q[0] == d
            sub_t.append(e[2])
            if d is not None:
                fail_t.append(d)
        elif e[0] == 'WriteTake':
            took_t.append(e[2])
    if not ok:
        code += 8
    dt = [t for t, _ in delivers]
    if not (all((r == 'qf') == (t in failed) for t, r in delivers) and len(set(dt)) == len(dt)):
        code += 16
    dres = {}
    for (v, t), r in zip(took, wends):
        dres.setdefault(t, r)
    if not all(r == 'qf' or dres.get(t) == r for t, r in delivers):
        code += 32
    told_t = [e[1] for e in tr if e[0] == 'Told']
    if drained and not all(t in dt and t in told_t for _, t in submitted):
        code += 64
    # the submitter's level, judged on the prefix before each answer
    ok = True
    fail_p, took_p, wend_p = [], [], []
    for e in tr:
        if e[0] == 'WriteSubmit' and e[3] is not None:
            fail_p.append(e[3])
        elif e[0] == 'WriteTake':
            took_p.append(e[2])
        elif e[0] == 'WriteEnd':
            wend_p.append(e[1])
        elif e[0] in ('Told', 'ApiTold'):
            res_p = {}
            for t, r in zip(took_p, wend_p):
                res_p.setdefault(t, r)
            t = e[1]
            if e[0] == 'Told':
                if e[2] == 'qf':
                    ok = ok and t in fail_p
                else:
                    ok = ok and t not in fail_p and res_p.get(t) == e[2]
            elif e[2]:
                ok = ok and t not in fail_p and res_p.get(t) == 'ok'
            else:
                ok = ok and (t in fail_p or res_p.get(t) == 'exc')
    if not ok:
        code += 128
    if any(e[0] in ('ApiUnqueued', 'Discard') for e in tr):
        code += 256
    return code


def kinds_of(code):
    return [name for bit, name in KINDS.items() if code & bit]


def overlap_site(tr):
    """which call sites take part in the first overlapping driver write"""
    inflight = None
    for e in tr:
        if e[0] in ('WriteStart', 'DirectStart'):
            if inflight:
                if 'DirectStart' not in (e[0], inflight):
                    return 'write loop'
                if any(x[0] == 'Discard' for x in tr):
                    return 'direct write_value of an entry taken out of the queue outside the write loop'
                return 'load_from_data direct write_value'
            inflight = e[0]
        elif e[0] in ('WriteEnd', 'DirectEnd'):
            inflight = None
    return 'write loop'


# ---------------------------------------------------------------------------------------------------------------------
# Coq literals

HEADER = 'From QT Require Import C14.Run.\nOpen Scope nat_scope.\n'
SRC = {'pass': 'SrcPass', 'load': 'SrcLoad'}
OUT = {'val': 'OVal', 'skip': 'OSkip', 'err': 'OErr'}
WRES = {'ok': 'WOk', 'exc': 'WExc'}
TRES = {'ok': 'TOk', 'exc': 'TExc', 'qf': 'TQueueFull'}


class Unrepresentable(Exception):
    pass


def zlit(v):
    if not isinstance(v, int) or isinstance(v, bool):
        raise Unrepresentable('value %r' % (v,))
    return '(%d)%%Z' % v


def nlit(n):
    if not isinstance(n, int) or isinstance(n, bool) or n < 0:
        raise Unrepresentable('ticket / length %r' % (n,))
    return '%d' % n


def blit(b):
    if not isinstance(b, bool):
        raise Unrepresentable('flag %r' % (b,))
    return 'true' if b else 'false'


def event_lit(e):
    n = e[0]
    if n == 'ReadRequest':
        return 'ReadRequest %s' % SRC[e[1]]
    if n == 'ReadStart':
        return 'ReadStart %s' % SRC[e[1]]
    if n == 'ReadEnd':
        return 'ReadEnd %s %s' % (SRC[e[1]], OUT[e[2]])
    if n == 'WriteSubmit':
        return 'WriteSubmit %s %s %s' % (zlit(e[1]), nlit(e[2]), 'None' if e[3] is None else '(Some %s)' % nlit(e[3]))
    if n == 'WriteTake':
        return 'WriteTake %s %s' % (zlit(e[1]), nlit(e[2]))
    if n == 'WriteStart':
        return 'WriteStart %s' % zlit(e[1])
    if n == 'WriteEnd':
        return 'WriteEnd %s' % WRES[e[1]]
    if n == 'LoopResume':
        return 'LoopResume'
    if n == 'Deliver':
        return 'Deliver %s %s' % (nlit(e[1]), TRES[e[2]])
    if n == 'DirectStart':
        return 'DirectStart %s' % zlit(e[1])
    if n == 'DirectEnd':
        return 'DirectEnd %s' % WRES[e[1]]
    if n == 'Snap':
        return 'Snap %s %s %s' % (blit(e[1]), blit(e[2]), nlit(e[3]))
    if n in ('Disable', 'Enable'):
        return n
    if n == 'Discard':
        return 'Discard %s' % nlit(e[1])
    if n == 'ApiUnqueued':
        return 'ApiUnqueued %s' % zlit(e[1])
    if n == 'ReadCancel':
        return 'ReadCancel %s' % SRC[e[1]]
    if n == 'Told':
        return 'Told %s %s' % (nlit(e[1]), TRES[e[2]])
    if n == 'ApiTold':
        return 'ApiTold %s %s' % (nlit(e[1]), blit(e[2]))
    raise Unrepresentable('event %r' % (e,))


def case_lit(cap, drained, tr):
    return '(%d, %s, [%s])' % (cap, 'true' if drained else 'false', '; '.join(event_lit(e) for e in tr))


# ---------------------------------------------------------------------------------------------------------------------
# one batch: run, evaluate in Coq, compare

class Stats:
    def __init__(self):
        self.evaluations = 0
        self.cases = 0
        self.events = 0
        self.nontrivial = set()
        self.dist = {}
        self.t_impl = 0.0
        self.t_coq = 0.0

    def bump(self, k, n=1):
        self.dist[k] = self.dist.get(k, 0) + n


def nontrivial(tr):
    """a driver call stays suspended while another step of the same port happens, or the queue overflows"""
    depth = 0
    for e in tr:
        if e[0] in ('ReadStart', 'WriteStart', 'DirectStart'):
            depth += 1
        elif e[0] in ('ReadEnd', 'WriteEnd', 'DirectEnd'):
            depth -= 1
        elif e[0] == 'WriteSubmit' and (depth > 0 or e[3] is not None):
            return True
        elif e[0] in ('ReadRequest', 'WriteTake', 'Deliver') and depth > 0:
            return True
    return False


def drained_ok(run):
    fin = run.get('final') or {}
    return run.get('status') == 'ok' and bool(fin) and all(
        not f['pending_reads'] and not f['pending_writes'] and not f['qsize'] for f in fin.values() if not f.get('removed'))


def evaluate(ctx, res, schedules, runs, stats, tag):
    """-> list of (schedule, port, code, trace) for the runs that contradict the specification"""
    cases = []      # (schedule index, port, cap, drained, trace)
    bad = []
    for i, (sc, run) in enumerate(zip(schedules, runs)):
        stats.evaluations += 1
        if run.get('status') != 'ok':
            res['tie_failures'].append({'schedule': sc['cmds'], 'cap': sc['cap'], 'ports': sc['ports'],
                                        'note': 'run did not complete: %s' % run.get('status'),
                                        'traceback': run.get('traceback')})
            continue
        for a in run.get('anomalies') or []:
            res['tie_failures'].append({'schedule': sc['cmds'], 'cap': sc['cap'], 'ports': sc['ports'],
                                        'note': 'instrumentation anomaly: %s' % a})
        dr = drained_ok(run)
        if not dr:
            stats.bump('not-drained')
        for pid, tr in run['events'].items():
            # a removed port is not expected to answer what was pending (finding 2): liveness clause off for it
            pdr = dr and not ((run.get('final') or {}).get(pid) or {}).get('removed')
            cases.append((i, pid, sc['cap'], pdr, tr))
            stats.events += len(tr)
            if nontrivial(tr):
                stats.nontrivial.add(json.dumps([sc['cap'], sc['ports'], sc['cmds']], sort_keys=True))
            for e in tr:
                if e[0] == 'WriteSubmit' and e[3] is not None:
                    stats.bump('event:overflow-drop')
                if e[0] != 'Snap':
                    stats.bump('event:' + e[0])
                if e[0] == 'Told':
                    stats.bump('told:%s:%s' % (e[3], e[2]))
        for c in sc['cmds']:
            stats.bump('cmd:' + c[0])
        stats.bump('cap:%d' % sc['cap'])
        stats.bump('len:%d' % (8 * ((len(sc['cmds']) + 7) // 8)))
    stats.cases += len(cases)

    # python transcription of the spec
    py_codes = [spec_code(cap, dr, tr) for (_i, _p, cap, dr, tr) in cases]

    # Coq: model acceptance + spec
    lits, lit_idx = [], []
    for k, (i, pid, cap, dr, tr) in enumerate(cases):
        try:
            lits.append(case_lit(cap, dr, tr))
            lit_idx.append(k)
        except (Unrepresentable, KeyError) as e:
            res['tie_failures'].append({'schedule': schedules[i]['cmds'], 'port': pid,
                                        'note': 'event outside the model alphabet: %s' % e})
    if ctx.model_ok:
        per = 500
        shards, spans = [], []
        for a in range(0, len(lits), per):
            shards.append('Definition cases : list case := [\n  %s].\n' % ';\n  '.join(lits[a:a + per]))
            spans.append(lit_idx[a:a + per])
        t0 = time.time()
        outs = coq.eval_shards(ctx.workdir, 'c14cases_%s' % tag, HEADER, shards,
                               ['bad_model cases', 'bad_old cases', 'reject_idx cases', 'spec_codes cases'], jobs=2)
        stats.t_coq += time.time() - t0
        for path in glob.glob(os.path.join(ctx.workdir, 'c14cases_%s_*' % tag)) + glob.glob(
                os.path.join(ctx.workdir, '.c14cases_%s_*' % tag)):
            try:
                os.remove(path)
            except OSError:
                pass
        for (rc, lists, err), span in zip(outs, spans):
            if rc != 0 or len(lists) != 4 or len(lists[2]) != len(span) or len(lists[3]) != len(span):
                res['tie_failures'].append('coqc failed on a case shard: %s' % err[-600:])
                continue
            bad_model, bad_old, rej, codes = lists
            for j in bad_model:
                i, pid, cap, dr, tr = cases[span[j]]
                at = rej[j]
                res['tie_failures'].append({
                    'note': 'the model refuses a transition the implementation took',
                    'port': pid, 'event_index': at, 'event': tr[at] if at < len(tr) else None,
                    'before': tr[max(0, at - 6):at], 'accepted_by_pre_fix_model': j not in bad_old,
                    'cap': cap, 'ports': schedules[i]['ports'], 'schedule': schedules[i]['cmds'],
                })
            for j, code in enumerate(codes):
                if code != py_codes[span[j]]:
                    i, pid, cap, dr, tr = cases[span[j]]
                    res['tie_failures'].append({'note': 'Coq Spec.v and its python transcription disagree', 'coq': code,
                                                'python': py_codes[span[j]], 'port': pid, 'schedule': schedules[i]['cmds']})
                    if code:
                        bad.append((schedules[i], pid, code, tr))
    else:
        res['tie_failures'].append('model not built; traces not replayed through the Coq step function')
    for k, code in enumerate(py_codes):
        if code:
            i, pid, cap, dr, tr = cases[k]
            bad.append((schedules[i], pid, code, tr))
    return bad


# ---------------------------------------------------------------------------------------------------------------------
# shrinking and reporting

def still_bad(run, sc, pid, code):
    if run.get('status') != 'ok':
        return None
    tr = run['events'].get(pid)
    if tr is None:
        return None
    c = spec_code(sc['cap'], drained_ok(run), tr)
    return tr if (c & code) else None


def shrink(ctx, sc, pid, code):
    """remove commands (one at a time, all candidates of a round in one worker call) while the same clause stays violated"""
    cur = dict(sc)
    rounds = 0
    while rounds < 40 and len(cur['cmds']) > 1:
        rounds += 1
        cands = []
        for k in range(len(cur['cmds'])):
            c = dict(cur)
            c['cmds'] = cur['cmds'][:k] + cur['cmds'][k + 1:]
            c['id'] = k
            cands.append(c)
        runs = run_worker(ctx, cands, 'shrink')
        for c, r in zip(cands, runs):
            if still_bad(r, c, pid, code) is not None:
                cur = c
                break
        else:
            break
    # simplify the template: ports that are not needed
    for name in list(cur['ports']):
        if name == pid or len(cur['ports']) == 1:
            continue
        c = dict(cur)
        c['ports'] = {k: v for k, v in cur['ports'].items() if k != name}
        c['cmds'] = [x for x in cur['cmds'] if not (len(x) > 1 and x[1] == name)]
        if any(name in (p.get('expr') or '') for p in c['ports'].values()):
            continue
        try:
            r = run_worker(ctx, [c], 'shrink')[0]
        except RuntimeError:
            continue
        if still_bad(r, c, pid, code) is not None:
            cur = c
    return cur


def report(ctx, res, bad, seen):
    for sc, pid, code, tr in bad:
        bit = min(b for b in KINDS if code & b)
        kind = KINDS[bit]
        site = overlap_site(tr) if kind == 'write-overlap' else (
            'patch_port_value' if kind == 'accepted-value-not-queued' and any(e[0] == 'ApiUnqueued' for e in tr) else
            'read_transformed_value' if kind == 'read-overlap' else
            'transform_and_write_value / patch_port_value' if kind == 'submitter-told-wrongly' else
            '_write_value_queued / _write_value_loop')
        key = {'kind': kind, 'site': site}
        tag = json.dumps(key, sort_keys=True)
        if tag in seen:
            seen[tag] += 1
            continue
        seen[tag] = 1
        small = shrink(ctx, sc, pid, bit)
        run = run_worker(ctx, [small], 'final', want_glog=True)[0]
        trs = run['events'].get(pid, [])
        res['violations'].append({
            'key': key,
            'what': 'port %s: %s (%s); clauses violated: %s' % (pid, kind, site, ', '.join(kinds_of(code))),
            'case': {'cap': small['cap'], 'ports': small['ports'], 'cmds': small['cmds'], 'port': pid},
            'observed': {'events_of_port': [e for e in trs if e[0] != 'Snap'],
                         'log': [g for g in run.get('glog', []) if g[3] != 'Snap'][:200]},
            'expected': 'no two driver reads and no two driver writes of a port in flight at once; values reach the driver in '
                        'submission order; a ticket fails with QueueFull only when the queue holds `cap` entries, oldest first, '
                        'and its submitter (API request, expression evaluation, sequence step) is told so; a submitter told OK '
                        'had its value started at the driver',
        })


# ---------------------------------------------------------------------------------------------------------------------

def load_corpus():
    out = []
    for path in sorted(glob.glob(os.path.join(coq.VERIF, 'corpus', 'C14', '*.json'))):
        with open(path) as f:
            c = json.load(f)
        c = c.get('case', c)
        out.append({'id': os.path.basename(path), 'cap': c['cap'], 'ports': c['ports'], 'cmds': c['cmds']})
    return out


def batches(ctx, res, schedules, stats, seen, tag, chunk=1500):
    for a in range(0, len(schedules), chunk):
        part = schedules[a:a + chunk]
        t0 = time.time()
        runs = run_worker(ctx, part, tag)
        stats.t_impl += time.time() - t0
        bad = evaluate(ctx, res, part, runs, stats, '%s%d' % (tag, a))
        if len(res['samples']) < 6:
            for sc, run in list(zip(part, runs))[:2]:
                res['samples'].append({'cap': sc['cap'], 'ports': sc['ports'], 'cmds': sc['cmds'],
                                       'events': {p: [e for e in t if e[0] != 'Snap'][:40] for p, t in run['events'].items()}})
        report(ctx, res, bad, seen)


def finish(res, stats, seen):
    res['evaluations'] += stats.evaluations
    res['distinct_nontrivial'] += len(stats.nontrivial)
    for k, v in stats.dist.items():
        res['distribution'][k] = res['distribution'].get(k, 0) + v
    res['extra']['port_traces'] = res['extra'].get('port_traces', 0) + stats.cases
    res['extra']['events_replayed'] = res['extra'].get('events_replayed', 0) + stats.events
    res['extra']['impl_wall_s'] = round(res['extra'].get('impl_wall_s', 0) + stats.t_impl, 2)
    res['extra']['coq_eval_wall_s'] = round(res['extra'].get('coq_eval_wall_s', 0) + stats.t_coq, 2)
    res['extra']['violation_counts'] = dict(seen)


def check(ctx, res):
    res['rule'] = (
        'schedule = queue capacity (4 in half of the runs, else 1024) + driver latencies per port (manual / 0-70 virtual ms) + '
        'commands Tick, Advance, SetSource, CompleteRead, CompleteWrite, ApiWrite (bursts of up to 7), SetSequence, SetAttr, Reset, '
        'CancelWaitingReader, Disable/Enable (PATCH /ports/p enabled), SetExpr, Remove, Load '
        'on ports s (source), w (writable), e (expression over s, w), pl (persisted, loaded at run time); evaluations = '
        'schedules run on the real code, each giving one trace per port. non-trivial = some port has a driver call suspended '
        'while another step of that port happens, or its queue overflows; distinct = distinct (capacity, latencies, commands)'
    )
    stats, seen = Stats(), {}
    if ctx.replay:
        with open(ctx.replay) as f:
            c = json.load(f)
        c = c.get('case', c)
        sc = {'id': 'replay', 'cap': c['cap'], 'ports': c['ports'], 'cmds': c['cmds']}
        run = run_worker(ctx, [sc], 'replay', want_glog=True)[0]
        for g in run.get('glog', []):
            ctx.log('  ', g)
        bad = evaluate(ctx, res, [sc], [run], stats, 'replay')
        report(ctx, res, bad, seen)
        finish(res, stats, seen)
        return
    corpus = load_corpus()
    if corpus:
        batches(ctx, res, corpus, stats, seen, 'corpus')
    # exhaustive small scope on the one-port template (capacity 2)
    if ctx.tier == 'quick':
        small = (enum_small(SMALL_D, 4, 2, 0) + enum_small(SMALL_E, 4, 2, 300000) + enum_small(SMALL_T, 4, 2, 400000)
                 + enum_small(SMALL_A, 4, 2, 500000, SMALL_PORTS_PLAIN) + enum_small(SMALL_L, 4, 2, 600000)
                 + enum_small(SMALL_R, 4, 2, 700000))
    else:
        small = (enum_small(SMALL_A, 7, 2, 0) + enum_small(SMALL_B, 5, 2, 100000) + enum_small(SMALL_D, 4, 2, 200000)
                 + enum_small(SMALL_C, 5, 2, 250000) + enum_small(SMALL_E, 5, 2, 300000) + enum_small(SMALL_T, 5, 2, 400000)
                 + enum_small(SMALL_A, 6, 2, 500000, SMALL_PORTS_PLAIN) + enum_small(SMALL_L, 6, 2, 600000)
                 + enum_small(SMALL_R, 5, 2, 700000))
    batches(ctx, res, small, stats, seen, 'small', chunk=4000)
    res['exhaustive'] = True
    res['extra']['exhaustive_scope'] = (
        'all command sequences of length <= %s over {ApiWrite w, Tick, CompleteRead w, CompleteWrite w%s} on one writable port '
        'with manual latencies and capacity 2: %d schedules' % (
            ('4', ', Reset w, CancelWaitingReader w, Disable w, Enable w; with a driver timeout; with API values toggling over '
             '{0,1}; with a driver whose methods return futures; reads hanging beyond a minute of virtual time; with Remove w', len(small))
            if ctx.tier == 'quick' else
            ('7 (<= 5 with Reset w; <= 5 with CancelWaitingReader w; <= 4 with Disable/Enable w; <= 5 with a driver timeout; '
             '<= 5 with API values toggling over {0,1}; <= 6 with a driver whose methods return futures; <= 6 over {Tick, Reset w, '
             'CompleteRead w, Advance 61 s, Advance 1 s}; <= 5 with Remove w)', '', len(small))))
    n = ctx.n(400, 20000)
    scheds = [gen_schedule(ctx.rng, i) for i in range(n)]
    batches(ctx, res, scheds, stats, seen, 'rand')
    finish(res, stats, seen)


def search(ctx, res):
    """a proof or the tie broke and check() saw no violation: 10x the random budget, longer bursts"""
    stats, seen = Stats(), {}
    n = ctx.n(4000, 40000)
    scheds = [gen_schedule(ctx.rng, 10 ** 6 + i) for i in range(n)]
    batches(ctx, res, scheds, stats, seen, 'search')
    finish(res, stats, seen)


REPLAY_HELP = ('bin/check C14 --replay <this file>   (runs case.cmds on the real code on the virtual clock with case.ports / '
               'case.cap and prints the event log; harness/props/c14_worker.py documents commands and events)')

LEVEL_TEXT = (
    'Coq theorems over an executable labelled transition system of one port\'s I/O (read guard, bounded FIFO write queue '
    'with drop-oldest-and-notify, single write loop, direct write of load_from_data), for every accepted trace of any '
    'length: at most one driver read and one driver write in flight; the values started at the driver are the submitted '
    'values minus exactly the tickets failed with QueueFull, in submission order; a ticket fails only when `cap` tickets '
    'are queued and it is the oldest; no ticket is lost or duplicated; a caller cancelled while waiting in the read guard '
    'leaves the read in flight untouched; what transform_and_write_value / patch_port_value give back to the API request, the '
    'expression evaluation or the sequence step is QueueFull exactly for dropped tickets and OK only for values started at the '
    'driver. Tied to the code by trace acceptance: events logged from the real code under generated and exhaustively '
    'enumerated schedules on a virtual clock are replayed through the Coq step function and judged by the Coq trace '
    'specification.'
)
LEVEL_NOTE = (
    'Trusted: Coq kernel incl. vm_compute; vloop.py (virtual-clock loop produces only interleavings asyncio can produce); the '
    'worker\'s instrumentation and generators. asyncio scheduling is modelled as interleaving at suspension points; real '
    'drivers are abstracted to futures completed by the schedule. The model is the code WITH fixes/C14-load-write-lock.diff; '
    'the code before it is refuted in History/C14Old.v. Liveness (a queued ticket is eventually written) is only checked on '
    'drained runs, not proved. No axioms.'
)
TECHNIQUE = 'Coq proof (invariant by induction over traces of an LTS) + trace-acceptance correspondence on a virtual-clock loop'
