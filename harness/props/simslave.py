"""Simulated qToggle slave device behind a fake `AsyncHTTPClient` (DESIGN 2.2, used by C12 and C13).

`install(devices_module, sim)` replaces `qtoggleserver.slaves.devices.AsyncHTTPClient` by `FakeAsyncHTTPClient`, whose `fetch`
 * applies the request sanity check of tornado's real clients (simple_httpclient._HTTPConnection.run / curl_httpclient):
   POST/PATCH/PUT without a body and GET with a body are refused with `ValueError("Body must [not ]be None for method M ...")`,
   raised from the awaited future exactly as `AsyncHTTPClient.fetch(raise_error=False)` does for non-HTTP errors;
 * sleeps the scheduled request latency (virtual time), fails with ECONNREFUSED when the schedule says "unreachable" at arrival,
 * lets the simulated device answer (`SimSlave.handle`), sleeps the response latency and returns a real
   `tornado.httpclient.HTTPResponse`.
Assumption of the simulation (named in the notes): a request either fails before it reaches the device or its answer is
delivered; a listen answer that cannot be delivered because the network went down puts its events back (no event is lost in
transit).  Authentication headers are not checked.

The device: ports (attributes, value), device attributes, webhooks / reverse parameters, listen sessions with the dedup rule,
queue bound and expiry rule of qtoggleserver's own core/sessions.py.  Every request received is logged (virtual ms, method,
path, decoded body); every event emitted is logged.
"""
import asyncio
import copy
import errno
import io
import json
import re
import socket
import ssl
from urllib.parse import parse_qs, urlsplit

from tornado.httpclient import HTTPRequest, HTTPResponse
from tornado.httputil import HTTPHeaders

SESSION_EXPIRY_FACTOR = 10
EVENT_QUEUE_SIZE = 1024


def _now():
    return asyncio.get_running_loop().time()


def _ms():
    return int(round(_now() * 1000))


class SimSession:
    def __init__(self, sid):
        self.id = sid
        self.accessed = 0.0
        self.timeout = 0
        self.future = None
        self.queue = []          # oldest first


class SimSlave:
    def __init__(self, name, ports, device=None, flags=('listen',), latencies=(0.01,), host='sim', session_floor=10):
        self.name = name
        self.host = host
        self.device = dict(device or {})
        self.device['name'] = name
        self.device.setdefault('display_name', '')
        self.device['flags'] = list(flags)
        self.ports = {}                      # id -> json dict (attributes + 'value' + 'definitions'), insertion ordered
        for p in ports:
            self.ports[p['id']] = copy.deepcopy(p)
        self.webhooks = {'enabled': False, 'scheme': 'http', 'host': 'master', 'port': 80, 'path': '/', 'events': [],
                         'timeout': 10, 'retries': 0}
        self.reverse = {'enabled': False, 'scheme': 'http', 'host': 'master', 'port': 80, 'path': '/', 'device_id': name,
                        'timeout': 10}
        self.sessions = {}
        # a session is kept for SESSION_EXPIRY_FACTOR * max(timeout, session_floor) seconds (0 = exactly core/sessions.py)
        self.session_floor = session_floor
        self.net_up = True
        self.fault = 'refused'
        self.latencies = list(latencies) or [0.01]
        self._lat_i = 0
        self.requests = []                   # [ms, method, path, body]   (everything that reached the device)
        self.events = []                     # [ms, type, params]         (everything the device emitted)
        self.refused = 0
        self.push_hook = None                # push mode: called with every emitted event (webhooks)
        self.request_hook = None             # called with (method, path) when a request reaches the device
        self.use_refs = False                # GET /ports shares equal "definitions" through JSON references ({"$ref": "#/<i>/definitions"})
        self.one_shot = []                   # [{'m','p','skip','fault'}]: the next matching request fails with that fault
        self.failed_requests = []            # [ms, method, path, body, fault]  requests hit by a one-shot fault (never reached the device)
        self.passwords = {}                  # *_password device attributes are write-only: kept here, never shown by GET /device
        self.slow = {}                       # port id -> ['never'] | ['later', ms]: PATCH .../value is answered 202 Accepted
        self.expire_hook = None              # called with (session id, number of undelivered events) when a session expires
        self.delivered = []                  # [ms, kind, payload]  every answer that reached the master, in arrival order
        self.inflight = 0                    # requests being processed / answers in transit (idle listen calls excluded)
        self.polls_since_change = 0          # GET /ports answers delivered since the device last changed
        self.last_delivery_ms = -1
        self.base_path = ''

    # ------------------------------------------------------------------ schedule
    def next_latency(self):
        lat = self.latencies[self._lat_i % len(self.latencies)]
        self._lat_i += 1
        return lat

    def set_net(self, up, fault=None):
        """fault: how the unreachable device shows to the HTTP client during this outage (one of FAULTS)"""
        self.net_up = bool(up)
        self.polls_since_change = 0
        if not up:
            self.fault = fault or 'refused'
            for s in self.sessions.values():
                if s.future is not None and not s.future.done():
                    s.future.set_exception(NetDown())
                    s.future = None

    # ------------------------------------------------------------------ device side mutations (the "script" acts here)
    def port_json(self, pid):
        j = copy.deepcopy(self.ports[pid])
        if not j.get('enabled'):
            j['value'] = None            # a disabled port has no value (BasePort.to_json)
        return j

    def emit(self, typ, params):
        ev = {'type': typ, 'params': copy.deepcopy(params)}
        self.polls_since_change = 0
        self.events.append([_ms(), typ, copy.deepcopy(params)])
        for s in self.sessions.values():
            self._push(s, ev)
        if self.push_hook is not None:
            self.push_hook(copy.deepcopy(ev))
        self._serve()

    def _push(self, s, ev):
        def dup(a, b):
            if a['type'] != b['type']:
                return False
            if a['type'] == 'port-update':
                return a['params'].get('id') == b['params'].get('id')
            return a['type'] in ('device-update', 'full-update')
        s.queue = [e for e in s.queue if not dup(ev, e)]
        while len(s.queue) >= EVENT_QUEUE_SIZE:
            s.queue.pop(0)
        s.queue.append(ev)

    def _serve(self):
        """sessions.update(): answer waiting listeners that have events / whose keep-alive elapsed; expire idle sessions"""
        now = _now()
        for sid, s in list(self.sessions.items()):
            active = s.future is not None and not s.future.done()
            if s.queue and active:
                self._respond(s)
            elif active and now - s.accessed >= s.timeout:
                self._respond(s)
            elif not active and now - s.accessed > max(s.timeout, self.session_floor) * SESSION_EXPIRY_FACTOR:
                self.sessions.pop(sid)
                if self.expire_hook is not None:
                    self.expire_hook(sid, len(s.queue))      # events still queued for that listener are lost

    def _respond(self, s):
        evs, s.queue = s.queue, []
        fut, s.future = s.future, None
        if fut is not None and not fut.done():
            fut.set_result(evs)

    def set_value(self, pid, value):
        p = self.ports.get(pid)
        if p is None:
            return False
        old = p.get('value')
        if old == value or not p.get('enabled'):
            return False
        p['value'] = value
        self.emit('value-change', {'id': pid, 'value': value, 'old_value': old})
        return True

    def burst(self, pid, n, start=0):
        """n value changes of one port in a row (all distinct from their predecessor)"""
        p = self.ports.get(pid)
        if p is None or not p.get('enabled'):
            return False
        for i in range(n):
            if p.get('type') == 'boolean':
                v = not p.get('value')
            else:
                v = (start + i) % 97
                if v == p.get('value'):
                    v = 99
            self.set_value(pid, v)
        return True

    def set_port_attr(self, pid, name, value):
        p = self.ports.get(pid)
        if p is None:
            return False
        if p.get(name) == value:
            return False
        p[name] = value
        self.emit('port-update', self.port_json(pid))
        return True

    def del_port_attr(self, pid, name):
        p = self.ports.get(pid)
        if p is None or name not in p or name in ('id', 'type', 'value', 'definitions', 'enabled', 'writable'):
            return False
        p.pop(name)
        self.emit('port-update', self.port_json(pid))
        return True

    def del_device_attr(self, name):
        if name not in self.device or name in ('name', 'flags'):
            return False
        self.device.pop(name)
        self.emit('device-update', copy.deepcopy(self.device))
        return True

    def add_port(self, pjson):
        if pjson['id'] in self.ports:
            return False
        self.ports[pjson['id']] = copy.deepcopy(pjson)
        self.emit('port-add', self.port_json(pjson['id']))
        return True

    def remove_port(self, pid):
        if pid not in self.ports:
            return False
        self.ports.pop(pid)
        self.emit('port-remove', {'id': pid})
        return True

    def set_device_attr(self, name, value):
        if self.device.get(name) == value:
            return False
        self.device[name] = value
        self.emit('device-update', copy.deepcopy(self.device))
        return True

    def full_update(self):
        self.emit('full-update', {})

    # ------------------------------------------------------------------ HTTP side
    async def handle(self, method, path, query, headers, body):
        """-> (status, json-able body or None)"""
        self.requests.append([_ms(), method, path, copy.deepcopy(body)])
        if self.request_hook is not None:
            self.request_hook(method, path)
        if method != 'GET':
            self.polls_since_change = 0
        path = path.rstrip('/') or '/'
        if path == '/device':
            if method == 'GET':
                return 200, copy.deepcopy(self.device)
            if method == 'PATCH':
                if not isinstance(body, dict):
                    return 400, {'error': 'invalid-request'}
                changed = False
                for n, v in body.items():
                    if n in ('name', 'flags'):
                        return 400, {'error': 'attribute-not-modifiable', 'attribute': n}
                    if n.endswith('_password'):
                        self.passwords[n] = v
                        continue
                    if self.device.get(n) != v:
                        self.device[n] = v
                        changed = True
                if changed:
                    self.emit('device-update', copy.deepcopy(self.device))
                return 204, None
        elif path == '/ports':
            if method == 'GET':
                return 200, [self.port_json(i) for i in self.ports]
        elif path in ('/webhooks', '/reverse'):
            store = self.webhooks if path == '/webhooks' else self.reverse
            if method == 'GET':
                return 200, copy.deepcopy(store)
            if method in ('PUT', 'PATCH') and isinstance(body, dict):
                store.update(body)
                return 204, None
        elif path == '/listen':
            if method == 'GET':
                return await self._listen(query, headers)
        else:
            m = re.fullmatch(r'/ports/([^/]+)(/value)?', path)
            if m:
                pid, is_value = m.group(1), bool(m.group(2))
                p = self.ports.get(pid)
                if p is None:
                    return 404, {'error': 'no-such-port'}
                if is_value:
                    if method == 'GET':
                        return 200, (p.get('value') if p.get('enabled') else None)
                    if method == 'PATCH':
                        if isinstance(body, (dict, list)) or body is None:
                            return 400, {'error': 'invalid-value'}
                        if not p.get('enabled'):
                            return 400, {'error': 'port-disabled'}
                        if not p.get('writable'):
                            return 400, {'error': 'read-only-port'}
                        mode = self.slow.get(pid)
                        if mode:             # a slow port: the value is queued; applied later, or never (the write fails)
                            if mode[0] == 'later':
                                asyncio.get_running_loop().call_later(mode[1] / 1000.0, self.set_value, pid, body)
                            return 202, None
                        self.set_value(pid, body)
                        return 204, None
                else:
                    if method == 'GET':
                        return 200, self.port_json(pid)
                    if method == 'PATCH':
                        if not isinstance(body, dict):
                            return 400, {'error': 'invalid-request'}
                        changed = False
                        for n, v in body.items():
                            if n in ('id', 'type', 'writable', 'value', 'definitions'):
                                return 400, {'error': 'attribute-not-modifiable', 'attribute': n}
                            if p.get(n) != v:
                                p[n] = v
                                changed = True
                        if changed:
                            self.emit('port-update', self.port_json(pid))
                        return 204, None
        return 404, {'error': 'no-such-function'}

    async def _listen(self, query, headers):
        sid = headers.get('Session-Id')
        if not sid:
            return 400, {'error': 'missing-header', 'header': 'Session-Id'}
        try:
            timeout = int(query.get('timeout', ['60'])[0])
        except ValueError:
            return 400, {'error': 'invalid-field', 'field': 'timeout'}
        self._serve()
        s = self.sessions.get(sid)
        if s is None:
            s = self.sessions[sid] = SimSession(sid)
        if s.future is not None and not s.future.done():
            self._respond(s)
        fut = asyncio.get_running_loop().create_future()
        s.accessed = _now()
        s.timeout = timeout
        s.future = fut
        if s.queue:
            self._respond(s)
        else:
            loop = asyncio.get_running_loop()

            def keepalive():
                if s.future is fut and not fut.done():
                    self._respond(s)
            loop.call_later(timeout, keepalive)
        evs = await fut
        return 200, ('events', s, evs)


def _refused():
    e = ConnectionRefusedError(errno.ECONNREFUSED, 'Connection refused')
    return e


class NetDown(Exception):
    """internal: the exchange is cut by the outage; turned into the outage's fault by the fake client"""
    def __init__(self, fault=None):
        super().__init__()
        self.fault = fault


# what an unreachable / misbehaving peer looks like to tornado's client (the exceptions AsyncHTTPClient.fetch raises with
# raise_error=False, or the non-2xx / undecodable answers of something in between); core/responses.parse distinguishes:
# 'timeout' in the text, errno ECONNREFUSED / EHOSTUNREACH / ENETUNREACH / EAI_NONAME / EAI_NODATA / any other errno, no
# errno, HTTP status with a JSON body, a body that is not JSON
FAULTS = ('refused', 'hostunreach', 'netunreach', 'timeout', 'gai_again', 'gai_noname', 'gai_nodata', 'reset', 'ssl',
          'closed', 'http500', 'http503', 'badjson', 'html502', 'http502empty')


async def raise_fault(kind, request):
    """raises what fetch() raises, or returns (status, body bytes) for answers that are HTTP responses"""
    from tornado.simple_httpclient import HTTPStreamClosedError, HTTPTimeoutError
    if kind == 'refused':
        raise _refused()
    if kind == 'hostunreach':
        raise OSError(errno.EHOSTUNREACH, 'No route to host')
    if kind == 'netunreach':
        raise OSError(errno.ENETUNREACH, 'Network is unreachable')
    if kind == 'timeout':
        await asyncio.sleep(max(0.0, (request.connect_timeout or 10) - 0.5))
        raise HTTPTimeoutError('Timeout while connecting')
    if kind == 'gai_again':
        raise socket.gaierror(socket.EAI_AGAIN, 'Temporary failure in name resolution')
    if kind == 'gai_noname':
        raise socket.gaierror(socket.EAI_NONAME, 'Name or service not known')
    if kind == 'gai_nodata':
        raise socket.gaierror(socket.EAI_NODATA, 'No address associated with hostname')
    if kind == 'reset':
        raise ConnectionResetError(errno.ECONNRESET, 'Connection reset by peer')
    if kind == 'ssl':
        raise ssl.SSLError(1, '[SSL: WRONG_VERSION_NUMBER] wrong version number (_ssl.c:1000)')
    if kind == 'closed':
        raise HTTPStreamClosedError('Stream closed')
    if kind == 'http500':
        return 500, json.dumps({'error': 'unexpected-error', 'message': 'boom'}).encode()
    if kind == 'http503':
        return 503, json.dumps({'error': 'busy'}).encode()
    if kind == 'badjson':
        return 200, b'{"truncated": '
    if kind == 'html502':
        return 502, b'<html><body>Bad Gateway</body></html>'
    if kind == 'http502empty':           # not generated: see notes/C12.md
        return 502, b''
    raise _refused()


def check_body_like_tornado(request):
    """tornado/simple_httpclient.py, _HTTPConnection.run (same text in curl_httpclient._curl_setup_request)"""
    if not request.allow_nonstandard_methods:
        body_expected = request.method in ('POST', 'PATCH', 'PUT')
        body_present = request.body is not None or request.body_producer is not None
        if (body_expected and not body_present) or (body_present and not body_expected):
            raise ValueError(
                'Body must %sbe None for method %s (unless allow_nonstandard_methods is true)'
                % ('not ' if body_expected else '', request.method))


class FakeAsyncHTTPClient:
    """stands in for tornado.httpclient.AsyncHTTPClient inside qtoggleserver.slaves.devices"""
    sims = {}        # host -> SimSlave
    refused_by_client = []   # [ms, method, path, message]  requests the HTTP client itself refused to issue
    attempts = []            # [ms, method, path, body, refused]    every request the master built, in the order it was built

    def __init__(self, *args, **kwargs):
        pass

    def fetch(self, request, raise_error=True, **kwargs):
        if not isinstance(request, HTTPRequest):
            request = HTTPRequest(url=request, **kwargs)
        elif kwargs:
            raise ValueError("kwargs can't be used if request is an HTTPRequest object")
        request.headers = HTTPHeaders(request.headers)
        return asyncio.ensure_future(self._fetch(request, raise_error))

    async def _fetch(self, request, raise_error):
        u = urlsplit(request.url)
        try:
            jbody = json.loads(request.body.decode()) if request.body is not None else None
        except Exception:
            jbody = {'__undecodable__': True}
        try:
            check_body_like_tornado(request)
        except ValueError as e:
            self.refused_by_client.append([_ms(), request.method, u.path, str(e)])
            self.attempts.append([_ms(), request.method, u.path, jbody, True])
            await asyncio.sleep(0)
            raise
        if not u.path.rstrip('/').endswith('/listen'):
            self.attempts.append([_ms(), request.method, u.path, jbody, False])
        sim = self.sims.get(u.hostname)
        if sim is None:
            await asyncio.sleep(0.001)
            raise _refused()
        is_listen = u.path.rstrip('/').endswith('/listen')
        if not is_listen:
            sim.inflight += 1
        try:
            try:
                return await self._exchange(sim, u, request, raise_error, is_listen)
            except NetDown as nd:
                sim.refused += 1
                status, data = await raise_fault(nd.fault or sim.fault, request)
                resp = HTTPResponse(request, status, headers=HTTPHeaders({'Content-Type': 'application/json'}),
                                    buffer=io.BytesIO(data))
                if resp.error is not None and raise_error:
                    raise resp.error
                return resp
        finally:
            if not is_listen:
                sim.inflight -= 1

    async def _exchange(self, sim, u, request, raise_error, is_listen):
        await asyncio.sleep(sim.next_latency())
        if not sim.net_up:
            raise NetDown()
        body = None
        if request.body is not None:
            try:
                body = json.loads(request.body.decode())
            except Exception:
                body = {'__undecodable__': request.body.decode(errors='replace')}
        rpath = u.path
        if sim.base_path and rpath.startswith(sim.base_path):
            rpath = rpath[len(sim.base_path):] or '/'
        for shot in sim.one_shot:            # a fault of this one request, with the device otherwise reachable
            if shot['m'] == request.method and re.fullmatch(shot['p'], rpath.rstrip('/') or '/'):
                if shot.get('skip', 0) > 0:
                    shot['skip'] -= 1
                    continue
                sim.one_shot.remove(shot)
                sim.failed_requests.append([_ms(), request.method, rpath, body, shot['fault']])
                raise NetDown(shot['fault'])
        body = None
        if request.body is not None:
            try:
                body = json.loads(request.body.decode())
            except Exception:
                body = {'__undecodable__': request.body.decode(errors='replace')}
        path = u.path
        if sim.base_path and path.startswith(sim.base_path):
            path = path[len(sim.base_path):] or '/'
        status, payload = await sim.handle(request.method, path, parse_qs(u.query), request.headers, body)
        in_transit = isinstance(payload, tuple) and payload and payload[0] == 'events' and payload[2]
        if in_transit:
            sim.inflight += 1
        try:
            await asyncio.sleep(sim.next_latency())
            # one answer per virtual millisecond: the master has fully processed an answer before the next one arrives,
            # so `delivered` is the order in which the master saw them
            while sim.last_delivery_ms >= _ms():
                await asyncio.sleep(0.001)
            if isinstance(payload, tuple) and payload and payload[0] == 'events':
                _tag, sess, evs = payload
                if not sim.net_up:
                    sess.queue = evs + sess.queue          # the answer cannot be delivered: nothing is lost
                    raise NetDown()
                payload = evs
            elif not sim.net_up:
                raise NetDown()
            sim.last_delivery_ms = _ms()
            if request.method == 'GET' and status == 200:
                kind = 'listen' if is_listen else path.rstrip('/')
                if kind != 'listen' or payload:
                    sim.delivered.append([_ms(), kind, copy.deepcopy(payload)])
                if kind == '/ports':
                    sim.polls_since_change += 1
        finally:
            if in_transit:
                sim.inflight -= 1
        if sim.use_refs and request.method == 'GET' and status == 200 and path.rstrip('/') == '/ports':
            payload = with_refs(payload)
        data = b'' if payload is None and status == 204 else json.dumps(payload).encode()
        resp = HTTPResponse(request, status, headers=HTTPHeaders({'Content-Type': 'application/json'}),
                            buffer=io.BytesIO(data))
        if resp.error is not None and raise_error:
            raise resp.error
        return resp


def with_refs(ports):
    """the same list of ports with every "definitions" object that equals an earlier port's replaced by a JSON reference to it
    (the form utils/json.loads(resolve_refs=True) resolves: {"$ref": "#/<index>/definitions"})"""
    out = copy.deepcopy(ports)
    for k, p in enumerate(out):
        for i in range(k):
            if isinstance(ports[i].get('definitions'), dict) and ports[i].get('definitions') == ports[k].get('definitions'):
                p['definitions'] = {'$ref': '#/%d/definitions' % i}
                break
    return out


def install(devices_module, sim, base_path=''):
    sim.base_path = base_path.rstrip('/')
    FakeAsyncHTTPClient.sims = {sim.host: sim}
    FakeAsyncHTTPClient.refused_by_client = []
    FakeAsyncHTTPClient.attempts = []
    devices_module.AsyncHTTPClient = FakeAsyncHTTPClient
    return FakeAsyncHTTPClient
