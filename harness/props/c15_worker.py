"""C15 worker — runs scenarios on the REAL implementation on the virtual clock (harness.common.vloop).

Run in its own process (time.time is patched globally):

    python -m harness.props.c15_worker run     IN.json OUT.json     # IN: list of scenarios  -> OUT: list of run logs
    python -m harness.props.c15_worker pairs   IN.json OUT.json     # IN: list of scenarios  -> per scenario: faulty run,
                                                                    #     reference run (faulty ports absent), differences
    python -m harness.props.c15_worker shrink  IN.json OUT.json     # IN: one scenario with a paired difference -> shrunk
    python -m harness.props.c15_worker probes  -       OUT.json     # hand-built scenarios for the suspicious paths (notes)

Scenario:
  {"ports": [{"id": "p0", "enabled": true, "writable": true, "internal": false, "persisted": false,
              "expr": null | ["port", "p1"] | ["add", "p1", "p2"], "init": 3, "faulty": false}, ...],
   "steps": [["tick", dt_ms] | ["set", port, value] | ["api", port, value]
             | ["fault", port, {"read": K, "write": K, "hb": K, "attr": K}]]}
  Load-time scenarios ("load_mode": true): the ports' configuration ({"enabled", "expression"[, "value"]}) is put into the
  persistence layer, a port spec may carry "fault0": {site: K} = faults in force from construction on (sites also "enable":
  handle_enable raises), and the whole list is loaded by ONE core_ports.load([...], trigger_add=True) -- the start-up path;
  ["load", [port specs]] loads a further batch in the middle of the scenario.  Observed in addition: port-add events, and
  per step whether each port is loaded and enabled.  A load that raises is logged (`load_failed`), the scenario goes on.
  ["restore"]: the REAL api function put_ports (PUT /ports, backup_support on) is given the hub's own current GET /ports
  document (real get_ports) -- every port is reset() and its attributes / expression / value are restored -- followed by one
  pass.  Logged: the last values before and after, and what each driver would have answered to a read at that moment.
  A port spec may carry "tr": ["mul", k] | ["add", k] = a read transform MUL($, k) / ADD($, k); the logged driver values are
  then the transformed ones (what a successful read yields).
  K in FAULTS or null.  A "set" (the outside world changes what the driver of a port reads) takes effect at the instant of the
  next tick, immediately before its pass: passes triggered by writes to *other* ports (which exist only in the run with the
  faulty ports) must not sample a source at an instant at which the reference run has no pass.  All dt are multiples of 125 ms, so every virtual time is a dyadic rational and the float arithmetic of
  time.time() / TimedSet is exact (the 10 s boundary can be hit exactly).

Real objects: core_ports.Port subclasses created by core_ports.load([...]), the real main.update() for every pass, the real
api function patch_port_value for API writes, a recording (non fire-and-forget) event handler registered with
core.events.handlers.  Drivers have zero latency, so a pass is atomic and the run is determined by the scenario.
"""
import asyncio
import json
import sys
import types

FAULTS = ['PortReadError', 'Exception', 'OSError', 'TimeoutError', 'SkipRead', 'PortError', 'PortTimeout', 'PortLoadError',
          'RuntimeError']        # every exception class of core/ports.py + common built-ins; SkipRead = "skip"
SETTLE_ROUNDS = 400
STUCK_S = 120.0        # VIRTUAL seconds after which an awaited pass / API call counts as stuck (drivers have zero latency)


def canon(v):
    if v is None or isinstance(v, bool):
        return v
    if isinstance(v, float) and v.is_integer():
        return int(v)
    return v


SPIN_LIMIT = 6000      # logged actions at ONE virtual instant after which the run counts as a livelock (normal: < 300)


class Livelock(BaseException):
    """raised inside the tasks of the code under test (never in the scenario's own task) to end a run in which evaluation /
    write / polling tasks keep each other busy for ever without virtual time advancing -- such a run would otherwise never
    reach the next timer, so no virtual-time bound can fire.  A BaseException, so that `except Exception` does not swallow it."""


class Env:
    """imports the implementation once per process and owns the monkeypatches"""
    inst = None

    def __init__(self):
        import logging
        logging.getLogger('qtoggleserver').setLevel(logging.CRITICAL + 1)
        logging.disable(logging.CRITICAL)
        from qtoggleserver.conf import settings
        settings.persist.driver = 'qtoggleserver.drivers.persist.JSONDriver'
        settings.persist.file_path = None
        settings.core.backup_support = True          # PUT /ports (the `restore` step)
        from qtoggleserver import persist  # noqa: F401
        from qtoggleserver.core import expressions  # noqa: F401
        from qtoggleserver.core import api as core_api
        from qtoggleserver.core import events as core_events
        from qtoggleserver.core import main
        from qtoggleserver.core import ports as core_ports
        from qtoggleserver.core.api.funcs import ports as api_ports
        from qtoggleserver.core.events import handlers as ev_handlers
        from qtoggleserver.utils import timedset
        self.settings, self.core_api, self.core_events, self.main, self.core_ports = settings, core_api, core_events, main, core_ports
        self.api_ports, self.ev_handlers, self.timedset = api_ports, ev_handlers, timedset
        self.rec = None
        self.pass_lock = None
        env = self

        def make_exc(kind):
            if kind == 'PortReadError':
                return core_ports.PortReadError('scripted read error')
            if kind == 'SkipRead':
                return core_ports.SkipRead()
            if kind == 'OSError':
                return OSError(5, 'scripted I/O error')
            if kind == 'TimeoutError':
                return asyncio.TimeoutError()
            if kind == 'PortError':
                return core_ports.PortError('scripted port error')
            if kind == 'PortTimeout':
                return core_ports.PortTimeout('scripted port timeout')
            if kind == 'PortLoadError':
                return core_ports.PortLoadError('scripted port load error')
            if kind == 'RuntimeError':
                return RuntimeError('scripted runtime error')
            if kind == 'CancelledError':       # probes only: a BaseException, outside the fault alphabet
                return asyncio.CancelledError()
            return Exception('scripted failure')

        self.make_exc = make_exc

        class ScriptPort(core_ports.Port):
            TYPE = 'number'

            def __init__(self, port_id, spec):
                super().__init__(port_id)
                self.c15_spec = spec
                self.c15_drv = spec.get('init')
                self.c15_mode = {'read': None, 'write': None, 'hb': None, 'attr': None, 'enable': None}
                self.c15_mode.update(spec.get('fault0') or {})
                self.c15_latency = 0.0        # probes only
                self.c15_hang = None          # probes only: a future that never completes
                self.c15_adapted = False

            # ---- driver
            async def read_value(self):
                env.log(['read', self.get_id(), self.c15_readback(canon(self.c15_drv))])
                if self.c15_hang is not None:
                    await self.c15_hang
                if self.c15_latency:
                    await asyncio.sleep(self.c15_latency)
                k = self.c15_mode['read']
                if k:
                    raise make_exc(k)
                return self.c15_drv

            def c15_readback(self, v):
                """what a successful read_transformed_value() yields when the driver returns v (spec 'tr': read transform)"""
                tr = self.c15_spec.get('tr')
                if v is None or not tr:
                    return v
                return canon(v * tr[1] if tr[0] == 'mul' else v + tr[1])

            async def write_value(self, value):
                k = self.c15_mode['write']
                env.log(['write', self.get_id(), canon(value), 'exc' if k else 'ok', self.c15_readback(canon(value))])
                if k:
                    raise make_exc('PortError' if k == 'PortReadError' else ('PortTimeout' if k == 'SkipRead' else k))
                self.c15_drv = value

            async def handle_enable(self):
                if self.c15_mode['enable']:
                    raise make_exc(self.c15_mode['enable'])

            def heart_beat_second(self):
                k = self.c15_mode['hb']
                env.log(['hb', self.get_id()])
                if k:
                    raise make_exc(k)

            # ---- attribute getters (a slave port overrides is_persisted the same way)
            async def is_persisted(self):
                if self.c15_mode['attr']:
                    raise make_exc(self.c15_mode['attr'])
                return await super().is_persisted()

            async def attr_is_internal(self):
                if self.c15_mode['attr']:
                    raise make_exc(self.c15_mode['attr'])
                return self._internal

            # ---- observation points (no behaviour of their own)
            def push_eval(self):
                env.log(['push', self.get_id()])
                super().push_eval()

            async def _eval_and_write(self, context):
                self.c15_adapted = False
                try:
                    await super()._eval_and_write(context)
                finally:
                    if not self.c15_adapted:
                        env.log(['eval', self.get_id()])     # evaluation failed: no comparison took place

            async def adapt_value_type(self, value):
                if asyncio.current_task() is self._eval_task and not self.c15_adapted:
                    self.c15_adapted = True
                    env.log(['eval', self.get_id()])         # the comparison with the last value happens right after this
                return await super().adapt_value_type(value)

            async def transform_and_write_value(self, value):
                if asyncio.current_task() is self._eval_task:
                    env.log(['evalwrite', self.get_id(), canon(value)])
                await super().transform_and_write_value(value)

        self.ScriptPort = ScriptPort

        class RecHandler(core_events.Handler):
            FIRE_AND_FORGET = False

            async def handle_event(self, event):
                if isinstance(event, core_events.ValueChange):
                    env.log(['change', event.get_port().get_id(), canon(event.old_value), canon(event.new_value)])
                elif isinstance(event, core_events.PortAdd):
                    env.log(['add', event.get_port().get_id()])

        self.handler = RecHandler('c15rec')

        self.orig_update = main.update

        async def update_wrapper():
            if not env.main._updating_enabled:       # update() returns at once (e.g. during PUT /ports): not a pass
                return await env.orig_update()
            # update() serialises passes with its own lock; the same (fair, FIFO) serialisation here makes the log say when a
            # pass really starts -- a pass is not atomic when a read transform is evaluated (function calls suspend)
            if env.pass_lock is None:
                env.pass_lock = asyncio.Lock()
            async with env.pass_lock:
                origin = env.origin()
                env.log(['pass', env.now_ms(), origin, env.outs(), env.values()])
                try:
                    await env.orig_update()
                except Exception as e:  # noqa: BLE001
                    env.log(['pass_exc', type(e).__name__])
                    raise
                finally:
                    env.log(['pass_end', env.values()])

        main.update = update_wrapper

    @classmethod
    def get(cls):
        if cls.inst is None:
            cls.inst = Env()
        return cls.inst

    # ---- logging
    def log(self, item):
        if self.rec is not None:
            from harness.common import vloop
            vt = vloop.vtime_ms()
            if vt == self.spin_vt:
                self.spin_n += 1
            else:
                self.spin_vt, self.spin_n = vt, 0
            if self.spin_n > SPIN_LIMIT:
                self.livelock = True
                if asyncio.current_task() is not self.main_task:
                    raise Livelock()
                return
            self.rec.append([vt] + item)

    def now_ms(self):
        import time
        return int(round(time.time() * 1000))

    def origin(self):
        t = asyncio.current_task()
        for p in self.core_ports.get_all():
            if t is p._write_value_task:
                return 'write:' + p.get_id()
        return self.cur_origin

    def outs(self):
        """what every port's driver WOULD do in this pass (the model decides which ones are asked)"""
        d = {}
        for p in self.core_ports.get_all():
            m = getattr(p, 'c15_mode', None)
            if m is None:
                continue
            rd = 'val' if not m['read'] else ('skip' if m['read'] == 'SkipRead' else 'err')
            d[p.get_id()] = [bool(m['hb']), rd, bool(m['attr'])]
        return d

    @staticmethod
    def readback(p):
        """what a successful read of p would yield now (driver value through the read transform)"""
        if not hasattr(p, 'c15_readback'):
            return None
        return p.c15_readback(canon(p.c15_drv))

    @staticmethod
    def tr_text(ps):
        tr = ps.get('tr')
        if not tr:
            return None
        return ('MUL($, %d)' if tr[0] == 'mul' else 'ADD($, %d)') % tr[1]

    def values(self):
        """{port: [last value, what the driver would return, enabled]}"""
        return {p.get_id(): [canon(p.get_last_read_value()), self.readback(p), p.is_enabled()]
                for p in self.core_ports.get_all()}

    # ---- one run
    def reset(self):
        main, cp = self.main, self.core_ports
        cp._ports_by_id.clear()
        main._update_lock = None
        main._last_time = 0
        main._updating_enabled = True
        main._force_eval_expression_ports.clear()
        main._force_eval_all_expressions = False
        main._ports_with_read_error = self.timedset.TimedSet(main._PORT_READ_ERROR_RETRY_INTERVAL)
        self.ev_handlers._registered_handlers[:] = [self.handler]
        self.ev_handlers._enabled = True
        self.cur_origin = 'setup'
        self.spin_vt, self.spin_n, self.livelock, self.main_task = None, 0, False, None
        self.pass_lock = None

    def busy(self):
        """ports with a queued or running evaluation / write ('*' = a pass holds the update lock)"""
        b = [p.get_id() for p in self.core_ports.get_all()
             if p._eval_queue.qsize() or p._evaling or p._write_value_queue.qsize() or p._writing]
        lock = self.main._update_lock
        if lock is not None and lock.locked():
            b.append('*')
        return b

    async def settle(self):
        """let evaluation and write tasks run (virtual time stands still); -> ports that are still busy afterwards"""
        calm = 0
        for _ in range(SETTLE_ROUNDS):
            await asyncio.sleep(0)
            calm = calm + 1 if not self.busy() else 0
            if calm >= 8:
                return []
        return self.busy()

    def expr_text(self, e):
        if e is None:
            return None
        if e[0] == 'port':
            return '$%s' % e[1]
        if e[0] == 'add':
            return 'ADD($%s, $%s)' % (e[1], e[2])
        raise ValueError(e)

    def state(self):
        st = {}
        for p in self.core_ports.get_all():
            st[p.get_id()] = [canon(p.get_last_read_value()), self.readback(p),
                              bool(p in self.main._ports_with_read_error._set), bool(p.is_loaded()), bool(p.is_enabled())]
        return st

    async def bounded(self, coro, limit=STUCK_S):
        """await coro for at most `limit` VIRTUAL seconds -> ('ok', result) | ('exc', exception) | ('stuck', None).
        A pass that waits for ever (e.g. in `while self._reading: await asyncio.sleep(1)` behind a flag that a failed read left
        set) makes virtual time run away; the caller gets 'stuck' instead of never returning."""
        t = asyncio.ensure_future(coro)
        done, _ = await asyncio.wait({t}, timeout=limit)
        if not done:
            t.cancel()
            await asyncio.wait({t}, timeout=5)
            return 'stuck', None
        if t.cancelled():
            return 'exc', asyncio.CancelledError()
        if t.exception() is not None:
            return 'exc', t.exception()
        return 'ok', t.result()

    def port_args(self, ps):
        cls = type('ScriptPort_' + ps['id'], (self.ScriptPort,), {
            'WRITABLE': bool(ps.get('writable')), 'INTERNAL': bool(ps.get('internal')),
            'PERSISTED': bool(ps.get('persisted'))})
        return {'driver': cls, 'port_id': ps['id'], 'spec': ps}

    async def load_batch(self, specs, out, step):
        """the real core_ports.load() on one batch whose configuration is in the persistence layer"""
        from qtoggleserver import persist
        cp = self.core_ports
        for ps in specs:
            d = {'id': ps['id'], 'enabled': bool(ps.get('enabled', True))}
            if ps.get('expr') is not None:
                d['expression'] = self.expr_text(ps['expr'])
            if ps.get('tr'):
                d['transform_read'] = self.tr_text(ps)
            if ps.get('value0') is not None:
                d['value'] = ps['value0']
            await persist.replace(cp.BasePort.PERSIST_COLLECTION, ps['id'], d)
        self.log(['load', [ps['id'] for ps in specs]])
        how, r = await self.bounded(cp.load([self.port_args(ps) for ps in specs], trigger_add=True))
        if how != 'ok':
            what = 'stuck' if how == 'stuck' else '%s: %s' % (type(r).__name__, r)
            self.log(['load_failed', what])
            out['load_failed'].append({'step': step, 'batch': [ps['id'] for ps in specs], 'error': what})

    async def run_async(self, sc, extra=None):
        cp, main = self.core_ports, self.main
        self.reset()
        self.main_task = asyncio.current_task()
        self.rec = None
        from qtoggleserver import persist
        await persist.remove(cp.BasePort.PERSIST_COLLECTION)
        out = {'ok': True, 'unsettled': [], 'stuck': [], 'load_failed': []}
        rec = []
        if sc.get('load_mode'):
            # start-up path: configuration comes from the persistence layer, faults may be in force from the start, one batch
            self.rec = rec
            await self.load_batch(sc['ports'], out, -1)
            for _ in range(4):
                how, _r = await self.bounded(main.update())
                if how == 'stuck':
                    out['stuck'].append({'step': -1, 'what': 'a start-up polling pass did not finish'})
                    break
                await self.settle()
        else:
            ports = await cp.load([self.port_args(ps) for ps in sc['ports']], trigger_add=False)
            for p, ps in zip(ports, sc['ports']):
                if ps.get('tr'):
                    await p.set_attr('transform_read', self.tr_text(ps))
                    if p._transform_read is None:
                        raise RuntimeError('read transform not set on %s' % ps['id'])
                if ps.get('enabled', True):
                    await p.enable()
            for p, ps in zip(ports, sc['ports']):
                if ps.get('expr') is not None:
                    await p.set_attr('expression', self.expr_text(ps['expr']))
                    if p.get_expression() is None:
                        raise RuntimeError('expression not set on %s' % ps['id'])
            # settle the start-up (forced evaluations, first reads); the scenario starts from this state
            for _ in range(4):
                await main.update()
                await self.settle()
            for p in ports:
                p._pending_save = False
            self.rec = rec
        out['init'] = self.state()
        out['init_last_sec'] = main._last_time
        out['init_now_ms'] = self.now_ms()
        states = []
        api_results = []
        pending_sets = []
        try:
            for si, st in enumerate(sc['steps']):
                op = st[0]
                self.log(['step', si])
                if op == 'tick':
                    await asyncio.sleep(st[1] / 1000.0)
                    self.log(['adv', st[1]])
                    for pid_, v_ in pending_sets:      # source values change at tick instants (see module docstring)
                        if cp.get(pid_) is None:
                            continue
                        cp.get(pid_).c15_drv = v_
                        self.log(['set', pid_, self.readback(cp.get(pid_))])
                    pending_sets = []
                    self.cur_origin = 'tick'
                    how, _r = await self.bounded(main.update())     # an exception: update_loop logs it and carries on
                    if how == 'stuck':
                        self.log(['pass_stuck', 'tick'])
                        out['stuck'].append({'step': si, 'what': 'the polling pass of this tick did not finish within %d '
                                                                 'virtual seconds' % STUCK_S})
                elif op == 'set':
                    pending_sets.append((st[1], st[2]))
                elif op == 'restore':
                    self.cur_origin = 'restore'
                    self.log(['restore', self.outs(), self.values()])
                    how, r = await self.bounded(self.restore())
                    if how != 'ok':
                        r = 'stuck' if how == 'stuck' else 'raised:%s: %s' % (type(r).__name__, r)
                    self.log(['restore_end', self.values(), r])
                    out.setdefault('restores', []).append([si, r])
                    if how == 'stuck':
                        out['stuck'].append({'step': si, 'what': 'PUT /ports did not return within %d virtual seconds' % STUCK_S})
                    else:
                        await self.bounded(main.update())      # as after a load: the polling loop's next pass, in both runs
                elif op == 'load':
                    self.cur_origin = 'load'
                    await self.load_batch(st[1], out, si)
                    # Loading (enable(), set expression) leaves "evaluate at the next pass" requests behind.  The polling loop
                    # would run that pass within one tick interval; run it now, in both runs at the same instant -- otherwise
                    # the "next pass" is whichever comes first, e.g. one triggered by a write to a faulty port, and the two
                    # runs differ only in WHEN a newly loaded follower first catches up with its expression.
                    how, _r = await self.bounded(main.update())
                    if how == 'stuck':
                        self.log(['pass_stuck', 'load'])
                        out['stuck'].append({'step': si, 'what': 'the polling pass after loading a batch did not finish within '
                                                                 '%d virtual seconds' % STUCK_S})
                elif op == 'fault':
                    p = cp.get(st[1])
                    if p is not None:
                        p.c15_mode.update(st[2])
                elif op == 'api':
                    self.cur_origin = 'api'
                    how, r = await self.bounded(self.api_write(st[1], st[2]))
                    if how != 'ok':
                        r = 'stuck' if how == 'stuck' else 'raised:' + type(r).__name__
                    if how == 'stuck':
                        self.log(['pass_stuck', 'api'])
                        out['stuck'].append({'step': si, 'what': 'PATCH /ports/%s/value did not return within %d virtual '
                                                                 'seconds' % (st[1], STUCK_S)})
                    self.log(['api', st[1], st[2], r])
                    api_results.append([si, st[1], st[2], r])
                elif extra is not None:
                    await extra(self, st)
                else:
                    raise ValueError(st)
                self.cur_origin = 'idle'
                for b in await self.settle():
                    if b not in out['unsettled']:
                        out['unsettled'].append(b)
                states.append(self.state())
                if self.livelock:
                    out['stuck'].append({'step': si, 'what': 'livelock: more than %d logged actions (passes, reads, evaluations, '
                                                             'writes) at one virtual instant' % SPIN_LIMIT})
                if out['stuck']:
                    break          # the system is wedged; what follows says nothing new
        finally:
            self.rec = None
            for p in list(cp.get_all()):
                for t in (p._write_value_task, p._eval_task):
                    if t is not None and not t.done():
                        t.cancel()
            await asyncio.sleep(0)
            cp._ports_by_id.clear()
        out['log'] = rec
        out['states'] = states
        out['api'] = api_results
        return out

    async def restore(self):
        handler = types.SimpleNamespace(access_level=self.core_api.ACCESS_LEVEL_ADMIN, username='c15',
                                        request=types.SimpleNamespace(headers={}, method='PUT', path='/ports', body=b'',
                                                                      query_arguments={}))
        try:
            doc = await self.api_ports.get_ports(handler)
            doc = json.loads(json.dumps(doc, default=str))
        except Exception as e:  # noqa: BLE001
            return 'get_ports raised:%s' % type(e).__name__
        try:
            await self.api_ports.put_ports(handler, doc)
            return '204'
        except self.core_api.APIError as e:
            return '%s:%s:%s' % (e.status, e.code, json.dumps(e.params, default=str, sort_keys=True))
        except Exception as e:  # noqa: BLE001
            return 'raised:%s: %s' % (type(e).__name__, e)

    async def api_write(self, pid, value):
        handler = types.SimpleNamespace(access_level=self.core_api.ACCESS_LEVEL_ADMIN, username='c15',
                                        request=types.SimpleNamespace(headers={}, method='PATCH', path='/ports/%s/value' % pid,
                                                                      body=b'', query_arguments={}))
        try:
            await self.api_ports.patch_port_value(handler, pid, value)
            return '204'
        except self.core_api.APIAccepted:
            return '202'
        except self.core_api.APIError as e:
            return '%s:%s' % (e.status, e.code)
        except Exception as e:  # noqa: BLE001
            return 'raised:' + type(e).__name__

    def run(self, sc, extra=None):
        from harness.common import vloop
        budget = sum(st[1] for st in sc['steps'] if st[0] == 'tick') / 1000.0 + (STUCK_S + 10) * (len(sc['steps']) + 10)
        try:
            return vloop.run(asyncio.wait_for(self.run_async(sc, extra), timeout=budget))
        except asyncio.TimeoutError:
            return {'ok': False, 'error': 'scenario did not finish within its virtual-time budget of %d s' % budget}
        except Exception as e:  # noqa: BLE001
            import traceback
            return {'ok': False, 'error': '%s: %s' % (type(e).__name__, e), 'trace': traceback.format_exc()[-1500:]}


# ----------------------------------------------------------------------------------------------------------------
# paired runs: the spec oracle on the implementation

def all_specs(sc):
    specs = list(sc['ports'])
    for st in sc['steps']:
        if st[0] == 'load':
            specs += st[1]
    return specs


def healthy_ids(sc):
    return [p['id'] for p in all_specs(sc) if not p.get('faulty')]


def reference_scenario(sc):
    """the same scenario with the faulty ports absent"""
    H = set(healthy_ids(sc))
    ports = [p for p in sc['ports'] if p['id'] in H]
    steps = []
    for st in sc['steps']:
        if st[0] in ('set', 'api', 'fault') and st[1] not in H:
            steps.append(['nop'])      # keep the step indices aligned
        elif st[0] == 'load':
            steps.append(['load', [p for p in st[1] if p['id'] in H]])
        else:
            steps.append(st)
    ref = {'ports': ports, 'steps': steps}
    if sc.get('load_mode'):
        ref['load_mode'] = True
    return ref


async def _nop(env, st):
    if st[0] != 'nop':
        raise ValueError(st)


def healthy_view(run, H):
    """observables of the healthy ports, in a form that must be identical with and without the faulty ports"""
    H = set(H)
    v = {'last': [], 'changes': {}, 'writes': {}, 'evalwrites': {}, 'api': [], 'hb_seconds': {}, 'tick_reads': [],
         'pushes': {}, 'pass_exc': 0, 'adds': [], 'ports': []}
    for st in [run['init']] + run['states']:
        # which healthy ports exist, are loaded and enabled (start-up state first)
        v['ports'].append({p: ['loaded' if s[3] else 'NOT loaded', 'enabled' if s[4] else 'disabled'] for p, s in st.items() if p in H})
    for st in run['states']:
        v['last'].append({p: s[0] for p, s in st.items() if p in H})
    v['api'] = [a for a in run['api'] if a[1] in H] + [['restore'] + r for r in run.get('restores', [])]
    origin = None
    step = None
    cur_reads = None
    for it in run['log']:
        t, k = it[0], it[1]
        if k == 'step':
            step = it[2]
        elif k == 'pass':
            origin = it[3]
            if origin == 'tick':
                cur_reads = []
                v['tick_reads'].append([step, cur_reads])
            else:
                cur_reads = None
        elif k == 'pass_end':
            cur_reads = None
        elif k == 'pass_exc':
            v['pass_exc'] += 1
        elif k == 'read' and it[2] in H:
            if cur_reads is not None:
                cur_reads.append(it[2])
        elif k == 'hb' and it[2] in H:
            v['hb_seconds'].setdefault(it[2], []).append((t + 0) // 1000)
        elif k == 'add' and it[2] in H:
            v['adds'].append(it[2])
        elif k == 'change' and it[2] in H:
            v['changes'].setdefault(it[2], []).append([t, it[3], it[4]])
        elif k == 'push' and it[2] in H:
            v['pushes'].setdefault(it[2], []).append(t)
        elif k == 'evalwrite' and it[2] in H:
            v['evalwrites'].setdefault(it[2], []).append([t, it[3]])
        elif k == 'write' and it[2] in H:
            v['writes'].setdefault(it[2], []).append([t, it[3], it[4]])
    return v


def diff_views(a, b):
    """first difference between two healthy views: (observable kind, detail) or None"""
    for kind in ('ports', 'adds', 'last', 'changes', 'writes', 'api', 'evalwrites', 'tick_reads', 'hb_seconds', 'pushes'):
        if a[kind] != b[kind]:
            detail = {'with_faulty_ports': a[kind], 'without': b[kind]}
            if kind in ('last', 'ports'):
                for i, (x, y) in enumerate(zip(a[kind], b[kind])):
                    if x != y:
                        detail = {'step': i, 'with_faulty_ports': x, 'without': y}
                        break
            elif isinstance(a[kind], dict):
                for p in sorted(set(a[kind]) | set(b[kind])):
                    if a[kind].get(p) != b[kind].get(p):
                        detail = {'port': p, 'with_faulty_ports': a[kind].get(p), 'without': b[kind].get(p)}
                        break
            return kind, detail
    return None


RETRY_MS = 10000      # "ports skipped for 10 s after a failed read" (properties.jsonl, anchors of C15)


def own_port_check(run):
    """the failing port itself (second sentence of the property), checked on the log of one run:
      * a pass in which the port is not read, or its read raises / reports skip, leaves its last value alone;
        a read that returns a value makes that value the last value;
      * after a read error at time t the port is not read by passes at times <= t + 10 s and is read by the first pass
        after that (and by every pass while it is not parked).
    -> None or {'rule': ..., ...}"""
    parked_at = {}
    cur = None
    for it in run.get('log') or []:
        k = it[1]
        if k == 'pass':
            cur = {'now': it[2], 'outs': it[4], 'before': it[5], 'reads': {}, 'vt': it[0]}
        elif k == 'restore':
            rst = {'outs': it[2], 'before': it[3], 'vt': it[0]}
        elif k == 'restore_end':
            # PUT /ports resets every port; a port whose driver raises / skips at that moment still shows its last good value
            for p, (last, _drv, enabled) in rst['before'].items():
                rd = rst['outs'].get(p, [False, 'val', False])[1]
                if p in it[2] and rd != 'val' and it[2][p][0] != last:
                    return {'rule': 'last-good-value', 'port': p, 'vtime_ms': rst['vt'], 'outcome': rd + ' (read while PUT /ports '
                            'restores the ports)', 'last_value_before': last, 'last_value_after': it[2][p][0]}
        elif k == 'read' and cur is not None:
            cur['reads'][it[2]] = it[3] if len(it) > 3 else None     # what the driver answers at that very moment
        elif k == 'pass_exc' and cur is not None:
            cur['exc'] = True
        elif k == 'pass_end' and cur is not None:
            after = it[2]
            for p, (last, drv, enabled) in cur['before'].items():
                if p not in after:
                    continue
                rd = cur['outs'].get(p, [False, 'val', False])[1]
                was_read = p in cur['reads']
                t = parked_at.get(p)
                expect_read = enabled and not (t is not None and cur['now'] - t <= RETRY_MS)
                if cur.get('exc') and not was_read:
                    expect_read = was_read      # the pass was aborted: judged by the healthy-port oracle, not here
                if was_read != expect_read:
                    return {'rule': 'retry', 'port': p, 'vtime_ms': cur['vt'], 'read': was_read, 'expected_read': expect_read,
                            'ms_since_read_error': None if t is None else cur['now'] - t}
                if was_read:
                    parked_at.pop(p, None)
                    if rd == 'err':
                        parked_at[p] = cur['now']
                new = after[p][0]
                if was_read and rd == 'val':
                    drv = cur['reads'][p]
                    if new != drv:
                        return {'rule': 'recover', 'port': p, 'vtime_ms': cur['vt'], 'driver_value': drv, 'last_value_after': new}
                elif new != last:
                    return {'rule': 'last-good-value', 'port': p, 'vtime_ms': cur['vt'], 'outcome': rd if was_read else 'not read',
                            'last_value_before': last, 'last_value_after': new}
            cur = None
    return None


def follow_check(sc, run):
    """a port (also one whose driver failed earlier and has recovered) keeps following its expression: every evaluation whose
    result differs from the port's current last value asks the driver to write it; checked on the log of one run.  The result
    is recomputed here from the last values at the pass that requested the evaluation (`$x` / `ADD($x, $y)` only)."""
    exprs = {p['id']: p.get('expr') for p in all_specs(sc)}
    lasts = {p: v[0] for p, v in (run.get('init') or {}).items()}
    queue = {}
    pushes = []
    log = run.get('log') or []

    def get(snap, x):
        if x not in snap:
            return 'fail'                      # unknown or disabled port
        return snap[x]

    def value_of(e, snap):
        if e[0] == 'port':
            return get(snap, e[1])
        a, b = get(snap, e[1]), get(snap, e[2])
        for v in (a, b):
            if v == 'fail' or v is None:
                return v                       # the first failing argument decides
        return canon(a + b)

    in_pass = False
    for i, it in enumerate(log):
        k = it[1]
        if k == 'pass':
            pushes = []
            in_pass = True
        elif k == 'push':
            pushes.append(it[2])
        elif k in ('pass_end', 'restore_end'):
            vals = it[2]
            lasts.update({p: v[0] for p, v in vals.items()})
            if k == 'pass_end':
                in_pass = False
                snap = {p: v[0] for p, v in vals.items() if v[2]}
                for p in pushes:
                    queue.setdefault(p, []).append(snap)
                pushes = []
        elif k == 'eval':
            p = it[2]
            if not queue.get(p) or not exprs.get(p):
                continue
            want = value_of(exprs[p], queue[p].pop(0))
            if in_pass:
                continue       # evaluated while a pass was suspended in a read transform: the last value is in flux
            nxt = log[i + 1] if i + 1 < len(log) else None
            wrote = nxt is not None and nxt[1] == 'evalwrite' and nxt[2] == p
            expect = want != 'fail' and want != lasts.get(p)
            if wrote != expect or (wrote and nxt[3] != want):
                return {'rule': 'follow-expression', 'port': p, 'vtime_ms': it[0], 'expression_value': want,
                        'last_value': lasts.get(p), 'write_requested': nxt[3] if wrote else None}
    return None


def pair(env, sc):
    H = healthy_ids(sc)
    fr = env.run(sc)
    rr = env.run(reference_scenario(sc), extra=_nop)
    res = {'faulty_run': fr, 'reference_run': rr, 'diff': None}
    if not fr.get('ok') or not rr.get('ok'):
        res['error'] = fr.get('error') or rr.get('error')
        res['trace'] = fr.get('trace') or rr.get('trace')
        return res
    d = None
    if bool(fr.get('stuck')) != bool(rr.get('stuck')):
        # every scripted fault is a *raising* fault (in scope); scripted hangs exist only in `probes`
        d = ('pass-stuck', {'with_faulty_ports': fr.get('stuck'), 'without': rr.get('stuck')})
    if d is None:
        d = diff_views(healthy_view(fr, H), healthy_view(rr, H))
    if d is None:
        # a healthy port (or a pass) still busy after a step, in one run only
        ua = sorted(b for b in fr['unsettled'] if b in H or b == '*')
        ub = sorted(b for b in rr['unsettled'] if b in H or b == '*')
        if ua != ub:
            d = ('settle', {'with_faulty_ports': ua, 'without': ub})
    if d is not None:
        res['diff'] = {'observable': d[0], 'detail': d[1]}
    else:
        own = own_port_check(fr) or own_port_check(rr) or follow_check(sc, fr) or follow_check(sc, rr)
        if own is not None:
            res['diff'] = {'observable': 'own:' + own['rule'], 'detail': own}
    return res


def has_diff(env, sc, reps=3, every=False):
    """a difference may depend on the iteration order of a set of port objects (hash = address), so one run says little:
    every=False: some of `reps` runs differ;  every=True: all of them do (the symptom does not depend on that order)"""
    for _ in range(reps):
        r = pair(env, sc)
        if 'error' in r:
            return False
        d = r.get('diff') is not None
        if d and not every:
            return True
        if not d and every:
            return False
    return every


def shrink(env, sc, budget=400):
    """greedy: drop steps, drop ports, simplify faults, while the healthy observables still differ"""
    sc = json.loads(json.dumps(sc))
    used = [0]
    # prefer a replay whose symptom shows on every run; fall back to "shows on some run" when the original is not like that
    every = has_diff(env, sc, reps=4, every=True)

    def still(c):
        if used[0] >= budget:
            return False
        used[0] += 1
        try:
            return has_diff(env, c, reps=4 if every else 3, every=every)
        except Exception:  # noqa: BLE001
            return False

    changed = True
    while changed and used[0] < budget:
        changed = False
        # chunks of steps, then single steps
        n = len(sc['steps'])
        size = max(1, n // 2)
        while size >= 1:
            i = 0
            while i < len(sc['steps']):
                c = dict(sc, steps=sc['steps'][:i] + sc['steps'][i + size:])
                if c['steps'] and still(c):
                    sc = c
                    changed = True
                else:
                    i += size
            size //= 2
        # ports nobody needs
        for p in list(sc['ports']):
            pid = p['id']
            used_by = any(q.get('expr') and pid in q['expr'][1:] for q in sc['ports'] if q['id'] != pid)
            if used_by:
                continue
            c = dict(sc, ports=[q for q in sc['ports'] if q['id'] != pid],
                     steps=[s for s in sc['steps'] if not (s[0] in ('set', 'api', 'fault') and s[1] == pid)])
            if any(q.get('faulty') for q in c['ports']) and any(not q.get('faulty') for q in c['ports']) and still(c):
                sc = c
                changed = True
        # members of later batches
        for i, s in enumerate(sc['steps']):
            if s[0] != 'load':
                continue
            for m in list(s[1]):
                batch = [q for q in sc['steps'][i][1] if q['id'] != m['id']]
                c = dict(sc, steps=sc['steps'][:i] + [['load', batch]] + [t for t in sc['steps'][i + 1:]
                                                                          if not (t[0] in ('set', 'api', 'fault') and t[1] == m['id'])])
                if still(c):
                    sc = c
                    changed = True
        # single fault sites
        for i, s in enumerate(sc['steps']):
            if s[0] != 'fault':
                continue
            for site in ('read', 'write', 'hb', 'attr'):
                if s[2].get(site):
                    m = dict(s[2])
                    m[site] = None
                    c = dict(sc, steps=sc['steps'][:i] + [['fault', s[1], m]] + sc['steps'][i + 1:])
                    if still(c):
                        sc = c
                        s = sc['steps'][i]
                        changed = True
        # plain flags
        for i, p in enumerate(sc['ports']):
            for flag in ('internal', 'persisted'):
                if p.get(flag):
                    q = dict(p)
                    q[flag] = False
                    c = dict(sc, ports=sc['ports'][:i] + [q] + sc['ports'][i + 1:])
                    if still(c):
                        sc = c
                        p = q
                        changed = True
    return sc, used[0]


def fault_sites(sc):
    s = set()
    for st in sc['steps']:
        if st[0] == 'fault':
            for site, k in st[2].items():
                if k:
                    s.add(site)
    return sorted(s)


# ----------------------------------------------------------------------------------------------------------------
# probes of the suspicious paths (section 3 of the task; reported in notes/C15.md and in the evidence)

def probes(env):
    out = {}
    base_ports = [
        {'id': 'f', 'enabled': True, 'writable': True, 'init': 1, 'faulty': True},
        {'id': 'h', 'enabled': True, 'writable': False, 'init': 1},
        {'id': 'q', 'enabled': True, 'writable': True, 'init': 1, 'expr': ['port', 'h']},
    ]

    def summary(sc):
        r = pair(env, sc)
        return {'diff': r.get('diff'), 'error': r.get('error'),
                'pass_exc': [it for it in (r['faulty_run'].get('log') or []) if it[1] == 'pass_exc']}

    for kind in ('Exception', 'PortReadError', 'OSError', 'TimeoutError', 'SkipRead'):
        for site in ('read', 'write', 'hb'):
            sc = {'ports': base_ports, 'steps': [
                ['fault', 'f', {site: kind}], ['set', 'h', 5], ['api', 'f', 7], ['tick', 1000], ['set', 'h', 6], ['tick', 1000],
                ['fault', 'f', {site: None}], ['set', 'h', 7], ['tick', 11000]]}
            out['%s@%s' % (kind, site)] = summary(sc)
    # attribute getter raising while the faulty port's own value change is being handled
    sc = {'ports': base_ports, 'steps': [
        ['fault', 'f', {'attr': 'Exception'}], ['set', 'f', 2], ['set', 'h', 5], ['tick', 1000], ['tick', 1000], ['tick', 1000]]}
    out['attr-getter-in-handle_value_changes'] = summary(sc)
    sc2 = json.loads(json.dumps(sc))
    sc2['ports'] = [base_ports[1], base_ports[2], base_ports[0]]       # faulty port last in iteration order
    out['attr-getter-in-handle_value_changes(faulty last)'] = summary(sc2)

    # load-time faults: the faulty port sits between two healthy ones in ONE core_ports.load() batch (start-up path)
    def load_probe(fault0, **extra):
        f = dict({'id': 'f', 'enabled': True, 'writable': True, 'init': 1, 'faulty': True, 'fault0': fault0}, **extra)
        sc = {'load_mode': True, 'ports': [
            {'id': 'h1', 'enabled': True, 'writable': False, 'init': 1}, f,
            {'id': 'h2', 'enabled': True, 'writable': True, 'init': 1, 'expr': ['port', 'h1']}],
            'steps': [['set', 'h1', 5], ['tick', 1000], ['tick', 1000]]}
        r = pair(env, sc)
        return {'diff': r.get('diff'), 'error': r.get('error'), 'load_failed': r['faulty_run'].get('load_failed')}

    out['load:first-read-raises'] = load_probe({'read': 'OSError'})
    out['load:first-read-skips'] = load_probe({'read': 'SkipRead'})
    out['load:handle_enable-raises'] = load_probe({'enable': 'Exception'})
    out['load:heart-beat-raises'] = load_probe({'hb': 'Exception'})
    out['load:attribute-getter-raises'] = load_probe({'attr': 'Exception'})
    out['load:write-of-persisted-value-raises'] = load_probe({'write': 'OSError'}, persisted=True, value0=3)

    # slow / hanging driver reads (timing; not part of the value/event observables)
    async def timing(env, latency=None, hang=False, kind='TimeoutError'):
        cp, main = env.core_ports, env.main
        env.reset()
        env.rec = None
        cls = type('ScriptPort_t', (env.ScriptPort,), {'WRITABLE': False})
        ports = await cp.load([{'driver': cls, 'port_id': 'f', 'spec': {'init': 1}},
                               {'driver': cls, 'port_id': 'h', 'spec': {'init': 1}}], trigger_add=False)
        for p in ports:
            await p.enable()
        await main.update()
        f, h = ports
        env.rec = rec = []
        if latency is not None:
            f.c15_latency = latency
            f.c15_mode['read'] = kind
        if hang:
            f.c15_hang = asyncio.get_running_loop().create_future()

        ready = main._ready
        main._ready = True
        t = asyncio.ensure_future(main.update_loop())       # the real polling loop
        await asyncio.sleep(60)
        loop_ended_by_itself = t.done()
        t.cancel()
        main._ready = ready
        reads_h = [it[0] for it in rec if it[1] == 'read' and it[2] == 'h']
        gaps = [b - a for a, b in zip(reads_h, reads_h[1:])]
        env.rec = None
        for p in list(cp.get_all()):
            for tk in (p._write_value_task, p._eval_task):
                if tk is not None and not tk.done():
                    tk.cancel()
        await asyncio.sleep(0)
        cp._ports_by_id.clear()
        return {'healthy_reads_in_60s': len(reads_h), 'max_gap_ms_between_healthy_reads': max(gaps) if gaps else None,
                'tick_interval_ms': env.settings.core.tick_interval, 'polling_loop_ended': loop_ended_by_itself}

    from harness.common import vloop
    out['timing:no-fault'] = vloop.run(timing(env))
    out['timing:read-raises-TimeoutError-after-5s'] = vloop.run(timing(env, latency=5.0))
    out['timing:read-never-returns'] = vloop.run(timing(env, hang=True))
    out['timing:read-raises-CancelledError(BaseException, out of scope)'] = vloop.run(timing(env, latency=0, kind='CancelledError'))
    return out


def main(argv):
    mode, inp, outp = argv[1], argv[2], argv[3]
    env = Env.get()
    if mode == 'probes':
        res = probes(env)
    else:
        with open(inp) as f:
            data = json.load(f)
        if mode == 'run':
            res = [env.run(sc) for sc in data]
        elif mode == 'pairs':
            # one line per finished scenario, so that a wall-clock timeout of the caller loses only the scenario that hangs
            with open(outp + 'l', 'w') as f:
                for sc in data:
                    f.write(json.dumps(pair(env, sc)) + '\n')
                    f.flush()
            return
        elif mode == 'shrink':
            small, used = shrink(env, data)
            pr = pair(env, small)
            for _ in range(8):
                if pr.get('diff'):
                    break
                pr = pair(env, small)
            res = {'scenario': small, 'trials': used, 'pair': pr}
        else:
            raise SystemExit('unknown mode')
    with open(outp, 'w') as f:
        json.dump(res, f)


if __name__ == '__main__':
    main(sys.argv)
