"""C13 — changes made while a slave is offline are pushed once it is back online.

Theorems: coq/theories/Props/C13.v over the model coq/theories/C13/Provisioning.v (+ the mirror and the guarded handlers of
C12/Mirror.v), specification C13/Spec.v.
Tie (T): harness/translate/slavesync.py reads which variant the three statements of slaves/devices.py have (the body of the
PATCH .../value built by apply_provisioning, what _handle_port_update / _handle_device_update do with pending names) into
Gen/C13Gen.v; the positive theorems are stated for that configuration and proved for the repaired one (C13/GenOk.v: cfg_src =
cfg_fixed), so they stop compiling on a tree that has the code as found (F5).
Tie (C): the real Slave / SlavePort objects are driven through outages step by step (offline set_attr / write_value / PATCH
/device, events of the first listen answer, _handle_online or _poll_once, apply_provisioning); mirror state and the requests
built are compared with the model (with the translated configuration) by vm_compute.
Oracle: end-to-end runs (real listen / poll loop on the virtual clock, outages of 30-130 s, edits through the API functions
patch_port / patch_port_value / slave_device_forward while offline): what is reported as pending after each edit, the request
log of the simulated slave after the reconnect (exactly one request per pending item, carrying the user's value, before the
refresh, nothing else), nothing pending afterwards, mirror equal to the device at the sync point.
"""
import copy
import hashlib
import json
import os
import re

from harness.common import coq
from harness.props import c12
from harness.translate import slavesync

ID = 'C13'
PROPS = 'theories/Props/C13.v'
MODEL_TARGETS = ['theories/C13/Run.vo']
TRANSLATORS = [slavesync.translate_c13]
TIE = ('translator (body of the provisioning value request, treatment of pending names in _handle_port_update / '
       '_handle_device_update) + correspondence: real Slave/SlavePort objects driven through outages step by step, mirror state '
       'and requests built vs the model by vm_compute; end-to-end runs against the specification oracle')
ALLOWED_AXIOMS = []
TRUSTED_BASE = c12.TRUSTED_BASE[:2] + [
    'harness/translate/slavesync.py (reads the three statement shapes it documents; fail closed otherwise)',
    'modelled, not verified: HTTP transport (the fake client keeps tornado\'s refusal of PATCH/POST/PUT without body), api_call '
    'retries, the listen / poll loops\' online/offline bookkeeping (end to end only), webhooks / reverse parameters provisioning, '
    'restart of the master while something is pending (the sets are persisted; cached attribute values of a listening slave\'s '
    'ports are not read back: notes/C13.md)',
]
ASSUMPTIONS = [
    'an edit counts as made offline when Slave.is_online() is false before and after the API call and the call succeeded '
    '(200/202/204); edits of the attribute "enabled" and removal on the device of a port with pending edits are not generated',
    'no full-update event is waiting in the listen session across the outage (it makes the master fetch the device before '
    '_handle_online provisions; with the repaired guards nothing is overwritten, but the letter of "before the refresh" is not met)',
    'the device accepts a provisioned value (the port is writable and enabled on the device: the model queues the value as '
    'remote value once sent)',
    'during the reconnect the device stays reachable (a provisioning request that fails is not retried by the code: the '
    'pending mark is cleared all the same)',
    '"before the master refreshes its mirror": before GET /ports (and, for a listening slave, GET /device); a polled slave is '
    'probed with GET /device first and that answer passes through the guarded _handle_device_update',
]

FAIL_POLLED_VALUE_PUSH = os.path.exists(os.path.join(coq.VERIF, 'corpus', 'C13', 'polled-slave-failed-value-push-leaves-mirror-stale.json'))

HEADER = 'From QT Require Import C13.Run.\nOpen Scope string_scope.\n'
FLAGS = {'webhooks': 1, 'reverse': 2}
MASTER_ATTRS = c12.MASTER_ATTRS


def slave_name(n):
    return n[7:] if c12.is_renamed(n) else n


# ----------------------------------------------------------------------------------------------------------------------
# generators

def rand_edit(rng, st, kinds=('mv', 'ma', 'md')):
    """one master-side edit against the generator's picture of the device -> op tail or None"""
    k = rng.choice(kinds)
    ids = list(st.ports)
    if k == 'mv':
        cands = [i for i in ids if st.ports[i]['writable'] and st.ports[i]['enabled']]
        if not cands:
            k = 'ma'
        else:
            pid = rng.choice(cands)
            return ['mv', pid, c12.rand_value(rng, st.ports[pid]['type'])]
    if k == 'ma' and ids:
        pid = rng.choice(ids)
        p = st.ports[pid]
        names = ['display_name', 'display_name', 'persisted', 'tag', 'device_expression']
        if p['type'] == 'number':
            names.append('unit')
        if 'gain' in p:
            names += ['gain', 'gain']
        d = {}
        for n in rng.sample(names, rng.choice([1, 1, 2])):
            d[n] = {'display_name': lambda: rng.choice(['user name', 'U', 'edited %d' % rng.randint(0, 9)]),
                    'persisted': lambda: rng.random() < 0.5, 'tag': lambda: rng.choice(['mt', 'mt2']),
                    'device_expression': lambda: rng.choice(['', 'ADD(2, 2)', 'SUB(5, 1)']),
                    'unit': lambda: rng.choice(['W', 'A', 'uu']), 'gain': lambda: rng.randint(0, 100)}[n]()
        return ['ma', pid, d]
    r = rng.random()
    if r < 0.6:
        return ['md', {'display_name': rng.choice(['User Dev', 'UD %d' % rng.randint(0, 9)])}]
    # passwords are write-only on the slave and masked ('set' / '') wherever the master shows its cache
    n = 'admin_password' if r < 0.8 else rng.choice(['normal_password', 'viewonly_password'])
    return ['md', {n: rng.choice(['s3cret', 'pw%d' % rng.randint(0, 99), 'set!'])}]


def gen_e2e_push(rng):
    """a permanently offline (webhook-only) slave: every edit is pending until the slave sends an event; provisioning is scheduled
    1 s after each event.  1-4 pending items (the provisioning requests make the device send events that schedule
    _provision_and_update again while it is running: corpus/C13/webhook-only-slave-provisioning-reentered-by-its-own-events.json),
    then two events within a second from a slave that is slower than the gap"""
    st = c12.SimState(rng, rng.randint(1, 3))
    job = {'kind': 'e2e', 'mode': 'push', 'poll': 1, 'flags': ['listen'], 'lat': [rng.choice([300, 500, 800])],
           'ports': [copy.deepcopy(p) for p in st.ports.values()], 'ops': []}
    ops = job['ops']
    e = None
    pend = set()
    for k in range(rng.randint(1, 4)):       # several pending items: device attribute, port attributes, values
        e = rand_edit(rng, st) if k == 0 else fresh_edit(rng, st, pend)
        if e:
            ops.append([1000 if k == 0 else rng.choice([0, 100, 500])] + e)
            pend |= edit_keys(e)
    if not ops:
        e = ['md', {'display_name': 'User Dev'}]
        ops.append([1000] + e)
    ids = [i for i, p in st.ports.items() if p['enabled']]
    if ids:
        pid = rng.choice(ids)
        typ = st.ports[pid]['type']
        v1 = c12.rand_value(rng, typ)
        ops.append([rng.choice([500, 2000]), 'sv', pid, (not st.ports[pid]['value']) if typ == 'boolean' else (st.ports[pid]['value'] + 1) % 100])
        ops.append([rng.choice([100, 300, 600]), 'sd', 'note2', 'D%d' % rng.randint(0, 99)] if rng.random() < 0.5
                   else [rng.choice([100, 300, 600]), 'sv', pid, (st.ports[pid]['value'] + 7) % 100 if typ != 'boolean' else st.ports[pid]['value']])
    else:
        ops.append([500, 'sd', 'location', 'X'])
        ops.append([300, 'sd', 'location', 'Y'])
    ops.append([0, 'sync'])
    return job


def gen_e2e(rng):
    if rng.random() < 0.1:
        return gen_e2e_push(rng)
    mode = rng.choice(['listen', 'listen', 'poll'])
    st = c12.SimState(rng, rng.randint(1, 3))
    job = {'kind': 'e2e', 'mode': mode, 'poll': rng.choice([1, 2, 3]),
           'flags': ['listen'] + (['webhooks'] if rng.random() < 0.2 else []),
           'lat': [rng.choice([1, 3, 10, 30, 100, 300, 800]) for _ in range(rng.randint(1, 5))],
           'ports': [copy.deepcopy(p) for p in st.ports.values()], 'ops': []}
    ops = job['ops']
    for _ in range(rng.randint(0, 4)):
        keep = copy.deepcopy(st.ports)
        op = c12.gen_slave_op(rng, st)
        if op and op[0] not in ('srm', 'sfull'):      # a queued full-update makes the master fetch before it provisions
            ops.append([rng.choice([0, 50, 400])] + op)
        else:
            st.ports = keep
    for _ep in range(rng.choice([1, 1, 2])):
        ops.append([rng.choice([100, 1000, 3000]), 'down'])
        ops.append([rng.choice([30000, 45000, 70000, 70000, 130000]), 'wait'])
        if rng.random() < 0.15:
            # the master is restarted while device attributes are pending (pending port edits of a listening / polled slave do
            # not survive a restart: notes/C13.md, so only the device is edited in such an outage)
            for k in range(rng.randint(1, 3)):
                ops.append([rng.choice([0, 500])] + rand_edit(rng, st, kinds=('md',)))
            ops.append([500, 'restart'])
            if rng.random() < 0.5:
                ops.append([500, 'md', {'location': 'L%d' % rng.randint(0, 99)}])
            ops.append([rng.choice([500, 3000]), 'up'])
            ops.append([0, 'sync'])
            continue
        protect = set()
        pend = set()                      # keys of what is pending: ('dev', n) / ('port', pid, n) / ('value', pid)
        for _ in range(rng.randint(1, 6)):
            if rng.random() < 0.3:
                keep = copy.deepcopy(st.ports)
                op = c12.gen_slave_op(rng, st, protect=protect)
                if op and op[0] not in ('sfull',) and not (op[0] == 'sa' and op[2] == 'enabled'):
                    ops.append([rng.choice([0, 100, 2000])] + op)
                else:
                    st.ports = keep
            else:
                e = rand_edit(rng, st)
                if e:
                    ops.append([rng.choice([0, 100, 2000])] + e)
                    pend |= edit_keys(e)
                    if e[0] in ('mv', 'ma'):
                        protect.add(e[1])
        # an edit landing inside the reconnect sequence: while the device answers one of its requests
        if rng.random() < 0.5:
            specs = [{'m': 'GET', 'p': '/ports'}, {'m': 'GET', 'p': '/device'}]
            if any(k[0] == 'dev' for k in pend):
                specs += [{'m': 'PATCH', 'p': '/device'}] * 2
            if any(k[0] == 'port' for k in pend):
                specs += [{'m': 'PATCH', 'p': '/ports/[^/]+'}] * 2
            if any(k[0] == 'value' for k in pend):
                specs += [{'m': 'PATCH', 'p': '/ports/[^/]+/value'}]
            e = fresh_edit(rng, st, pend)
            if e:
                ops.append([0, 'at', rng.choice(specs), e])
                pend |= edit_keys(e)
        # one request of the reconnect sequence fails (the slave is otherwise reachable): the others must still get through
        if pend and rng.random() < 0.3 and not (ops and ops[-1][1] == 'at'):      # (not together with an edit in the window)
            pats = ([('PATCH', '/device')] if any(k[0] == 'dev' for k in pend) else []) + \
                   ([('PATCH', '/ports/[^/]+')] if any(k[0] == 'port' for k in pend) else []) + \
                   ([('PATCH', '/ports/[^/]+/value')] * 2 if any(k[0] == 'value' for k in pend)
                    and (mode == 'listen' or FAIL_POLLED_VALUE_PUSH) else [])
            # (polled slave + failed value push: the mirror of that port stayed stale before
            # fixes/C13-failed-value-push-keeps-mirror-stale.diff; generated once its witness is an enabled corpus case)
            m_, p_ = rng.choice(pats or [('PATCH', '/nothing')])
            ops.append([0, 'failreq', {'m': m_, 'p': p_, 'skip': rng.choice([0, 0, 1])}, rng.choice(c12.simslave.FAULTS)])
        ops.append([rng.choice([0, 500, 3000]), 'up'])
        ops.append([0, 'sync'])
        # the slave is online again: further edits (of other items) must each be sent once, and nothing else with them
        if rng.random() < 0.6:
            n = 0
            for _ in range(rng.randint(1, 2)):
                prefer = [k[1] for k in pend if k[0] == 'port' and k[1] in st.ports]
                e = fresh_edit(rng, st, pend, prefer=prefer, kinds=('ma', 'ma', 'md'))
                if e:
                    ops.append([rng.choice([500, 2000])] + e)
                    pend |= edit_keys(e)
                    n += 1
            if n:
                ops.append([500, 'sync'])
    return job


def edit_keys(e):
    if e[0] == 'mv':
        return {('value', e[1])}
    if e[0] == 'ma':
        return {('port', e[1], slave_name(n)) for n in e[2]}
    return {('dev', n) for n in e[1]}


def fresh_edit(rng, st, pend, prefer=(), kinds=('ma', 'ma', 'mv', 'md')):
    """an edit of an item that is not in pend (so that every item is edited once per script phase)"""
    for _ in range(12):
        k = rng.choice(kinds)
        ids = list(prefer) * 3 + list(st.ports)
        if k == 'md':
            n = rng.choice(['location', 'location', 'note'])
            if ('dev', n) not in pend:
                return ['md', {n: 'L%d' % rng.randint(0, 99)}]
        elif k == 'mv' and ids:
            pid = rng.choice(ids)
            p = st.ports[pid]
            if p['writable'] and p['enabled'] and ('value', pid) not in pend:
                return ['mv', pid, c12.rand_value(rng, p['type'])]
        elif ids:
            pid = rng.choice(ids)
            p = st.ports[pid]
            names = ['display_name', 'persisted'] + (['unit'] if p['type'] == 'number' else []) + (['gain'] if 'gain' in p else [])
            names = [n for n in names if ('port', pid, n) not in pend]
            if names:
                n = rng.choice(names)
                v = {'display_name': 'later %d' % rng.randint(0, 99), 'persisted': rng.random() < 0.5,
                     'unit': rng.choice(['kW', 'mA']), 'gain': rng.randint(0, 100)}[n]
                return ['ma', pid, {n: v}]
    return None


def gen_micro(rng):
    poll = rng.random() < 0.35
    st = c12.SimState(rng, rng.randint(1, 3))
    job = {'kind': 'micro', 'poll': poll, 'flags': (['webhooks'] if rng.random() < 0.2 else []) + (['reverse'] if rng.random() < 0.1 else []),
           'ports': [copy.deepcopy(p) for p in st.ports.values()], 'steps': []}
    steps = job['steps']
    und = 0

    def slave_op(protect=()):
        nonlocal und
        keep = copy.deepcopy(st.ports)
        op = c12.gen_slave_op(rng, st, protect=protect)
        if op and op[0] not in ('sfull', 'srm') and not (op[0] == 'sa' and op[2] == 'enabled'):
            steps.append(op)
            und += 1
        else:
            st.ports = keep               # the generator's picture of the device must stay the device's
    for _ in range(rng.randint(0, 4)):
        slave_op()
    if poll:
        steps += [['poll'], ['drop']]
    else:
        steps.append(['deliver', 10 ** 6])
    und = 0
    steps += [['tick'], ['drain']]
    for _ep in range(rng.choice([1, 1, 2])):
        steps.append(['offline'])
        for _ in range(rng.randint(1, 8)):
            r = rng.random()
            if r < 0.25:
                slave_op()
            elif r < 0.35 and und and not poll:
                k = rng.randint(1, und)
                steps.append(['deliver', k])
                und -= k
            elif r < 0.42:
                steps.append(['tick'])
            else:
                e = rand_edit(rng, st)
                if e[0] == 'mv':
                    steps.append(['write_value', e[1], e[2]])
                elif e[0] == 'ma':
                    for n, v in e[2].items():
                        steps.append(['set_attr', e[1], n, v])
                else:
                    steps.append(['patch_device', e[1]])
        if poll:
            steps += [['drop'], ['poll'], ['drop']]
        else:
            if rng.random() < 0.3:
                steps.append(['drop'])               # the listen session expired during the outage
            else:
                steps.append(['deliver', 10 ** 6])   # the first listen answer brings what the device queued
            und = 0
            steps.append(['online'])
            steps.append(['deliver', 10 ** 6])       # what the provisioning requests made the device emit
        steps += [['tick'], ['drain']]
    return job


# ----------------------------------------------------------------------------------------------------------------------
# encoding

def enc_target(pool, path):
    path = path.rstrip('/') or '/'
    if path == '/device':
        return 'TDevice'
    if path == '/ports':
        return 'TPorts'
    if path == '/webhooks':
        return 'TWebhooks'
    if path == '/reverse':
        return 'TReverse'
    m = re.fullmatch(r'/ports/([^/]+)(/value)?', path)
    if m:
        return '(%s %s)' % ('TPortValue' if m.group(2) else 'TPort', pool.s(m.group(1)))
    return None


def enc_body(pool, b):
    if b is None:
        return 'BNone'
    if isinstance(b, dict):
        return '(BAttrs %s)' % pool.attrs(b)
    return '(BVal %s)' % pool.val(b)


def enc_preq(pool, method, path, body):
    t = enc_target(pool, path)
    if t is None:
        return None
    return '(mk_preq %s %s %s)' % (pool.s(method), t, enc_body(pool, body))


def is_value_fetch(method, path):
    return method == 'GET' and re.fullmatch(r'/ports/[^/]+/value/?', path) is not None


def enc_oreqs(pool, attempts):
    """attempts [[method, path, body, refused]] -> Coq list of oreq (the GET .../value of handle_enable left out)"""
    items = [a for a in attempts if not is_value_fetch(a[0], a[1])]
    return coq.lst(items, lambda a: '(%s, %s, %s)' % (pool.s(a[0]), pool.s(a[1].rstrip('/') or '/'), enc_body(pool, a[2])))


def enc_flags(flags):
    return coq.lst([FLAGS[f] for f in flags if f in FLAGS], lambda f: '%d%%Z' % f)


def micro_steps(pool, job, res):
    """[(pstep text, pobs text)]"""
    out = []
    flags = enc_flags(job.get('flags', []))
    for rec in res['steps']:
        k = rec['kind']
        after = '(Some %s)' % c12.enc_obs(pool, rec['after']) if 'after' in rec else 'None'
        if k == 'deliver':
            for item in rec['events']:
                out.append(('(PM (MEv %s %s))' % (c12.enc_event(pool, item), coq.boolean(item['raised'] is not None)),
                            '(Some %s, None)' % c12.enc_obs(pool, item['after'])))
        elif k == 'tick':
            out.append(('(PM MTick)', '(%s, None)' % after))
        elif k == 'fetch':
            out.append(('(PM (MFetch %s))' % c12.enc_ports(pool, rec['ports'], rec.get('auxs')), '(%s, None)' % after))
        elif k == 'poll':
            ports = c12.enc_ports(pool, rec['ports'], rec.get('auxs'))
            if rec.get('was_online'):
                out.append(('(PM (MPoll %s %s))' % (pool.attrs(rec['dev']), ports), '(%s, None)' % after))
            else:
                out.append(('(PPollReconnect %s %s %s)' % (flags, pool.attrs(rec['dev']), ports),
                            '(%s, Some %s)' % (after, enc_oreqs(pool, rec['attempts']))))
        elif k == 'offline':
            out.append(('POffline', '(%s, None)' % after))
        elif k == 'online':
            out.append(('(POnline %s %s %s)' % (flags, pool.attrs(rec['dev']), c12.enc_ports(pool, rec['ports'], rec.get('auxs'))),
                        '(%s, Some %s)' % (after, enc_oreqs(pool, rec['attempts']))))
        elif k == 'set_attr':
            _k, pid, n, v = job_step(job, res, rec)
            if rec.get('raised') == 'no-port':
                continue
            if n in MASTER_ATTRS:
                # BasePort.set_attr runs main.update() once for a loaded port: one iteration of the main loop
                out.append(('(PSetAttr %s %s %s)' % (pool.s(pid), pool.s(n), pool.val(v)), '(None, None)'))
                out.append(('(PM MTick)', '(%s, None)' % after))
            else:
                out.append(('(PSetAttr %s %s %s)' % (pool.s(pid), pool.s(n), pool.val(v)), '(%s, Some [])' % after))
        elif k == 'write_value':
            _k, pid, v = job_step(job, res, rec)
            if rec.get('raised') == 'no-port':
                continue
            out.append(('(PWriteValue %s %s)' % (pool.s(pid), pool.val(v)), '(%s, Some [])' % after))
        elif k == 'patch_device':
            _k, params = job_step(job, res, rec)
            out.append(('(PPatchDevice %s)' % pool.attrs(params), '(%s, Some [])' % after))
        elif k == 'provision':
            out.append(('(PProvision %s)' % flags, '(%s, Some %s)' % (after, enc_oreqs(pool, rec['attempts']))))
    return out


def job_step(job, res, rec):
    return rec['step']


def enc_item(pool, it):
    if it[0] == 'port':
        return '(IPortAttr %s %s %s)' % (pool.s(it[1]), pool.s(it[2]), pool.val(it[3]))
    if it[0] == 'value':
        return '(IPortValue %s %s)' % (pool.s(it[1]), pool.val(it[2]))
    return '(IDevAttr %s %s)' % (pool.s(it[1]), pool.val(it[2]))


# ----------------------------------------------------------------------------------------------------------------------
# specification oracle (Python twin of C13/Spec.v, used while shrinking and for the violation text)

def item_key(it):
    return tuple(it[:-1])


def edit_items(e):
    """items of one successful offline edit"""
    k, a = e['kind'], e['args']
    if k == 'mv':
        return [('value', a[0], a[1])]
    if k == 'ma':
        return [('port', a[0], slave_name(n), v) for n, v in a[1].items() if n not in MASTER_ATTRS]
    return [('dev', n, v) for n, v in a[0].items()]


def is_offline_edit(e):
    return e['result'][0] in ('ok', 'accepted') and not e['online_before'] and not e['online_after']


def targets(it, rq):
    m, path, body = rq
    if m != 'PATCH':
        return False
    if it[0] == 'port':
        return path == '/ports/%s' % it[1] and isinstance(body, dict) and it[2] in body
    if it[0] == 'value':
        return path == '/ports/%s/value' % it[1]
    return path == '/device' and isinstance(body, dict) and it[1] in body


def same(a, b):
    return a == b and type(a) is type(b)


def carries(it, rq):
    if not targets(it, rq):
        return False
    body = rq[2]
    if it[0] == 'port':
        return same(body[it[2]], it[3])
    if it[0] == 'value':
        return same(body, it[2])
    return same(body[it[1]], it[2])


def push_problems(mode_poll, items, received, window=(), online=False):
    """-> list of (kind, detail).  window items: exactly once too, but not bound to precede the refresh; online: no refresh rule"""
    out = []
    ordered = [] if online else list(items)
    items = list(items) + list(window)
    for it in items:
        t = [r for r in received if targets(it, r)]
        c = [r for r in received if carries(it, r)]
        if len(t) != 1 or len(c) != 1:
            out.append(('pushed-once', {'item': list(it), 'requests_about_it': t}))
    refreshed = False
    for r in received:
        if refreshed and any(targets(it, r) for it in ordered):
            out.append(('before-refresh', {'request': r}))
        if r[0] == 'GET' and (r[1] == '/ports' or (not mode_poll and r[1] == '/device')):
            refreshed = True
    for r in received:
        if r[0] != 'PATCH':
            continue
        m = re.fullmatch(r'/ports/([^/]+)(/value)?', r[1])
        if r[1] == '/device' and isinstance(r[2], dict):
            bad = [n for n in r[2] if not any(it[0] == 'dev' and it[1] == n for it in items)]
        elif m and m.group(2):
            bad = [] if any(it[0] == 'value' and it[1] == m.group(1) for it in items) else ['value']
        elif m and isinstance(r[2], dict):
            bad = [n for n in r[2] if not any(it[0] == 'port' and it[1] == m.group(1) and it[2] == n for it in items)]
        else:
            bad = ['?']
        if bad:
            out.append(('spurious', {'request': r, 'names': bad}))
    return out


def _last_items(edits):
    items = {}
    for e in edits:
        for it in edit_items(e):
            items.pop(item_key(it), None)
            items[item_key(it)] = it
    return list(items.values())


def episodes(job, res):
    """per sync: what was edited since the previous sync and what the device received meanwhile.
    kind 'reconnect': edits made while the slave was offline (items) and edits that landed while the reconnect sequence was in
    progress (window: started by an `at` trigger, i.e. while a request of that sequence was in flight);
    kind 'online': only edits made while the slave was online; kind 'mixed': not judged"""
    out = []
    prev_op = -1
    marks = res.get('op_marks', [])
    for k, s in enumerate(res.get('syncs', [])):
        eds = [e for e in res.get('edits', []) if prev_op < e['op'] < s['op']]
        good = [e for e in eds if e['result'][0] in ('ok', 'accepted')]
        window = [e for e in good if e.get('in_flight')]
        off = [e for e in good if not e.get('in_flight') and is_offline_edit(e)]
        onl = [e for e in good if not e.get('in_flight') and e['online_before'] and e['online_after']]
        other = [e for e in good if e not in window and e not in off and e not in onl]
        first = min([e['op'] for e in eds] or [s['op']])
        start = marks[first][0] if first < len(marks) else s['req_index']
        received = [r[1:4] for r in res['requests'][start:s['req_index']] if r[2].rstrip('/') != '/listen']
        received = [[m, p.rstrip('/') or '/', b] for m, p, b in received]
        kind = ('mixed' if other or (onl and (off or window)) else 'online' if onl else 'reconnect')
        items, win = _last_items(off), _last_items(window)
        if {item_key(i) for i in items} & {item_key(i) for i in win}:
            kind = 'mixed'            # the same item edited offline and again during the reconnect: two requests are right
        if kind == 'online':
            items = _last_items(onl)
        # a provisioning request hit by a one-request fault: the code clears the mark and does not retry (stated assumption);
        # what that request carried is not owed any more, everything else is
        lo = marks[first][2] if first < len(marks) else 0
        failed = [f for f in res.get('failed_requests', []) if lo <= f[0] <= s['t']]
        # (api_call may retry a failed request when another call came in between: an item that arrived after all counts as usual)
        lost = [i for i in items + win if any(request_carries_item(f[1:4], i) for f in failed)
                and not any(targets(i, r) for r in received)]
        items = [i for i in items if i not in lost]
        win = [i for i in win if i not in lost]
        out.append({'sync': k, 'kind': kind, 'items': items, 'window': win, 'lost_with_failed_request': lost,
                    'received': received, 'offline_edits': off, 'quiescent': bool(s.get('quiescent', False)),
                    'restarts': [r for r in res.get('restarts', []) if lo <= r['t'] <= s['t']],
                    'clean': kind != 'mixed', 'sync_obs': s})
        prev_op = s['op']
    return out


def request_carries_item(rq, it):
    """rq = [method, path, body] of a request that never reached the device; does it carry item it"""
    m, path, body = rq[0], (rq[1].rstrip('/') or '/'), rq[2]
    return targets(it, [m, path, body])


def pending_problems(e):
    """after an offline edit: are the names reported as pending (GET /ports provisioning attribute, GET /devices)"""
    out = []
    k, a = e['kind'], e['args']
    if k in ('mv', 'ma'):
        pj = next((p for p in e['ports'] if isinstance(p, dict) and p.get('id', '').endswith('.' + a[0])), None) \
            if isinstance(e['ports'], list) else None
        want = ['value'] if k == 'mv' else [slave_name(n) for n in a[1] if n not in MASTER_ATTRS]
        got = (pj or {}).get('provisioning', [])
        if any(n not in got for n in want):
            out.append(('pending-not-reported', {'edit': [k] + a, 'reported': got, 'expected': want}))
        if pj is not None and k == 'ma':
            for n, v in a[1].items():
                if n not in MASTER_ATTRS and not same(pj.get(n), v):
                    out.append(('pending-not-kept', {'edit': [k] + a, 'shown': pj.get(n)}))
        per = (e.get('persisted') or {}).get('ports', {}).get(a[0], {})
        if any(n not in per.get('provisioning', []) for n in want):
            out.append(('pending-not-persisted', {'edit': [k] + a, 'persisted': per.get('provisioning')}))
        if k == 'mv' and not same(per.get('value'), a[1]):
            out.append(('pending-not-kept', {'edit': [k] + a, 'persisted_value': per.get('value')}))
    else:
        got = e['devices'][0].get('provisioning', []) if isinstance(e['devices'], list) and e['devices'] else []
        if any(n not in got for n in a[0]):
            out.append(('pending-not-reported', {'edit': [k] + a, 'reported': got}))
        attrs = e['devices'][0].get('attrs', {}) if isinstance(e['devices'], list) and e['devices'] else {}
        per = (e.get('persisted') or {}).get('slave', {})
        for n, v in a[0].items():
            if n not in per.get('provisioning_attrs', []) or not same((per.get('attrs') or {}).get(n), v):
                out.append(('pending-not-persisted', {'edit': [k] + a, 'persisted': per}))
            if n.endswith('_password'):          # shown masked, kept in clear text (persisted record above)
                v = 'set' if v else ''
            if not same(attrs.get(n), v):
                out.append(('pending-not-kept', {'edit': [k] + a, 'shown': attrs.get(n)}))
    return out


def still_pending(s):
    out = []
    if isinstance(s['master_ports'], list):
        for p in s['master_ports']:
            if p.get('provisioning'):
                out.append((p['id'], p['provisioning']))
    if isinstance(s['master_devices'], list) and s['master_devices'] and s['master_devices'][0].get('provisioning'):
        out.append(('device', s['master_devices'][0]['provisioning']))
    return out


def e2e_problems(job, res):
    out = []
    # (PATCH /devices/<name> listen_enabled probes the device with GET /device itself: only GET /ports counts as refresh then)
    mode_poll = job['mode'] == 'poll' or any(op[1] == 'mp' for op in job['ops'])
    for ep in episodes(job, res):
        n0 = len(out)
        for e in ep['offline_edits']:
            for kind, d in pending_problems(e):
                out.append({'kind': kind, 'detail': d, 'sync': ep['sync']})
        if not ep['clean']:
            continue
        out.extend(_episode_problems(job, mode_poll, ep))
        if not ep['quiescent']:      # 120 s after the reconnect the master is still not idle in its listen / poll loop
            for p in out[n0:]:
                p['stopped'] = True
    return out


def _episode_problems(job, mode_poll, ep):
    out = []
    if True:
        for kind, d in push_problems(mode_poll, ep['items'], ep['received'], ep['window'], online=ep['kind'] == 'online'):
            it = d.get('item') or []
            out.append({'kind': kind, 'detail': d, 'sync': ep['sync'], 'phase': ep['kind'],
                        'item': {'port': 'port-attr', 'value': 'port-value', 'dev': 'device-attr'}.get(it[0] if it else None)})
        sp = still_pending(ep['sync_obs'])
        if sp:
            out.append({'kind': 'still-pending', 'detail': sp, 'sync': ep['sync']})
        for rs in ep['restarts']:        # after a restart of the master the device attributes edited before it are still pending
            want = sorted({n for e in ep['offline_edits'] if e['kind'] == 'md' and e['t'] <= rs['t'] for n in e['args'][0]})
            got = rs['devices'][0].get('provisioning', []) if isinstance(rs['devices'], list) and rs['devices'] else []
            if any(n not in got for n in want):
                out.append({'kind': 'pending-lost-by-restart', 'detail': {'after': 'restart of the master', 'reported': got,
                                                                       'expected': want}, 'sync': ep['sync']})
        for it in list(ep['items']) + list(ep['window']):
            if it[0] == 'dev' and it[1] == 'admin_password':     # the master signs its requests with the new password from now on
                md = ep['sync_obs'].get('master_devices')
                got = md[0].get('admin_password_hash') if isinstance(md, list) and md else None
                if got != hashlib.sha256(it[2].encode()).hexdigest():
                    out.append({'kind': 'rekey', 'detail': {'item': list(it), 'admin_password_hash_of_master': got},
                                'sync': ep['sync'], 'item': 'device-attr'})
        vp = c12.view_problems('dev1', ep['sync_obs']['master_ports'], ep['sync_obs']['slave_ports'])
        if vp:
            out.append({'kind': 'view', 'detail': vp, 'sync': ep['sync']})
    return out


def spec_cases(pool, job, res):
    """Coq pscases: [(text, descr)]"""
    out = []
    # (PATCH /devices/<name> listen_enabled probes the device with GET /device itself: only GET /ports counts as refresh then)
    mode_poll = job['mode'] == 'poll' or any(op[1] == 'mp' for op in job['ops'])
    for ep in episodes(job, res):
        for e in ep['offline_edits']:
            k, a = e['kind'], e['args']
            if k in ('mv', 'ma'):
                pj = next((p for p in e['ports'] if p.get('id', '').endswith('.' + a[0])), None) if isinstance(e['ports'], list) else None
                want = ['value'] if k == 'mv' else [slave_name(n) for n in a[1] if n not in MASTER_ATTRS]
                got = (pj or {}).get('provisioning', [])
            else:
                want = list(a[0])
                got = e['devices'][0].get('provisioning', []) if isinstance(e['devices'], list) and e['devices'] else []
            out.append(('(SPending %s %s)' % (coq.lst(got, pool.s), coq.lst(want, pool.s)), ('pending', e['op'])))
        if not ep['clean']:
            continue
        reqs = [enc_preq(pool, *r) for r in ep['received']]
        reqs = [r for r in reqs if r is not None]
        enc = lambda its: coq.lst(its, lambda it: enc_item(pool, it))          # noqa: E731
        if ep['kind'] == 'online':
            out.append(('(SOnline %s %s)' % (enc(ep['items']), coq.lst(reqs)), ('push', ep['sync'])))
        elif ep['window']:
            out.append(('(SPush2 %s %s %s %s)' % (coq.boolean(mode_poll), enc(ep['items']), enc(ep['window']), coq.lst(reqs)),
                        ('push', ep['sync'])))
        else:
            out.append(('(SPush %s %s %s)' % (coq.boolean(mode_poll), enc(ep['items']), coq.lst(reqs)), ('push', ep['sync'])))
        sp = [n for _i, l in still_pending(ep['sync_obs']) for n in l]
        out.append(('(SNothingPending %s)' % coq.lst(sp, pool.s), ('after', ep['sync'])))
    return out


# ----------------------------------------------------------------------------------------------------------------------
# batches

def run_micro_batch(ctx, res, jobs, label, tags):
    results = c12.run_worker(jobs)
    dist = res['distribution']
    cases = []
    for j, (job, r) in enumerate(zip(jobs, results)):
        res['evaluations'] += 1
        dist['micro_scripts'] = dist.get('micro_scripts', 0) + 1
        if r.get('crashed') or 'init' not in r:
            res['tie_failures'].append({'note': 'micro run failed', 'errors': r.get('errors', [])[:2], 'source': tags[j]})
            continue
        for e in r.get('errors', [])[:2]:
            res['tie_failures'].append({'note': 'micro step raised in the harness: ' + e[-400:], 'source': tags[j]})
        cases.append((job, r, tags[j]))
        for rec in r['steps']:
            k = 'micro:' + rec['kind']
            dist[k] = dist.get(k, 0) + 1
            if rec['kind'] in ('online', 'poll', 'provision'):
                for a in rec.get('attempts', []):
                    if a[0] == 'PATCH':
                        kk = 'provisioning_request:' + ('value' if a[1].endswith('/value') else 'device' if a[1] == '/device' else 'port') \
                            + (':refused-by-client' if a[3] else '')
                        dist[kk] = dist.get(kk, 0) + 1
    shards, spans = [], []
    for i in range(0, len(cases), 50):
        pool = c12.Pool()
        chunk = cases[i:i + 50]
        texts = []
        for job, r, _t in chunk:
            steps = micro_steps(pool, job, r)
            texts.append('(%s, %s)' % (c12.enc_obs(pool, r['init']), coq.lst(steps, lambda s: '(%s, %s)' % s)))
        shards.append((pool, 'Definition cases : list pcase := [\n %s].\n' % ';\n '.join(texts)))
        spans.append((i, len(chunk)))
    out = c12.eval_coq(ctx, 'c13micro' + label, HEADER, shards, ['bad_model cases', 'bad_steps cases'])
    for (rc, lists, err), (off, n) in zip(out, spans):
        if rc != 0 or len(lists) != 2 or len(lists[1]) != n:
            res['tie_failures'].append('coqc failed on a micro shard: %s' % err[-700:])
            continue
        for j in lists[0]:
            job, r, tag = cases[off + j]
            res['tie_failures'].append({'note': 'model (with the translated configuration) differs from implementation: mirror '
                                                'state or requests built after a step', 'first_bad_model_step': lists[1][j] - 1,
                                        'script': job['steps'], 'poll': job['poll'], 'source': tag})
            dist['model_mismatches'] = dist.get('model_mismatches', 0) + 1
    res['distinct_nontrivial'] += sum(1 for job, r, _t in cases
                                      if any(rec['kind'] in ('online', 'poll') and any(a[0] == 'PATCH' for a in rec.get('attempts', []))
                                             for rec in r['steps']))


WHAT = {
    'pushed-once': 'an item changed while the slave was offline did not reach the slave exactly once with the value the user set',
    'before-refresh': 'a provisioning request was sent after the master refreshed its mirror',
    'spurious': 'the slave was sent an attribute / value the user did not change',
    'pending-not-reported': 'an offline edit is not reported as pending',
    'pending-not-kept': 'the value of an offline edit is not kept on the master',
    'pending-not-persisted': 'the pending mark of an offline edit is not persisted',
    'still-pending': 'something is still reported as pending after the reconnect',
    'view': 'after the reconnect the master\'s ports differ from the device',
    'pending-lost-by-restart': 'device attributes edited offline are no longer reported as pending after a restart of the master',
    'rekey': 'after pushing a new admin password the master does not sign its requests to the slave with it',
}


def run_e2e_batch(ctx, res, jobs, label, tags, max_reports=4):
    results = c12.run_worker(jobs)
    dist = res['distribution']
    pool = c12.Pool()
    texts, owners = [], []
    for j, (job, r) in enumerate(zip(jobs, results)):
        res['evaluations'] += 1
        dist['e2e_scripts'] = dist.get('e2e_scripts', 0) + 1
        dist['mode:' + job['mode']] = dist.get('mode:' + job['mode'], 0) + 1
        if r.get('crashed') or 'syncs' not in r:
            res['tie_failures'].append({'note': 'e2e run failed', 'errors': r.get('errors', [])[:2], 'source': tags[j]})
            continue
        for e in r.get('errors', [])[:2]:
            res['tie_failures'].append({'note': 'e2e harness problem: ' + e[-400:], 'script': c12.describe(job), 'source': tags[j]})
        for s in r['syncs']:
            if not s.get('quiescent') and not e2e_problems(job, r):
                res['tie_failures'].append({'note': 'no quiescent state within 120 virtual seconds at a sync point',
                                            'script': c12.describe(job), 'source': tags[j]})
        for op in job['ops']:
            dist['op:' + op[1]] = dist.get('op:' + op[1], 0) + 1
        for e in r.get('edits', []):
            kk = 'edit:%s:%s' % (e['kind'], 'offline' if is_offline_edit(e) else e['result'][0] if e['result'][0] == 'error' else 'online')
            dist[kk] = dist.get(kk, 0) + 1
        dist['virtual_seconds'] = dist.get('virtual_seconds', 0) + r.get('vtime_ms', 0) // 1000
        dist['requests_refused_by_http_client'] = dist.get('requests_refused_by_http_client', 0) + len(r.get('refused_by_client', []))
        eps = episodes(job, r)
        dist['episodes_with_pending_items'] = dist.get('episodes_with_pending_items', 0) + sum(1 for e in eps if e['items'] and e['clean'])
        if any(e['items'] and e['clean'] for e in eps):
            res['distinct_nontrivial'] += 1
        for text, d in spec_cases(pool, job, r):
            texts.append(text)
            owners.append((j, d))
        if len(res['samples']) < 8 and len(job['ops']) <= 9:
            res['samples'].append({'e2e_script': c12.describe(job),
                                   'pending_items': [e['items'] for e in eps],
                                   'received_after_reconnect': [[x for x in e['received'] if x[0] != 'GET'] for e in eps]})
    kinds = {}
    for i in range(0, len(texts), 400):
        body = 'Definition cases : list pscase := [\n %s].\n' % ';\n '.join(texts[i:i + 400])
        out = c12.eval_coq(ctx, 'c13e2e%s_%d' % (label, i), HEADER, [(pool, body)], ['spec_kinds cases'])
        rc, lists, err = out[0]
        if rc != 0 or len(lists) != 1 or len(lists[0]) != len(texts[i:i + 400]):
            res['tie_failures'].append('coqc failed on an e2e shard: %s' % err[-700:])
            continue
        for k, v in enumerate(lists[0]):
            if v:
                kinds.setdefault(owners[i + k][0], []).append(v)
    dist['spec_contradictions'] = dist.get('spec_contradictions', 0) + len(kinds)
    coq_names = {1: 'pushed-once', 2: 'before-refresh', 3: 'spurious', 4: 'pending-not-reported', 5: 'still-pending'}
    failing = {}
    for j, (job, r) in enumerate(zip(jobs, results)):
        if 'syncs' not in r:
            continue
        probs = e2e_problems(job, r)
        py = {p['kind'] for p in probs if p['kind'] in coq_names.values()}
        cq = {coq_names[v] for v in kinds.get(j, [])}
        # the Coq oracle reports the first failing clause per episode, the Python one all of them
        if bool(py) != bool(cq) or not cq <= py:
            res['tie_failures'].append({'note': 'the Coq and the Python specification oracle disagree', 'python': sorted(py),
                                        'coq': sorted(cq), 'script': c12.describe(job)})
        if probs:
            failing[j] = probs
    reported = {v['key']['kind'] + str(v['key'].get('item')) for v in res['violations']}
    for j in sorted(failing, key=lambda j: len(jobs[j]['ops'])):
        if len([v for v in res['violations']]) >= max_reports:
            break
        job = jobs[j]
        p0 = failing[j][0]
        tag = p0['kind'] + str(p0.get('item'))
        if tag in reported:
            continue
        reported.add(tag)

        def nreq(p):         # how many requests about the item reached the slave: none / one (wrong value) / several
            n = len((p.get('detail') or {}).get('requests_about_it') or []) if p['kind'] == 'pushed-once' else -1
            return min(n, 2)

        def still(js, p0=p0):
            rs = c12.run_worker(js)
            return [any(p['kind'] == p0['kind'] and p.get('item') == p0.get('item') and nreq(p) == nreq(p0)
                        for p in e2e_problems(jj, rr))
                    if 'syncs' in rr else False for jj, rr in zip(js, rs)]
        small = c12.shrink_e2e(job, still)
        rr = c12.run_worker([small])[0]
        probs = [p for p in e2e_problems(small, rr) if p['kind'] == p0['kind'] and p.get('item') == p0.get('item')
                 and nreq(p) == nreq(p0)] or [p0]
        p1 = probs[0]
        eps = episodes(small, rr) if 'syncs' in rr else []
        key = {'kind': p1['kind'], 'item': p1.get('item'), 'mode': small['mode']}
        if p1.get('phase') and p1['phase'] != 'reconnect':
            key['phase'] = p1['phase']
        if p1.get('stopped'):
            key['cause'] = 'master-stopped-synchronising'
        if p1['kind'] == 'pushed-once' and any(e.get('in_flight') for e in rr.get('edits', [])) and \
                any(item_key(tuple(p1['detail'].get('item') or ())) == item_key(i) for ep in (episodes(small, rr) if 'syncs' in rr else [])
                    for i in ep['window']):
            key['phase'] = 'during-reconnect'
        if p1['kind'] == 'pushed-once':
            rq = p1['detail'].get('requests_about_it') or []
            key['cause'] = ('request-refused-by-http-client' if not rq and any(
                x[2].rstrip('/').endswith('/value') for x in rr.get('refused_by_client', [])) and p1.get('item') == 'port-value'
                else 'no-request' if not rq else 'other-value-sent' if len(rq) == 1 else 'several-requests')
        res['violations'].append({
            'key': key,
            'what': '%s: %s ; script: %s' % (WHAT.get(p1['kind'], p1['kind']), json.dumps(p1['detail'])[:500], c12.describe(small)),
            'case': small, 'expected': {'items_pushed_exactly_once_before_refresh': [e['items'] for e in eps]},
            'observed': {'received_by_the_slave': [e['received'] for e in eps],
                         'refused_by_http_client': rr.get('refused_by_client'), 'source': tags[j],
                         'original_ops': len(job['ops'])}})


def check(ctx, res):
    res['rule'] = (
        'e2e: 1-2 outages of 30-130 s per script (listen or poll mode, 1-5 cyclic latencies of 1-800 ms, 1-4 ports); during an '
        'outage 1-6 steps: edits through patch_port_value / patch_port (1-2 attributes among display_name, unit, gain, '
        'device_expression, persisted, tag) / PATCH /device, and device-side changes queued in the listen session; then '
        'reconnect and sync. micro: the same through direct calls on the real objects with the events of the first listen '
        'answer delivered before _handle_online. non-trivial = at least one reconnect with a pending item')
    cfg = getattr(ctx, 'c13_cfg', None)
    res['extra']['source_configuration'] = cfg
    if ctx.replay:
        with open(ctx.replay) as f:
            d = json.load(f)
        job = d.get('case', d)
        (run_e2e_batch if job.get('kind') == 'e2e' else run_micro_batch)(ctx, res, [job], 'replay', ['replay'])
        return
    corpus = c12.load_corpus(ID)
    for kind, fn in (('e2e', run_e2e_batch), ('micro', run_micro_batch)):
        js = [(j, t) for j, t in corpus if j['kind'] == kind]
        if js:
            fn(ctx, res, [j for j, _ in js], 'corpus', [t for _, t in js])
    n_e2e = ctx.n(120, 5000)
    n_micro = ctx.n(240, 6000)
    done = 0
    while done < n_micro:
        k = min(600, n_micro - done)
        run_micro_batch(ctx, res, [gen_micro(ctx.rng) for _ in range(k)], 'r%d' % done, ['random'] * k)
        done += k
    done = 0
    while done < n_e2e:
        k = min(400, n_e2e - done)
        run_e2e_batch(ctx, res, [gen_e2e(ctx.rng) for _ in range(k)], 'r%d' % done, ['random'] * k)
        done += k
        if res['violations'] and done >= 120:
            break


def search(ctx, res):
    n = ctx.n(480, 5000)
    done = 0
    while done < n and not res['violations']:
        run_e2e_batch(ctx, res, [gen_e2e(ctx.rng) for _ in range(240)], 's%d' % done, ['search'] * 240)
        done += 240


REPLAY_HELP = ('bin/check C13 --replay <this file>   (case = a job of harness/props/c12_worker.py: '
               'echo "[<case>]" | PYTHONPATH=/verif:/repo /venv/bin/python -m harness.props.c12_worker ; ops are '
               '[wait ms, op, args]: down/up switch the network of the simulated slave, mv / ma / md are PATCH /ports/<id>/value, '
               'PATCH /ports/<id>, PATCH /devices/<name>/forward/device on the master, sv/sa/... mutate the device, sync waits '
               'for quiescence; "requests" in the output is what the device received)')

LEVEL_TEXT = (
    'Coq theorems over a model of provisioning (offline set_attr / write_value / intercepted PATCH /device, the guards of the '
    'event handlers, apply_provisioning with the requests as built - method, target, body -, _handle_online / the polled '
    'reconnect, persistence of the sets) instantiated with the configuration the translator reads from the source: offline '
    'edits are recorded and shown with the user\'s value (C13_pending_reported); no event the slave reports and no main-loop '
    'iteration (with an empty queue) changes a pending attribute, value or device attribute (C13_pending_not_overwritten, '
    'C13_pending_value_not_overwritten_partial, C13_pending_device_attr_not_overwritten, C13_tick_keeps_pending_value); '
    'on reconnect the requests that reach the slave contain exactly one request per pending item, carrying the cached = '
    'user\'s value, all before the refresh, and nothing else (C13_pushed_once_with_user_value, C13_pushed_before_refresh_listen / '
    '_poll); afterwards nothing is pending (C13_nothing_pending_after). Composed over a whole offline episode: for every interleaving of offline edits, remote events and main-loop '
    'iterations the last value given to every item is what is pending at the end and is sent exactly once '
    '(C13_episode_keeps_last_edits, C13_episode_pushed_once). ' 'The refutations of the same '
    'statements for the code as found are in History/C13Old.v. Model vs real objects: step-by-step correspondence; real '
    'master vs specification: end-to-end runs with outages on a virtual clock.')
LEVEL_NOTE = (
    'Trusted: Coq kernel incl. vm_compute; translator slavesync.py; simslave (keeps tornado\'s body check); the correspondence '
    'harness; HTTP transport, retries and the loops\' online/offline bookkeeping are exercised end to end only. A failing '
    'provisioning request is not retried by the code (pending mark cleared): the theorems speak about the requests issued. '
    'Webhooks / reverse parameter provisioning and a master restart while pending are outside. No axioms.')
TECHNIQUE = ('Coq proof over a hand-written model parameterised by a configuration regenerated from the source by an ast '
             'translator (positive theorems proved for the repaired configuration, refutations for the found one), tied by '
             'step-by-step state and request correspondence under vm_compute; specification oracle on end-to-end outage runs '
             'on a deterministic virtual-clock asyncio loop')
