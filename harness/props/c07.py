"""C07 — configuration and persisted values survive a restart unchanged.

Theorems: coq/theories/Props/C07.v (port / device / slave round trips, persisted value written once, field order of the
stored record irrelevant, deleted things stay deleted over arbitrary add/edit/remove histories).
Tie + oracle: random API histories through the REAL API functions in a worker process (harness/props/c07_worker.py):
POST/PATCH/DELETE /ports, PATCH /ports/x/value, PATCH /device incl. passwords, POST/PATCH/DELETE /devices against a fake
HTTP client (permanently offline and polled devices), offline edits through /devices/x/forward -> the real save loop ->
shutdown in the order of startup.cleanup() + clearing the module globals -> boot from the same store in the order of
startup.init().  Spec oracle (python, black box): GET /ports, GET /device, GET /devices identical before / after except
the volatile fields listed in VOLATILE_*; every persisted port's driver received exactly one write, of coerce(twrite(last
value)); non-persisted ports none; deleted ids absent from the API and from the store.  Model tie (vm_compute): the Coq
model's prepare_for_save / load_from_data / device / slave / restart predictions against the real store records and the
real post-restart state.
"""
import glob
import json
import os
import re
import subprocess
import sys
import time as _time

from harness.common import coq
from harness.common import repo
from harness.translate import functable

ID = 'C07'
PROPS = 'theories/Props/C07.v'
MODEL_TARGETS = ['theories/C07/Run.vo']
TRANSLATORS = [functable.translate]
TIE = ('correspondence by vm_compute: Coq prepare_for_save / load_from_data / device / slave entry / restart against the '
       'records the real code stored and the state the real code came back with, on generated API histories')
ALLOWED_AXIOMS = []
TRUSTED_BASE = [
    'correspondence harness harness/props/c07.py + c07_worker.py: API functions called with a stand-in request handler '
    '(admin level); boot/shutdown re-enact startup.init()/cleanup() and clear the module globals a process exit clears '
    '(cross-checked in the thorough tier by a real second process on the file-backed store); virtual clock '
    '(harness/common/vloop.py); fake tornado AsyncHTTPClient answering for simulated devices',
    'statically configured ports are a harness subclass of core.ports.Port with additional attributes of every storage '
    'style (_attr fields, attr_get_value/attr_set_value, persisted: False, non-modifiable); driver writes are recorded in '
    'its write_value and in a wrapper around VirtualPort.write_value',
    'the persistence driver is the real JSONDriver (in memory, and file-backed with a new driver object per boot) with '
    'is_samples_supported() switchable so that the history attributes exist; C06 covers the drivers themselves',
    'harness/translate/functable.py (function registry for the C03 parser used as the text canonicaliser)',
    'modelled, not verified: expression evaluation (write transforms restricted to MUL($, k) / ADD($, k) in the tie), '
    'jsonschema validation of requests (only accepted requests reach the model), Python dict order, hashlib.sha256',
]
ASSUMPTIONS = [
    'time-derived attributes are not compared across the restart: uptime, date (device and cached slave attributes), last_sync of '
    'slave devices, last_sync of ports of devices that are polled again (only: a number, not earlier than before), online; '
    'a restart happens after the save loop has flushed (persist_interval): ports marked by save_asap() less than '
    'persist_interval before a shutdown are not saved by cleanup() (see notes: observation O2)',
    'attributes whose definition says persisted: False, the read-only runtime attributes (online, last_sync, uptime, date, '
    'cpu/mem usage) and pending_value are volatile; values of ports with an expression or a transform are compared right '
    'after loading, not after the first poll',
    'a fresh port driver reads "no value" (virtual ports, harness ports)',
    'simulated devices: permanently offline ones are reachable only while being added; polled ones are reachable throughout',
]

VOLATILE_PORT = {'pending_value', 'online', 'value', 'definitions'}
VOLATILE_DEVICE = {'uptime', 'date', 'cpu_usage', 'mem_usage', 'storage_usage', 'temperature', 'battery_level', 'definitions'}
VOLATILE_SLAVE = {'online', 'last_sync'}
VOLATILE_SLAVE_ATTRS = {'uptime', 'date'}
EXPR_ATTRS = ('expression', 'transform_read', 'transform_write')

SPECIAL_STRINGS = ['', 'x', 'Kitchen lamp', 'a"b', 'back\\slash', 'tab\there', 'new\nline', 'üñî€', '{"__t":"__d"}',
                   ' lead', "quo'te", '\\"', '\x7f', '\\u0041', '$v1', '%s %d', '\\']
EXPRESSIONS = ['', '$v1', 'ADD($v1, 1)', 'GT($v2, $h1)', 'AND($v3, NOT($v2))', 'IF($v2, 1, 0)', 'MUL($, 1)', '$v4', 'ADD( $h1,2 )',
               '  MIN($v1,$v2,  3)', '$slv1.p1', 'true', '15', 'SUB($h3, 0.5)', 'BOGUS($v1)', 'ADD($v1', 'ADD(1)']
TRANSFORMS = ['', 'MUL($, 2)', 'ADD($, 1)', 'MUL($, 1)', 'ADD($, 0)', 'MUL($,3)', 'ADD($v1, 1)', 'NOPE(']
VPORT_IDS = ['v1', 'v2', 'v3', 'v4']
# local virtual ports whose id starts with a slave's name and a dot (dots are legal in port ids): they belong to the hub, not to
# the slave — a slave owns SlavePort objects / records of collection slave_ports only
DOTTED_VPORT_IDS = ['slv1.override', 'slv2.door']


def is_slave_id(pid):
    return '.' in pid and pid not in DOTTED_VPORT_IDS

STATIC = [
    {'port_id': 'h1', 'type_': 'number', 'writable': True},
    {'port_id': 'h2', 'type_': 'boolean', 'writable': True},
    {'port_id': 'h3', 'type_': 'number', 'writable': False, 'integer': True},
]
SIM_PORT = {'type': 'number', 'writable': True, 'enabled': True, 'display_name': '', 'unit': '', 'expression': '', 'transform_read': '',
            'transform_write': '', 'persisted': False, 'internal': False, 'tag': ''}
SIMS = [
    {'host': 'dev1', 'port': 8081, 'poll': False,
     'attrs': {'name': 'slv1', 'display_name': 'S 1', 'version': '1', 'api_version': '1.0', 'vendor': 'x', 'flags': ['expressions'],
               'uptime': 5, 'date': 1},
     'ports': [dict(SIM_PORT, id='p1', value=3), dict(SIM_PORT, id='p2', type='boolean', value=False, writable=False),
               dict(SIM_PORT, id='floor1.lamp', value=1)]},        # remote ids may contain dots (ports of a device that is a master)
    {'host': 'dev2', 'port': 8082, 'poll': True,
     'attrs': {'name': 'slv2', 'display_name': '', 'version': '1', 'api_version': '1.0', 'vendor': 'x', 'flags': ['expressions'],
               'uptime': 5, 'date': 1},
     'ports': [dict(SIM_PORT, id='q1', value=10), dict(SIM_PORT, id='slv1.p1', value=4)]},
]


# ----------------------------------------------------------------------------------------------------------------
# generation

def gen_vport(rng, pid):
    op = {'op': 'add_vport', 'id': pid, 'type': rng.choice(['number', 'number', 'boolean'])}
    if op['type'] == 'number':
        r = rng.random()
        if r < 0.3:
            op['min'], op['max'] = rng.choice([(0, 100), (-10, 10), (0, 1)])
            if rng.random() < 0.5:
                op['integer'] = True
            if rng.random() < 0.4:
                op['step'] = rng.choice([1, 2, 5])
        elif r < 0.45:
            op['choices'] = [{'value': 1, 'display_name': 'One'}, {'value': 2, 'display_name': 'T"wo'}, {'value': 5}]
        elif r < 0.6:
            op['integer'] = True
    return op


def gen_value(rng, pid):
    if pid in ('v2', 'h2') and rng.random() < 0.8:
        return rng.choice([True, False])
    return rng.choice([0, 1, 2, 3, 5, 7, 10, -4, 2.5, 0.25, 50, True])


def gen_port_attrs(rng, pid, history):
    names = ['display_name', 'unit', 'tag', 'enabled', 'persisted', 'internal', 'expression', 'transform_read', 'transform_write']
    if history or rng.random() < 0.1:
        names += ['history_interval', 'history_retention']
    if pid.startswith('h'):
        names += ['gain', 'label', 'mode', 'flag', 'calib']
    if is_slave_id(pid):
        names = ['tag', 'expression', 'expires', 'display_name', 'unit', 'enabled', 'persisted', 'device_expression'] + (
            ['history_interval'] if history else [])
    if rng.random() < 0.05:
        names += ['type', 'bogus', 'info', 'id']
    attrs = {}
    for n in rng.sample(names, min(len(names), rng.choice([1, 1, 2, 2, 3, 4]))):
        if n in ('display_name', 'label'):
            attrs[n] = rng.choice(SPECIAL_STRINGS)
        elif n == 'unit':
            attrs[n] = rng.choice(['', 'C', '%', '°C', 'k"W', 'm\\s'])
        elif n == 'tag':
            attrs[n] = rng.choice(SPECIAL_STRINGS)
        elif n in ('enabled', 'internal', 'flag'):
            attrs[n] = rng.random() < 0.6
        elif n == 'persisted':
            attrs[n] = rng.random() < 0.75
        elif n in ('expression', 'device_expression'):
            attrs[n] = rng.choice(EXPRESSIONS)
        elif n in ('transform_read', 'transform_write'):
            attrs[n] = rng.choice(TRANSFORMS)
        elif n == 'history_interval':
            attrs[n] = rng.choice([-1, 0, 1, 5, 3600])
        elif n == 'history_retention':
            attrs[n] = rng.choice([0, 60, 86400])
        elif n == 'gain':
            attrs[n] = rng.choice([0, 1, -3, 2.5, 100, 1000])
        elif n == 'mode':
            attrs[n] = rng.choice(['a', 'b', 'c'])
        elif n == 'calib':
            attrs[n] = rng.choice([0, 3, 4.5])
        elif n == 'expires':
            attrs[n] = rng.choice([0, 10, 3600])
        else:
            attrs[n] = rng.choice(['x', 1, True])
    return attrs


def gen_case(rng, idx):
    history = rng.random() < 0.5
    with_slaves = rng.random() < 0.45
    ops = []
    port_ids = ['h1', 'h2', 'h3'] + VPORT_IDS
    if with_slaves:
        port_ids += ['slv1.p1', 'slv1.p2', 'slv2.q1', 'slv1.floor1.lamp', 'slv2.slv1.p1']
    # most histories start by creating something to edit
    for pid in rng.sample(VPORT_IDS, rng.choice([1, 2, 2, 3])):
        ops.append(gen_vport(rng, pid))
    if with_slaves and rng.random() < 0.5:
        # a local virtual port named like a port of a slave: it must survive whatever happens to that slave
        pid = rng.choice(DOTTED_VPORT_IDS)
        port_ids.append(pid)
        ops.append(gen_vport(rng, pid))
        ops.append({'op': 'patch_port', 'id': pid, 'attrs': {'display_name': rng.choice(SPECIAL_STRINGS), 'persisted': True}})
    created = [o for o in ops if o['op'] == 'add_vport']
    if rng.random() < 0.6:
        # a persisted port with a value (and often a write transform)
        o = rng.choice(created)
        ops.append({'op': 'patch_port', 'id': o['id'], 'attrs': {'persisted': True, 'transform_write': rng.choice(['', 'MUL($, 2)', 'ADD($, 1)', 'MUL($, 1)'])}})
        if rng.random() < 0.3:
            ops[-1]['attrs']['internal'] = True        # persisted and internal are independent: the value is saved all the same
        if o['type'] == 'boolean':
            v = rng.random() < 0.5
        elif o.get('choices'):
            v = rng.choice([1, 2, 5])
        elif 'min' in o:
            v = o['min'] if rng.random() < 0.5 else o['max']
        else:
            v = rng.choice([0, 1, 3, 7, -4]) if o.get('integer') else rng.choice([0, 1, 2.5, 7, -4, 0.25])
        ops.append({'op': 'write', 'id': o['id'], 'value': v})
        # the next value's first save fails once (transient storage error); the save loop has to retry it
        if o['type'] == 'boolean':
            v2 = not v
        elif o.get('choices'):
            v2 = rng.choice([x for x in (1, 2, 5) if x != v])
        elif 'min' in o:
            v2 = o['max'] if v == o['min'] else o['min']
        else:
            v2 = v + 1
        fault = {'op': 'write_save_fault', 'id': o['id'], 'value': v2}
        if rng.random() < 0.3:
            ops.append(dict(fault))
    else:
        fault = None
    if with_slaves:
        for sim in rng.sample(SIMS, rng.choice([1, 1, 2])):
            ops.append({'op': 'add_slave', 'scheme': 'http', 'host': sim['host'], 'port': sim['port'], 'path': '/',
                        'admin_password': rng.choice(['', 'pw', 'p"w\\']),
                        'poll_interval': 2 if sim['poll'] else 0, 'listen_enabled': None if sim['poll'] else False})
    for _ in range(rng.randint(3, 14)):
        r = rng.random()
        if r < 0.36:
            pid = rng.choice(port_ids)
            ops.append({'op': 'patch_port', 'id': pid, 'attrs': gen_port_attrs(rng, pid, history)})
        elif r < 0.52:
            pid = rng.choice(port_ids)
            ops.append({'op': 'write', 'id': pid, 'value': gen_value(rng, pid)})
        elif r < 0.60:
            ops.append(gen_vport(rng, rng.choice(VPORT_IDS)))
        elif r < 0.68:
            ops.append({'op': 'del_port', 'id': rng.choice(VPORT_IDS + (['h1'] if rng.random() < 0.1 else []))})
        elif r < 0.80:
            attrs = {}
            for n in rng.sample(['name', 'display_name', 'admin_password', 'normal_password', 'viewonly_password'], rng.choice([1, 1, 2, 3])):
                if n == 'name':
                    attrs[n] = rng.choice(['hub', 'my-hub_2', 'q', '9bad', 'with space'])
                elif n == 'display_name':
                    attrs[n] = rng.choice(SPECIAL_STRINGS)
                else:
                    attrs[n] = rng.choice(['', '', 'secret', 'p"w\\', 'ü', 'e3b0c44298fc1c149afbf4c8996fb92427ae41e4649b934ca495991b7852b855'])
            if rng.random() < 0.04:
                attrs['uptime'] = 3
            ops.append({'op': 'patch_device', 'attrs': attrs})
        elif r < 0.86 and history:
            ops.append({'op': 'sample', 'id': rng.choice(port_ids), 'timestamp': 1_700_000_000_000 + rng.randrange(0, 10 ** 6)})
        elif with_slaves:
            name = rng.choice(['slv1', 'slv2'])
            x = rng.random()
            if x < 0.35:
                body = {}
                for n in rng.sample(['display_name', 'admin_password', 'custom'], rng.choice([1, 2])):     # renaming a device: C12
                    body[n] = rng.choice(SPECIAL_STRINGS[:10])
                ops.append({'op': 'forward', 'name': name, 'method': 'PATCH', 'path': '/device', 'body': body})
            elif x < 0.5:
                ops.append({'op': 'forward', 'name': name, 'method': 'PATCH', 'path': rng.choice(['/webhooks', '/reverse']),
                            'body': {'enabled': rng.random() < 0.5, 'host': rng.choice(['h', 'a"b']), 'port': 80, 'path': '/x'}})
            elif x < 0.56:
                # disable, then delete (the ports of a disabled slave are unloaded; their records must go too), often followed by
                # adding the same device again after it lost a port
                sim = SIMS[0] if name == 'slv1' else SIMS[1]
                ops.append({'op': 'patch_slave', 'name': name, 'attrs': {'enabled': False}})
                ops.append({'op': 'del_slave', 'name': name})
                if rng.random() < 0.6:
                    ops.append({'op': 'sim_drop_port', 'name': name, 'id': rng.choice([p['id'] for p in sim['ports']])})
                    ops.append({'op': 'add_slave', 'scheme': 'http', 'host': sim['host'], 'port': sim['port'], 'path': '/',
                                'admin_password': 'pw', 'poll_interval': 0, 'listen_enabled': False})
            elif x < 0.66:
                # a PATCH of which one attribute is refused after others were applied: listening together with polling,
                # or listening asked from a device without listen support / that does not answer
                if rng.random() < 0.5:
                    ops.append({'op': 'patch_slave', 'name': name, 'attrs': {'enabled': rng.random() < 0.5}})
                attrs = rng.choice([
                    {'enabled': True, 'poll_interval': 30, 'listen_enabled': True},
                    {'enabled': False, 'poll_interval': 30, 'listen_enabled': True},
                    {'enabled': True, 'listen_enabled': True},
                    {'poll_interval': 0, 'listen_enabled': True},
                    {'enabled': True, 'poll_interval': 0, 'listen_enabled': True},
                ])
                ops.append({'op': 'patch_slave', 'name': name, 'attrs': dict(attrs)})
            elif x < 0.82:
                attrs = {}
                for n in rng.sample(['enabled', 'poll_interval', 'listen_enabled'], rng.choice([1, 1, 2])):
                    attrs[n] = {'enabled': rng.random() < 0.5, 'poll_interval': rng.choice([0, 2, 2, 30]),
                                'listen_enabled': rng.random() < 0.3}[n]
                ops.append({'op': 'patch_slave', 'name': name, 'attrs': attrs})
            elif x < 0.9:
                ops.append({'op': 'del_slave', 'name': name})
            else:
                sim = SIMS[0] if name == 'slv1' else SIMS[1]
                ops.append({'op': 'add_slave', 'scheme': 'http', 'host': sim['host'], 'port': sim['port'], 'path': '/',
                            'admin_password': 'pw', 'poll_interval': 2 if sim['poll'] else 0,
                            'listen_enabled': None if sim['poll'] else False})
        else:
            ops.append({'op': 'sleep', 's': rng.choice([0.1, 1.0, 2.5])})
    if fault is not None and rng.random() < 0.25:
        ops.append(dict(fault, value=fault['value'] if rng.random() < 0.5 else ops[[i for i, x in enumerate(ops) if x['op'] == 'write'][0]]['value']))
    # idempotent re-submissions: the same request twice; the device backup just taken restored (PUT /device) with nothing after it
    for i in range(len(ops) - 1, -1, -1):
        if ops[i]['op'] in ('patch_port', 'patch_device', 'patch_slave', 'forward') and rng.random() < 0.08:
            ops.insert(i + 1, json.loads(json.dumps(ops[i])))
    if rng.random() < 0.3:
        if rng.random() < 0.5:
            ops.append({'op': 'patch_device', 'attrs': {'display_name': rng.choice(SPECIAL_STRINGS), 'admin_password': rng.choice(['', 'secret', 'p"w\\'])}})
        ops.append({'op': 'put_device_backup'})
    elif rng.random() < 0.1:
        ops.insert(rng.randrange(len(ops) + 1), {'op': 'put_device_backup'})
    return {'name': 'c%d' % idx, 'history': history, 'static': STATIC, 'sims': SIMS if with_slaves else [], 'ops': ops}


# ----------------------------------------------------------------------------------------------------------------
# running the implementation

def run_worker(ctx, cases, driver='json-mem', phase='both', tag='w', timeout=1500):
    req = {'driver': driver, 'workdir': os.path.join(ctx.workdir, 'stores'), 'phase': phase, 'cases': cases}
    env = dict(os.environ, PYTHONPATH='%s:%s' % (coq.VERIF, repo.REPO), PYTHONHASHSEED='0', PYTHONDONTWRITEBYTECODE='1')
    p = subprocess.run(['timeout', str(timeout), sys.executable, '-m', 'harness.props.c07_worker'], input=json.dumps(req),
                       capture_output=True, text=True, env=env, cwd=coq.VERIF)
    if p.returncode != 0 or not p.stdout.strip():
        raise RuntimeError('c07 worker failed (rc=%s): %s' % (p.returncode, p.stderr[-1500:]))
    return json.loads(p.stdout)['results']


def run_parallel(ctx, cases, driver='json-mem', jobs=4, tag='w'):
    """split the cases over up to `jobs` worker processes"""
    from concurrent.futures import ThreadPoolExecutor
    if not cases:
        return []
    k = max(1, min(jobs, len(cases) // 8 or 1))
    chunks = [cases[i::k] for i in range(k)]
    with ThreadPoolExecutor(max_workers=k) as ex:
        outs = list(ex.map(lambda c: run_worker(ctx, c, driver, tag=tag), chunks))
    results = [None] * len(cases)
    for j, out in enumerate(outs):
        for i, r in enumerate(out):
            results[i * k + j] = r
    return results


# ----------------------------------------------------------------------------------------------------------------
# specification oracle (black box, python): before vs after

def tw_eval(text, v, ptype, integer):
    """coerce(twrite(v)) for the transform family of the generator; None = outside the oracle's evaluator"""
    if v is None:
        return None, True
    if not text:
        return v, True
    m = re.fullmatch(r'(MUL|ADD)\(\$, (-?\d+)\)', text)
    if not m:
        return None, False
    k = int(m.group(2))
    x = v * k if m.group(1) == 'MUL' else v + k
    if ptype == 'boolean':
        return bool(x), True
    return (int(x) if integer else float(x)), True


def same_value(a, b):
    """JSON value equality that distinguishes true from 1 and 1 from 1.0 the way the API consumer sees them"""
    return json.dumps(a, sort_keys=True) == json.dumps(b, sort_keys=True)


def nonpersisted_names(port):
    return {n for n, d in (port.get('definitions') or {}).items() if d.get('persisted') is False}


def port_view(port):
    skip = VOLATILE_PORT | nonpersisted_names(port)
    out = {k: v for k, v in port.items() if k not in skip}
    for k in EXPR_ATTRS + ('device_expression',):
        if isinstance(out.get(k), str):
            # GET /ports answers the text as typed until the next tick and the canonical text afterwards (observation O1);
            # expression texts have no string literals, so they are compared without white space
            out[k] = re.sub(r'\s+', '', out[k])
    if 'provisioning' in out:
        out['provisioning'] = sorted(out['provisioning'])
    return out


def slave_view(s):
    out = {k: v for k, v in s.items() if k not in VOLATILE_SLAVE}
    out['provisioning'] = sorted(out.get('provisioning') or [])
    out['attrs'] = {k: v for k, v in (out.get('attrs') or {}).items() if k not in VOLATILE_SLAVE_ATTRS}
    return out


def diff(a, b):
    keys = sorted(set(a) | set(b))
    return {k: [a.get(k, '<absent>'), b.get(k, '<absent>')] for k in keys if not same_value(a.get(k, '<absent>'), b.get(k, '<absent>'))}


def deleted_ids(case, log):
    """ids whose last accepted add/remove is a remove"""
    ports, slaves = {}, {}
    for op, r in zip(case['ops'], log):
        ok = r[0] in (200, 204)
        if op['op'] == 'add_vport' and ok:
            ports[op['id']] = True
        elif op['op'] == 'del_port' and ok:
            ports[op['id']] = False
        elif op['op'] == 'add_slave' and ok:
            slaves['slv1' if op['host'] == 'dev1' else 'slv2'] = True
        elif op['op'] == 'del_slave' and ok:
            slaves[op['name']] = False
    return [i for i, v in ports.items() if not v], [i for i, v in slaves.items() if not v]


def oracle(case, res):
    """-> list of violations {'key':..., 'what':..., 'detail':...} of the property on this run of the real code"""
    out = []
    if res.get('error') and res.get('before') and not res.get('loaded'):
        lines = [x for x in res['error'].strip().splitlines() if x.strip()]
        causes = [x[len('cause: '):] for x in lines if x.startswith('cause: ')]
        cause = (causes[-1] if causes else lines[0]).split(':')[0].split('.')[-1]
        out.append({'key': {'object': 'hub', 'field': '<start-up>', 'cause': cause},
                    'what': 'the hub does not start from the store it saved: %s (%s)' % (lines[0][:200], '; '.join(causes)[:300]),
                    'detail': {'error': lines[0][:300], 'causes': causes[:5]}})
        return out
    if res.get('error') or not res.get('after'):
        return out
    before, loaded, after, store = res['before'], res['loaded'], res['after'], res['store']

    def add(obj, field, what, detail, **extra):
        key = {'object': obj, 'field': field}
        key.update(extra)
        out.append({'key': key, 'what': what, 'detail': detail})

    polled = {s['name'] for s in before['devices'] if s.get('poll_interval') or s.get('listen_enabled')}
    b_ports = {p['id']: p for p in before['ports']}
    l_ports = {p['id']: p for p in loaded['ports']}
    a_ports = {p['id']: p for p in after['ports']}
    a_sl = {s['name']: s for s in after['devices']}

    def kind(pid):
        return 'slave-port' if is_slave_id(pid) else ('virtual-port' if pid.startswith('v') or '.' in pid else 'static-port')

    # slaves whose in-memory state was changed by a PATCH that was refused afterwards and never saved: their ports (present or
    # absent with `enabled`) are reported once, at the slave
    unsaved_slaves = set()
    for s_b in before['devices']:
        s_l = next((x for x in loaded['devices'] if x['name'] == s_b['name']), None)
        if s_l is not None and any(
                o['op'] == 'patch_slave' and o['name'] == s_b['name'] and lg[0] >= 400 and lg[0] != 404
                and any(f in s_b and same_value(o['attrs'][f], s_b[f]) and not same_value(s_b[f], s_l.get(f)) for f in o['attrs'])
                for o, lg in zip(case['ops'], res['log'])):
            unsaved_slaves.add(s_b['name'])

    for pid, bp in sorted(b_ports.items()):
        owner = pid.split('.')[0] if is_slave_id(pid) else None
        if owner in unsaved_slaves:
            continue
        if owner in polled:
            target, when = a_ports.get(pid), 'after the restart (device polled again)'
        else:
            target, when = l_ports.get(pid) if not is_slave_id(pid) else a_ports.get(pid), 'after the restart'
        if owner in polled and not a_sl.get(owner, {}).get('online'):
            continue                     # ports of a polled device are rebuilt from the device once it is online (observation O3)
        if target is None:
            add(kind(pid), '<port>', 'port %s exists before the restart and is missing %s' % (pid, when), {'before': port_view(bp)})
            continue
        vb, vt = port_view(bp), port_view(target)
        if owner in polled:
            # last_sync of a port of a device that is polled again is the time of the new poll: comparing it would compare
            # clocks.  Required only: a number (or absent), not earlier than before.  (Ports of permanently offline devices: nothing
            # refreshes it, it is restored from the record and compared like any attribute.)
            lb, lt = vb.pop('last_sync', None), vt.pop('last_sync', None)
            num = lambda v: v is None or (isinstance(v, (int, float)) and not isinstance(v, bool))  # noqa: E731
            if not (num(lb) and num(lt)) or (lb is not None and lt is not None and lt < lb):
                add('slave-port', 'last_sync', 'port %s: last_sync is %s before the restart and %s %s (not a number, or earlier)' % (
                    pid, json.dumps(lb), json.dumps(lt), when), {'before': lb, 'after': lt})
        if is_slave_id(pid) and bp.get('expression'):
            # the expression of a slave port is evaluated again once the hub runs; for an offline device its result becomes a
            # pending value: activity after the restart, not something that was (not) restored
            for v_ in (vb, vt):
                v_['provisioning'] = [x_ for x_ in v_.get('provisioning') or [] if x_ != 'value']
        d = diff(vb, vt)
        for f, (x, y) in sorted(d.items()):
            failed = [o for o, lg in zip(case['ops'], res['log']) if o['op'] == 'patch_port' and o['id'] == pid and lg[0] >= 400
                      and f in o['attrs'] and same_value(port_view({f: o['attrs'][f]}).get(f), x)]
            if failed:
                add(kind(pid), '<partially applied PATCH>', 'port %s: attribute %s = %s was applied by a PATCH that was answered with an error '
                    '(%s) but never saved: %s %s' % (pid, f, json.dumps(x), describe(failed[-1]), json.dumps(y), when),
                    {'attribute': f, 'before': x, 'after': y}, cause='error-answer-skips-save')
                continue
            add(kind(pid), f, 'port %s: attribute %s is %s before the restart and %s %s' % (pid, f, json.dumps(x), json.dumps(y), when),
                {'before': x, 'after': y})
        if not same_value(bp.get('definitions'), target.get('definitions')):
            add(kind(pid), 'definitions', 'port %s: attribute definitions differ %s' % (pid, when), {})
        # history_last_timestamp (not exposed by the API; read from the port object)
        if owner not in polled:
            hb = before['internals']['history_last_timestamp'].get(pid)
            hl = loaded['internals']['history_last_timestamp'].get(pid) if not is_slave_id(pid) else None
            # only periodic sampling (history_interval > 0) reads the timestamp; the on-change recorder sets it without
            # marking the port for saving (observation O5)
            if not is_slave_id(pid) and hb != hl and (bp.get('history_interval') or 0) > 0:
                add(kind(pid), 'history_last_timestamp', 'port %s: history_last_timestamp %s before, %s after loading' % (pid, hb, hl),
                    {'before': hb, 'after': hl})
        # value and driver writes
        if is_slave_id(pid):
            if owner not in polled and bp.get('enabled') and not same_value(bp.get('value'), target.get('value')):
                prov = 'value' in (bp.get('provisioning') or [])
                add('slave-port', 'value', 'port %s of a permanently offline device reports value %s before the restart and %s after it%s' % (
                    pid, json.dumps(bp.get('value')), json.dumps(target.get('value')),
                    ' (a value written while offline is pending)' if prov else ''),
                    {'before': bp.get('value'), 'after': target.get('value')}, cause='provisioned-value' if prov else 'other')
            continue
        writes = loaded['writes'].get(pid, [])
        raw_before = store_value(store, pid)
        if bp.get('persisted') and raw_before is not None:
            if bp.get('enabled') and not same_value(bp.get('value'), target.get('value')):
                add(kind(pid), 'value', 'persisted port %s: value %s before the restart, %s right after loading' % (
                    pid, json.dumps(bp.get('value')), json.dumps(target.get('value'))), {'before': bp.get('value'), 'after': target.get('value')})
            if bp.get('writable'):
                exp, known = tw_eval(bp.get('transform_write') or '', raw_before, bp.get('type'), bp.get('integer'))
                if (bp.get('transform_write') or '') and not bp.get('enabled'):
                    exp, known = None, True      # the transform of a disabled port cannot read the port's own value
                if known and not same_value(writes, [exp]):
                    add(kind(pid), 'driver-writes', 'persisted port %s (last value %s, transform_write %r): driver writes during loading are %s, '
                        'expected exactly [%s]' % (pid, json.dumps(raw_before), bp.get('transform_write'), json.dumps(writes), json.dumps(exp)),
                        {'writes': writes, 'expected': [exp]})
                elif not known and len(writes) != 1:
                    add(kind(pid), 'driver-writes', 'persisted port %s: %d driver writes during loading, expected 1' % (pid, len(writes)),
                        {'writes': writes})
            elif writes:
                add(kind(pid), 'driver-writes', 'read-only port %s: driver written during loading: %s' % (pid, json.dumps(writes)), {'writes': writes})
            simple = not bp.get('expression') and not bp.get('transform_read') and not bp.get('transform_write')
            ap = a_ports.get(pid)
            if simple and ap is not None and bp.get('enabled') and bp.get('writable') and not same_value(bp.get('value'), ap.get('value')):
                add(kind(pid), 'value', 'persisted port %s: value %s before the restart, %s once the hub runs again' % (
                    pid, json.dumps(bp.get('value')), json.dumps(ap.get('value'))), {'before': bp.get('value'), 'after': ap.get('value')})
        elif writes:
            add(kind(pid), 'driver-writes', 'port %s is not persisted (or has no value) but its driver was written during loading: %s' % (
                pid, json.dumps(writes)), {'writes': writes})
    for pid in before['internals']['vport_args']:
        if pid not in b_ports:
            add('virtual-port', '<port>', 'virtual port %s is defined (collection vports / _vport_args) but does not exist before the restart' % pid, {})
    for pid in sorted(set(l_ports) - set(b_ports)):
        if is_slave_id(pid) and pid.split('.')[0] in unsaved_slaves:
            continue
        add(kind(pid), '<port>', 'port %s does not exist before the restart and exists after it' % pid, {'after': port_view(l_ports[pid])})

    d = diff({k: v for k, v in before['device'].items() if k not in VOLATILE_DEVICE},
             {k: v for k, v in loaded['device'].items() if k not in VOLATILE_DEVICE})
    for f, (x, y) in sorted(d.items()):
        add('device', f, 'device attribute %s is %s before the restart and %s after it' % (f, json.dumps(x), json.dumps(y)), {'before': x, 'after': y})
    d = diff(before['internals']['password_hashes'], loaded['internals']['password_hashes'])
    for f, (x, y) in sorted(d.items()):
        add('device', f + '_password_hash', 'the %s password hash changes over the restart' % f, {'before': x, 'after': y})

    b_sl = {s['name']: s for s in before['devices']}
    l_sl = {s['name']: s for s in loaded['devices']}
    for name in sorted(set(b_sl) | set(l_sl)):
        if name not in l_sl or name not in b_sl:
            add('slave', '<slave>', 'slave %s is %s before the restart and %s after it' % (
                name, 'present' if name in b_sl else 'absent', 'present' if name in l_sl else 'absent'), {})
            continue
        d = diff(slave_view(b_sl[name]), slave_view(l_sl[name]))
        for f, (x, y) in sorted(d.items()):
            failed = [o for o, lg in zip(case['ops'], res['log']) if o['op'] == 'patch_slave' and o['name'] == name
                      and lg[0] >= 400 and lg[0] != 404 and f in o['attrs'] and same_value(o['attrs'][f], x)]
            if failed:
                add('slave', '<partially applied PATCH>', 'slave %s: %s = %s was applied by a PATCH that was answered with an error '
                    '(%s) but never saved: %s after the restart' % (name, f, json.dumps(x), describe(failed[-1]), json.dumps(y)),
                    {'attribute': f, 'before': x, 'after': y}, cause='error-answer-skips-save')
                continue
            add('slave', f, 'slave %s: %s is %s before the restart and %s after it' % (name, f, json.dumps(x), json.dumps(y)), {'before': x, 'after': y})
        d = diff(before['internals']['slave_internals'].get(name, {}), loaded['internals']['slave_internals'].get(name, {}))
        for f, (x, y) in sorted(d.items()):
            add('slave', f, 'slave %s: cached %s is %s before the restart and %s after it' % (name, f, json.dumps(x), json.dumps(y)), {'before': x, 'after': y})

    # nothing deleted reappears; no record of a deleted thing remains
    dead_ports, dead_slaves = deleted_ids(case, res['log'])
    for pid in dead_ports:
        if pid in a_ports or pid in l_ports or pid in after['internals']['vport_args']:
            add('virtual-port', '<deleted>', 'virtual port %s was deleted and is back after the restart' % pid, {})
        for coll in ('ports', 'vports'):
            if any(r.get('id') == pid for r in store.get(coll, [])):
                add('virtual-port', '<record>', 'virtual port %s was deleted but its record remains in collection %s' % (pid, coll), {}, collection=coll)
    for name in dead_slaves:
        if name in l_sl or any(is_slave_id(p) and p.startswith(name + '.') for p in a_ports):
            add('slave', '<deleted>', 'slave %s was deleted and is back after the restart' % name, {})
        if any(r.get('id') == name for r in store.get('slaves', [])) or any(str(r.get('id', '')).startswith(name + '.') for r in store.get('slave_ports', [])):
            add('slave', '<record>', 'slave %s was deleted but records of it remain in the store' % name, {})
    # records without an owner
    live = set(b_ports)
    for r in store.get('ports', []) + store.get('slave_ports', []):
        owner = str(r.get('id', '')).split('.')[0]
        if r.get('id') not in live and not (owner in b_sl and not b_sl[owner].get('enabled')) and owner not in polled:
            add('store', '<orphan>', 'the store holds a record for port %s, which does not exist' % r.get('id'), {'record': r})
    return out


def store_value(store, pid):
    for r in store.get('ports', []):
        if r.get('id') == pid:
            return r.get('value')
    return None


# ----------------------------------------------------------------------------------------------------------------
# Coq tie (filled in by model_tie below)

def c_str(s):
    return coq.string(s)


def c_jv(v):
    if v is None:
        return 'JNull'
    if isinstance(v, bool):
        return '(JBool %s)' % coq.boolean(v)
    if isinstance(v, int):
        return '(JInt %s)' % coq.z(v)
    if isinstance(v, float):
        if v * 4 == int(v * 4):
            return '(JQ %s)' % coq.z(int(v * 4))
        return '(JStr %s)' % c_str('float:' + v.hex())
    if isinstance(v, str):
        return '(JStr %s)' % c_str(v)
    if isinstance(v, list):
        return '(JList %s)' % coq.lst(v, c_jv)
    if isinstance(v, dict):
        return '(JObj %s)' % coq.lst(sorted(v.items()), lambda kv: '(%s, %s)' % (c_str(kv[0]), c_jv(kv[1])))
    raise ValueError(repr(v))


def c_record(d):
    return coq.lst(list(d.items()), lambda kv: '(%s, %s)' % (c_str(kv[0]), c_jv(kv[1])))




def c_tw(text):
    if not text:
        return 'TWNone'
    m = re.fullmatch(r'(MUL|ADD)\(\$, (-?\d+)\)', text)
    if not m:
        return 'TWOther'
    return '(%s %s)' % ('TWMul' if m.group(1) == 'MUL' else 'TWAdd', coq.z(int(m.group(2))))


def port_case(pid, bp, lp, defaults, record, hlt_b, hlt_l, writes):
    """one local (static / virtual) port: attribute definitions as the real port reports them, attributes of a newly
    constructed port, state before, the stored record, state after loading, driver writes during loading"""
    defs = bp.get('definitions') or {}
    std_mod = ['display_name', 'unit', 'enabled', 'tag', 'expression', 'transform_read', 'transform_write', 'persisted', 'internal',
               'history_interval', 'history_retention']
    skip = ('value', 'pending_value', 'definitions', '_last_value')
    attrdefs = []
    for n in bp:
        if n in skip:
            continue
        if n in defs:
            attrdefs.append((n, bool(defs[n].get('modifiable')), defs[n].get('persisted') is False))
        else:
            attrdefs.append((n, n in std_mod, False))
    cur = {n: v for n, v in bp.items() if n not in skip}
    aft = {n: v for n, v in lp.items() if n not in skip}
    return 'PC %s %s %s %s %s %s %s %s %s %s %s %s %s %s' % (
        c_str(pid),
        coq.lst(attrdefs, lambda a: '(%s, %s, %s)' % (c_str(a[0]), coq.boolean(a[1]), coq.boolean(a[2]))),
        c_record(defaults), c_record(cur), c_jv(bp.get('_last_value')), coq.z(hlt_b or 0),
        coq.boolean(bool(bp.get('writable'))), coq.boolean(bp.get('type') == 'boolean'), coq.boolean(bool(bp.get('integer'))),
        c_record(record), c_record(aft), c_jv(lp.get('_last_value')), coq.z(hlt_l or 0), coq.lst(writes, c_jv))


HEADER = 'From QT Require Import C07.Run.\nOpen Scope string_scope.\nOpen Scope Z_scope.\n'


def model_tie(ctx, res, cases, results, name):
    """compare the Coq model with what the real code stored and came back with"""
    if not ctx.model_ok:
        res['tie_failures'].append('model not built; cases not evaluated')
        return
    items, owners = [], []
    for ci, (case, r) in enumerate(zip(cases, results)):
        if r.get('error') or not r.get('after'):
            continue
        before, loaded, store = r['before'], r['loaded'], r['store']
        l_ports = {p['id']: p for p in loaded['ports']}
        recs = {x['id']: x for x in store.get('ports', [])}
        for bp in before['ports']:
            pid = bp['id']
            if is_slave_id(pid) or pid not in l_ports or pid not in recs or pid not in (r.get('defaults') or {}):
                continue
            bp = dict(bp, _last_value=before['internals'].get('last_values', {}).get(pid))
            lp = dict(l_ports[pid], _last_value=loaded['internals'].get('last_values', {}).get(pid))
            try:
                hb = before['internals']['history_last_timestamp'].get(pid)
                if (bp.get('history_interval') or 0) <= 0:
                    hb = recs[pid].get('history_last_timestamp', 0)          # see observation O5
                items.append('(%s)' % port_case(pid, bp, lp, r['defaults'][pid], recs[pid], hb,
                                               loaded['internals']['history_last_timestamp'].get(pid), loaded['writes'].get(pid, [])))
                owners.append((ci, 'port', pid))
            except ValueError as e:
                res['tie_failures'].append('cannot encode port %s of case %s: %s' % (pid, case['name'], e))
        # device
        dev_rec = (store.get('device') or [{}])[0].get('value') or {}
        items.append('(DC %s %s %s %s %s)' % (
            c_str(before['device'].get('name', '')), c_str(before['device'].get('display_name', '')),
            coq.lst([before['internals']['password_hashes'][w] for w in ('admin', 'normal', 'viewonly')], c_str),
            c_record(dev_rec),
            '%s %s %s' % (c_str(loaded['device'].get('name', '')), c_str(loaded['device'].get('display_name', '')),
                          coq.lst([loaded['internals']['password_hashes'][w] for w in ('admin', 'normal', 'viewonly')], c_str))))
        owners.append((ci, 'device', ''))
        # slaves
        l_sl = {s['name']: s for s in loaded['devices']}
        s_recs = {x['id']: x for x in store.get('slaves', [])}
        for s in before['devices']:
            if s['name'] in l_sl and s['name'] in s_recs:
                try:
                    bi, li = before['internals']['slave_internals'][s['name']], loaded['internals']['slave_internals'][s['name']]
                    items.append('(SC %s %s %s %s %s)' % (
                        c_record(slave_fields(s, bi)), c_record({k: v for k, v in s_recs[s['name']].items() if k != 'last_sync'}),
                        c_record(slave_fields(l_sl[s['name']], li)),
                        c_record(slave_fields(s, bi, state=False)), c_record(slave_fields(l_sl[s['name']], li, state=False))))
                    owners.append((ci, 'slave', s['name']))
                except ValueError as e:
                    res['tie_failures'].append('cannot encode slave %s: %s' % (s['name'], e))
        # ports of permanently offline slaves: reloaded from the slave_ports records by the prefix rule
        after = r['after']
        stored_ids = [x['id'] for x in store.get('slave_ports', [])]
        for sl in after['devices']:
            if sl.get('enabled') and not sl.get('poll_interval') and not sl.get('listen_enabled'):
                own = lambda obs: sorted(v[1] for v in obs['internals'].get('slave_port_owners', {}).values() if v[0] == sl['name'])  # noqa: E731
                if any(b['name'] == sl['name'] and b.get('enabled') and not b.get('poll_interval') and not b.get('listen_enabled')
                       for b in before['devices']):
                    items.append('(LC %s %s %s %s)' % (c_str(sl['name']), coq.lst(stored_ids, c_str), coq.lst(own(before), c_str),
                                                      coq.lst(own(after), c_str)))
                    owners.append((ci, 'ports of slave', sl['name']))
        for name in deleted_ids(case, r['log'])[1]:
            items.append('(GC %s %s)' % (c_str(name), coq.lst(stored_ids, c_str)))
            owners.append((ci, 'records of deleted slave', name))
        # live sets over the history
        hops = hub_ops(case, r['log'])
        items.append('(HC %s %s %s %s %s %s)' % (
            coq.lst(hops), coq.lst([x['port_id'] for x in case['static']], c_str), coq.lst(sorted(p['id'] for p in before['ports'] if not is_slave_id(p['id'])), c_str),
            coq.lst(sorted(s['name'] for s in before['devices']), c_str),
            coq.lst(sorted(p['id'] for p in loaded['ports'] if not is_slave_id(p['id'])), c_str),
            coq.lst(sorted(s['name'] for s in loaded['devices']), c_str)))
        owners.append((ci, 'hub', ''))
    shards, offs = [], []
    for i in range(0, len(items), 400):
        shards.append('Definition cases : list tcase := [\n  %s].\n' % ';\n  '.join(items[i:i + 400]))
        offs.append(i)
    t0 = _time.time()
    outs = coq.eval_shards(ctx.workdir, name, HEADER, shards, ['bad_model cases', 'bad_spec cases'], jobs=2)
    ctx.log('%s: %d model items in %d shards, coqc %.1fs' % (name, len(items), len(shards), _time.time() - t0))
    res['extra']['model_items'] = res['extra'].get('model_items', 0) + len(items)
    for (rc, lists, text), off in zip(outs, offs):
        if rc != 0 or len(lists) != 2:
            res['tie_failures'].append('coqc failed on a case shard: %s' % text[-800:])
            continue
        for j in lists[0]:
            ci, what, ident = owners[off + j]
            res['tie_failures'].append({'note': 'model differs from implementation: %s %s of case %s' % (what, ident, cases[ci]['name']),
                                        'item': items[off + j][:1500]})
        for j in lists[1]:
            ci, what, ident = owners[off + j]
            res['violations'].append({
                'key': {'object': what, 'field': 'coq-spec'},
                'what': 'Coq specification oracle: %s %s does not come back unchanged (case %s)' % (what, ident, cases[ci]['name']),
                'case': {'driver': 'json-mem', 'history_enabled': cases[ci]['history'],
                         'requests': [describe(o) for o in cases[ci]['ops']], 'machine': cases[ci]},
                'observed': items[off + j][:1500]})


def slave_fields(s, internals, state=True):
    """state=True: the slave's state (cached attributes as kept in memory, i.e. with clear-text pending passwords);
    state=False: what GET /devices shows (passwords masked)"""
    d = {k: s.get(k) for k in ('enabled', 'name', 'scheme', 'host', 'port', 'path', 'admin_password_hash', 'poll_interval', 'listen_enabled')}
    d['attrs'] = (internals.get('cached_attrs') if state and 'cached_attrs' in internals else s.get('attrs')) or {}
    prov = sorted(s.get('provisioning') or [])
    d['provisioning_attrs'] = [p for p in prov if p not in ('webhooks', 'reverse')]
    d['webhooks'] = internals['webhooks']
    d['reverse'] = internals['reverse']
    d['provisioning_webhooks'] = internals['provisioning_webhooks']
    d['provisioning_reverse'] = internals['provisioning_reverse']
    return d


def hub_ops(case, log):
    out = []
    for op, r in zip(case['ops'], log):
        if r[0] not in (200, 204):
            continue
        if op['op'] == 'add_vport':
            out.append('OAddVirtualPort %s' % c_str(op['id']))
        elif op['op'] == 'del_port':
            out.append('ORemovePort %s' % c_str(op['id']))
        elif op['op'] == 'patch_port' and not is_slave_id(op['id']):
            out.append('OSetAttr %s' % c_str(op['id']))
        elif op['op'] == 'write_save_fault' and len(r) > 3 and r[3].get('save_failed'):
            out.append('OWriteValue %s' % c_str(op['id']))
            out.append('OSaveFailed %s' % c_str(op['id']))
        elif op['op'] == 'add_slave':
            out.append('OAddSlave %s' % c_str('slv1' if op['host'] == 'dev1' else 'slv2'))
        elif op['op'] == 'patch_slave':
            out.append('OEditSlave %s' % c_str(op['name']))
        elif op['op'] == 'del_slave':
            out.append('ORemoveSlave %s' % c_str(op['name']))
    return out


# ----------------------------------------------------------------------------------------------------------------
# check / search

def describe(op):
    k = op['op']
    if k == 'add_vport':
        return 'POST /ports %s' % json.dumps({x: op[x] for x in op if x != 'op'})
    if k == 'patch_port':
        return 'PATCH /ports/%s %s' % (op['id'], json.dumps(op['attrs']))
    if k == 'del_port':
        return 'DELETE /ports/%s' % op['id']
    if k == 'write':
        return 'PATCH /ports/%s/value %s' % (op['id'], json.dumps(op['value']))
    if k == 'patch_device':
        return 'PATCH /device %s' % json.dumps(op['attrs'])
    if k == 'write_save_fault':
        return 'PATCH /ports/%s/value %s; the first attempt of the save loop to store the port fails once (transient storage error)' % (
            op['id'], json.dumps(op['value']))
    if k == 'sim_drop_port':
        return 'device %s no longer has port %s' % (op['name'], op['id'])
    if k == 'put_device_backup':
        return 'GET /device, then PUT /device with the document just received'
    if k == 'add_slave':
        return 'POST /devices %s' % json.dumps({x: op[x] for x in op if x != 'op'})
    if k == 'patch_slave':
        return 'PATCH /devices/%s %s' % (op['name'], json.dumps(op['attrs']))
    if k == 'del_slave':
        return 'DELETE /devices/%s' % op['name']
    if k == 'forward':
        return '%s /devices/%s/forward%s %s (device offline)' % (op['method'], op['name'], op['path'], json.dumps(op.get('body')))
    if k == 'sample':
        return 'history sample of %s recorded at %d' % (op['id'], op['timestamp'])
    return 'wait %.1f s' % op['s']


def shrink(ctx, case, key, driver):
    """drop operations (and attributes inside PATCHes) while the same violation key is still reported"""
    def bad(cands):
        if not cands:
            return []
        rs = run_worker(ctx, cands, driver, tag='shrink')
        return [i for i, (c, r) in enumerate(zip(cands, rs)) if any(v['key'] == key for v in oracle(c, r))]

    cur = case
    for _round in range(8):
        ops = cur['ops']
        cands = [dict(cur, ops=ops[:i] + ops[i + 1:], name='s%d' % i) for i in range(len(ops))]
        for i, op in enumerate(ops):
            if op['op'] in ('patch_port', 'patch_device', 'patch_slave') and len(op['attrs']) > 1:
                for n in op['attrs']:
                    o2 = dict(op, attrs={k: v for k, v in op['attrs'].items() if k != n})
                    cands.append(dict(cur, ops=ops[:i] + [o2] + ops[i + 1:], name='s%da%d' % (i, len(cands))))
        hits = bad(cands)
        if not hits:
            break
        # try to drop all individually droppable operations at once
        drop = [i for i in hits if i < len(ops)]
        if len(drop) > 1:
            cand = dict(cur, ops=[o for i, o in enumerate(ops) if i not in drop], name='sall')
            if bad([cand]):
                cur = cand
                continue
        cur = cands[hits[0]]
    return dict(cur, name=case['name'])


def account(res, cases, results):
    dist = res['distribution']
    for case, r in zip(cases, results):
        kinds = set()
        for op, lg in zip(case['ops'], r.get('log', [])):
            kinds.add(op['op'])
            dist['op:' + op['op']] = dist.get('op:' + op['op'], 0) + 1
            dist['status:%d' % lg[0]] = dist.get('status:%d' % lg[0], 0) + 1
        res['evaluations'] += 1
        n_ports = len((r.get('before') or {}).get('ports', []))
        persisted = sum(1 for p in (r.get('before') or {}).get('ports', []) if p.get('persisted') and p.get('value') is not None)
        if persisted:
            dist['histories with a persisted value'] = dist.get('histories with a persisted value', 0) + 1
        if (r.get('before') or {}).get('devices'):
            dist['histories with a slave'] = dist.get('histories with a slave', 0) + 1
        if len(kinds) >= 3 and n_ports >= 4:
            res['distinct_nontrivial'] += 1
        if r.get('error') and not (r.get('before') and not r.get('loaded')):
            res['tie_failures'].append('worker error in case %s: %s' % (case['name'], r['error'][-600:]))


def report(ctx, res, cases, results, driver, do_shrink=True):
    seen = set()
    for case, r in zip(cases, results):
        for v in oracle(case, r):
            k = json.dumps(v['key'], sort_keys=True)
            if k in seen:
                continue
            seen.add(k)
            small = case
            if do_shrink and len(seen) <= 4:
                try:
                    small = shrink(ctx, case, v['key'], driver)
                    r2 = run_worker(ctx, [small], driver, tag='min')[0]
                    vs = [x for x in oracle(small, r2) if x['key'] == v['key']]
                    if vs:
                        v = vs[0]
                    else:
                        small = case
                except Exception as e:  # noqa: BLE001
                    ctx.log('shrink failed: %s' % e)
                    small = case
            res['violations'].append({
                'key': v['key'],
                'what': v['what'],
                'case': {'driver': driver, 'history_enabled': small['history'], 'requests': [describe(o) for o in small['ops']],
                         'then': 'wait for the save loop, shut down (startup.cleanup order), boot from the same store (startup.init order)',
                         'machine': small},
                'observed': v['detail'],
            })


def load_corpus():
    out = []
    for path in sorted(glob.glob(os.path.join(coq.VERIF, 'corpus', ID, '*.json'))):
        with open(path) as f:
            d = json.load(f)
        c = d.get('case', d)
        c = c.get('machine', c)
        out.append(dict(c, name='corpus%d' % len(out)))
    return out


def redis_usable():
    try:
        import fakeredis  # noqa: F401
    except Exception:  # noqa: BLE001
        return False, 'fakeredis not importable'
    src = open(repo.path('qtoggleserver', 'utils', 'json.py')).read()
    if "return '\"' + obj + '\"'" in src:
        return False, 'utils/json.py:dumps still returns strings unescaped (C06 finding F2); Redis not exercised'
    return True, ''


def run_batch(ctx, res, cases, name, driver='json-mem', tie=True, do_shrink=True):
    t0 = _time.time()
    results = run_parallel(ctx, cases, driver, tag=name)
    t1 = _time.time()
    account(res, cases, results)
    report(ctx, res, cases, results, driver, do_shrink)
    if tie:
        model_tie(ctx, res, cases, results, name)
    ctx.log('%s: %d histories on %s, implementation %.1fs, oracle+tie %.1fs' % (name, len(cases), driver, t1 - t0, _time.time() - t1))
    if len(res['samples']) < 4:
        for case, r in list(zip(cases, results))[:2]:
            res['samples'].append({'driver': driver, 'requests': [describe(o) for o in case['ops']][:8],
                                   'answers': [x[:2] for x in r.get('log', [])][:8],
                                   'ports_before': [p['id'] for p in (r.get('before') or {}).get('ports', [])]})
    return results


def check(ctx, res):
    res['rule'] = (
        'API histories (3 statically configured ports with additional attributes, up to 4 virtual ports of all definitions, '
        'up to 2 simulated slave devices: one permanently offline, one polled): 4-18 requests (POST/PATCH/DELETE /ports, '
        'PATCH value, PATCH /device incl. passwords, POST/PATCH/DELETE /devices, offline PATCH through /forward, history '
        'samples), strings with quotes/backslashes/control/non-ASCII characters, valid and invalid expressions and '
        'transforms; evaluations = histories run through save + restart; non-trivial = >= 3 kinds of request and >= 4 ports'
    )
    if ctx.replay:
        with open(ctx.replay) as f:
            d = json.load(f)
        c = d.get('case', d)
        driver = c.get('driver', 'json-mem')
        c = dict(c.get('machine', c), name='replay')
        run_batch(ctx, res, [c], 'c07replay', driver=driver, do_shrink=False)
        return
    corpus = load_corpus()
    if corpus:
        run_batch(ctx, res, corpus, 'c07corpus', do_shrink=False)
    n = ctx.n(150, 3000)
    n_file = max(10, n // 5)
    done = 0
    while done < n - n_file:
        k = min(600, n - n_file - done)
        run_batch(ctx, res, [gen_case(ctx.rng, done + i) for i in range(k)], 'c07mem%d' % done)
        done += k
    run_batch(ctx, res, [gen_case(ctx.rng, 100000 + i) for i in range(n_file)], 'c07file', driver='json-file')
    # a real second process on the file-backed store
    m = ctx.n(10, 200)
    cases = [gen_case(ctx.rng, 200000 + i) for i in range(m)]
    first = run_worker(ctx, cases, 'json-file', phase='first', tag='p1')
    second = run_worker(ctx, [dict(c, sims=a.get('sims_state') or c['sims']) for c, a in zip(cases, first)], 'json-file',
                        phase='second', tag='p2')
    merged = [dict(a, loaded=b.get('loaded'), after=b.get('after'), error=a.get('error') or b.get('error')) for a, b in zip(first, second)]
    account(res, cases, merged)
    report(ctx, res, cases, merged, 'json-file', do_shrink=False)
    res['extra']['two_process_histories'] = m
    ok, why = redis_usable()
    if ok:
        run_batch(ctx, res, [gen_case(ctx.rng, 300000 + i) for i in range(ctx.n(20, 300))], 'c07redis', driver='redis', tie=False)
    else:
        res['extra']['driver:redis'] = 'not run: ' + why


def search(ctx, res):
    n = ctx.n(600, 5000)
    done = 0
    while done < n and not res['violations']:
        k = min(300, n - done)
        cases = [gen_case(ctx.rng, 500000 + done + i) for i in range(k)]
        results = run_parallel(ctx, cases, 'json-mem', tag='search')
        account(res, cases, results)
        report(ctx, res, cases, results, 'json-mem')
        done += k


REPLAY_HELP = (
    'bin/check C07 --replay <this file>   (case.machine: static ports, simulated devices, operations; the worker '
    'harness/props/c07_worker.py runs them through the real API functions, waits for the save loop, shuts the hub down and '
    'boots it again from the same store)'
)

LEVEL_TEXT = (
    'Coq theorems over a Gallina model of port save/load (prepare_for_save, load_from_data with its order and skipping '
    'rules, value re-applied through the write transform), virtual port definitions, the device record with password '
    'hashes, slave entries and a hub state machine over add/edit/remove/save/restart operations: a well-formed port, device '
    'and slave entry come back unchanged, a persisted value is written to the driver exactly once, the field order of the '
    'stored record is irrelevant, and nothing deleted reappears after any history. The model is compared with the records '
    'the real code stored and the state it came back with on generated API histories, and the real code is compared '
    'before/after a restart by a black-box oracle.'
)
LEVEL_NOTE = (
    'Trusted: Coq kernel incl. vm_compute; the correspondence harness (stand-in request handler, boot/shutdown re-enacting '
    'startup.py, virtual clock, fake HTTP client, harness port class); the JSON driver as the reference store (C06); '
    'expression evaluation not modelled (write transforms MUL/ADD by a constant in the tie). No axioms.'
)
TECHNIQUE = 'Coq proof (round-trip lemmas, induction over operation histories) over a model tied by vm_compute correspondence + black-box restart oracle'
