"""C08 — JSON store: a crash at any point of a modifying operation leaves the pre- or the post-operation state.

Theorems: coq/theories/Props/C08.v (crash atomicity and durability of the save program / load tree regenerated from
json.py, for every crash point and byte prefix, arbitrary data).
Tie: (T) Gen/C08Gen.v regenerated from JSONDriver._save/_load by harness/translate/saveprog.py, the decision procedure
re-run on it (C08/GenOk.v) + (C) for random histories on the real JSONDriver the file operations of every _save are
recorded, EVERY crash state (before/after each call, every byte prefix of each write) is materialised in a scratch
directory and a fresh JSONDriver is started on it:
  - spec oracle: the fresh driver must hold exactly the pre- or the post-operation store          -> violations
  - model: recorded system calls = trace of save_prog; observed crash states = crash_states of save_prog;
    what the fresh driver loaded = load_prog on that state (Coq, vm_compute, C08/Run.v)             -> tie_failures
"""
import asyncio
import copy
import datetime
import json
import logging
import os
import shutil
import threading
import time

from harness.common import coq
from harness.translate import saveprog

ID = 'C08'
PROPS = 'theories/Props/C08.v'
MODEL_TARGETS = ['theories/C08/Run.vo']
TRANSLATORS = [saveprog.translate]
TIE = ('translator (JSONDriver._save -> op list, _load -> decision tree, every saving method -> operation tree; decision '
       'procedures re-run by vm_compute) + '
       'exhaustive crash-state correspondence on the real driver (system-call trace, crash states, load outcomes)')
ALLOWED_AXIOMS = []
TRUSTED_BASE = [
    'harness/translate/saveprog.py (reads the closed list of statement shapes of _save/_load; routes exceptions to handlers)',
    'correspondence harness harness/props/c08.py: recording proxies for os.rename/replace/remove/fsync, os.path.exists, '
    'os.stat and open() inside the driver module; crash states rebuilt from the recorded calls (final state cross-checked '
    'with the real directory)',
    'modelled, not verified: POSIX rename/replace atomicity; a write reaches the file as a byte prefix; no reordering of '
    'completed calls (process crash, not power loss: fsync does not change the model state); CPython json',
]
ASSUMPTIONS = [
    'crash model: the process dies between two file-system calls or after any byte prefix of a write; calls that '
    'returned are not undone or reordered (power loss with an unflushed page cache is outside the statement)',
    'serialisation premises of the theorems: loads(dumps(d)) = d, the empty text and every proper non-empty prefix of '
    'dumps(d) do not parse (proved for framed decoders; tested on every payload prefix by the harness)',
    'the driver is file-backed (file_path set) and no other process touches its three files',
    'an operation is one synchronous step of the event loop (no await between the in-memory change and the end of its '
    'single save): checked syntactically by the translator and, for overlapping requests, by the harness',
    'the theorem starts from files left by this save procedure (or no files); a data file corrupted by other means is '
    'outside the statement',
]

COLLS = ['ports', 'devices']
STRINGS = ['', 'a', 'value', 'x"y', 'br{ace}', 'sl\\ash', 'café', '}]', '{"k": 1}', 'line\nbreak', ' ']
FULL_ENUM_MAX = 400      # payloads up to this many bytes: every prefix; longer: dense at both ends + random sample
EDGE = 48
SAMPLE = 160


# ----------------------------------------------------------------------------------------------------------------------
# histories (JSON-serialisable, so that they can be stored as corpus / replay files)

def enc(v):
    if isinstance(v, datetime.datetime):
        return {'$dt': [v.year, v.month, v.day, v.hour, v.minute, v.second, v.microsecond]}
    if isinstance(v, dict):
        return {k: enc(x) for k, x in v.items()}
    if isinstance(v, list):
        return [enc(x) for x in v]
    return v


def dec(v):
    if isinstance(v, dict):
        if set(v) == {'$dt'}:
            return datetime.datetime(*v['$dt'])
        return {k: dec(x) for k, x in v.items()}
    if isinstance(v, list):
        return [dec(x) for x in v]
    return v


def gen_value(rng, depth=0):
    r = rng.random()
    if r < 0.25:
        return rng.choice([0, 1, -1, 42, 2 ** 40, rng.randint(-1000, 1000)])
    if r < 0.35:
        return rng.choice([0.5, -2.25, 1e-7, 3.0, 1e20])
    if r < 0.6:
        return rng.choice(STRINGS)
    if r < 0.7:
        return rng.choice([True, False, None])
    if r < 0.78:
        return {'$dt': [rng.randint(1990, 2040), rng.randint(1, 12), rng.randint(1, 28), rng.randint(0, 23),
                        rng.randint(0, 59), rng.randint(0, 59), rng.choice([0, 1, 999999, rng.randint(0, 999999)])]}
    if depth < 2 and r < 0.9:
        return [gen_value(rng, depth + 1) for _ in range(rng.randint(0, 3))]
    if depth < 2:
        return {rng.choice(['k', 'n', 'v', '__t', 'id2']): gen_value(rng, depth + 1) for _ in range(rng.randint(0, 3))}
    return rng.randint(0, 9)


def gen_record(rng, big=False):
    n = rng.randint(8, 30) if big else rng.randint(0, 4)
    return {rng.choice(['name', 'value', 'enabled', 'tag', 'attrs', 'ts', 'f%d' % rng.randint(0, 40)]): gen_value(rng)
            for _ in range(n)}


def gen_history(rng):
    ops = []
    n = rng.randint(2, 8)
    big = rng.random() < 0.15
    ids = {c: [] for c in COLLS}
    next_id = {c: 1 for c in COLLS}
    for _ in range(n):
        c = rng.choice(COLLS)
        r = rng.random()
        if rng.random() < 0.12:
            ops.append({'op': 'crash', 'pick': rng.random()})
        if rng.random() < 0.12:
            # two modifying requests in flight at the same time (two API requests)
            pair = []
            for j in range(2):
                if rng.random() < 0.7 or not ids[c]:
                    rid = 'c%d_%d' % (len(ops), j)
                    pair.append({'op': 'insert', 'coll': c, 'record': dict(gen_record(rng), id=rid)})
                    ids[c].append(rid)
                else:
                    pair.append({'op': 'update', 'coll': c, 'part': {'mark%d' % j: rng.randint(0, 9)},
                                 'filt': rng.choice([{}, {'id': rng.choice(ids[c])}])})
            ops.append({'op': 'concurrent', 'ops': pair})
            continue
        if len(ids[c]) >= 2 and rng.random() < 0.15:
            # operations on several records at once: every matching record, or none, must be changed after a crash
            if rng.random() < 0.5:
                ops.append({'op': 'remove', 'coll': c, 'filt': rng.choice([{}, {'id': {'in': ids[c][:3]}}, {'grp': 0}])})
            else:
                ops.append({'op': 'update', 'coll': c, 'part': gen_record(rng), 'filt': rng.choice([{}, {'grp': 0}])})
            continue
        if r < 0.5 or not ids[c]:
            rec = gen_record(rng, big)
            rec['grp'] = rng.randint(0, 1)
            if rng.random() < 0.2:
                rec['id'] = 'x%d' % len(ops)
                ids[c].append(rec['id'])
            else:
                ids[c].append(str(next_id[c]))   # what _find_next_id will answer in the common case
                next_id[c] += 1
            ops.append({'op': 'insert', 'coll': c, 'record': rec})
        elif r < 0.7:
            filt = rng.choice([{}, {'id': rng.choice(ids[c])}, {'id': 'none'}, {'value': 1}, {'id': {'in': ids[c][:2]}}])
            ops.append({'op': 'update', 'coll': c, 'part': gen_record(rng), 'filt': filt})
        elif r < 0.85:
            ops.append({'op': 'replace', 'coll': c, 'id': rng.choice(ids[c] + ['none']), 'record': gen_record(rng)})
        else:
            filt = rng.choice([{'id': rng.choice(ids[c])}, {}, {'id': 'none'}, {'enabled': True}])
            ops.append({'op': 'remove', 'coll': c, 'filt': filt})
    return {'use_backup': rng.random() < 0.8, 'pretty': rng.random() < 0.5, 'ops': ops}


# ----------------------------------------------------------------------------------------------------------------------
# recording the file operations of the driver module

class Recorder:
    def __init__(self):
        self.events = []
        self.fd_path = {}
        self.active = False
        self.n_handles = 0
        self.off_thread = False
        # overlapping operations: when saves run on worker threads, hold the first one right before its first rename until
        # a second one has opened (truncated) its file, and hold the second one until the first operation has been
        # acknowledged - one legal schedule, chosen so that the run is reproducible
        self.concurrent = False
        self.lock = threading.Lock()
        self.creators = []
        self.stalled = False
        self.second_open = threading.Event()
        self.first_acked = threading.Event()

    def reset(self, concurrent=False):
        self.events = []
        self.concurrent = concurrent
        self.creators = []
        self.stalled = False
        self.second_open = threading.Event()
        self.first_acked = threading.Event()

    def add(self, *ev):
        if self.active:
            if threading.current_thread() is not threading.main_thread():
                self.off_thread = True
            self.events.append(ev)

    def _worker(self):
        return self.active and self.concurrent and threading.current_thread() is not threading.main_thread()

    def after_create(self):
        if not self._worker():
            return
        tid = threading.get_ident()
        with self.lock:
            if tid not in self.creators:
                self.creators.append(tid)
            second = len(self.creators) >= 2 and tid == self.creators[1]
        if second:
            self.second_open.set()
            self.first_acked.wait(0.5)

    def before_rename(self):
        if not self._worker():
            return
        with self.lock:
            first = bool(self.creators) and threading.get_ident() == self.creators[0] and not self.stalled
            if first:
                self.stalled = True
        if first:
            self.second_open.wait(0.5)


class _PathProxy:
    def __init__(self, rec):
        self._rec = rec

    def exists(self, p):
        self._rec.add('exists', p)
        return os.path.exists(p)

    def getsize(self, p):
        self._rec.add('stat', p)
        return os.path.getsize(p)

    def __getattr__(self, name):
        return getattr(os.path, name)


class _OsProxy:
    def __init__(self, rec):
        self._rec = rec
        self.path = _PathProxy(rec)

    def rename(self, a, b):
        self._rec.before_rename()
        try:
            r = os.rename(a, b)
        except Exception as e:
            self._rec.add('failed', 'rename', type(e).__name__)
            raise
        self._rec.add('rename', a, b)
        return r

    def replace(self, a, b):
        self._rec.before_rename()
        try:
            r = os.replace(a, b)
        except Exception as e:
            self._rec.add('failed', 'replace', type(e).__name__)
            raise
        self._rec.add('rename', a, b)
        return r

    def remove(self, p):
        r = os.remove(p)
        self._rec.add('remove', p)
        return r

    unlink = remove

    def fsync(self, fd):
        if hasattr(fd, 'fileno'):
            fd = fd.fileno()
        self._rec.add('fsync', self._rec.fd_path.get(fd, '?'))
        return os.fsync(fd)

    def stat(self, p, *a, **k):
        self._rec.add('stat', p)
        return os.stat(p, *a, **k)

    def __getattr__(self, name):
        if name in ('truncate', 'ftruncate', 'link', 'symlink', 'open', 'write', 'rmdir', 'mkdir', 'makedirs', 'renames'):
            self._rec.add('unsupported', 'os.' + name)
        return getattr(os, name)


class _FileProxy:
    def __init__(self, f, path, rec, hid):
        self._f, self._path, self._rec, self._hid = f, path, rec, hid

    def write(self, b):
        self._rec.add('write', self._path, bytes(b), self._hid)
        return self._f.write(b)

    def flush(self):
        self._rec.add('flush', self._path, self._hid)
        return self._f.flush()

    def fileno(self):
        fd = self._f.fileno()
        self._rec.fd_path[fd] = self._path
        return fd

    def close(self):
        if not self._f.closed:
            self._rec.add('close', self._path, self._hid)
        return self._f.close()

    def __enter__(self):
        return self

    def __exit__(self, *a):
        self.close()
        return False

    def __getattr__(self, name):
        self._rec.add('unsupported', 'file.' + name)
        return getattr(self._f, name)


def make_open(rec):
    def rec_open(path, mode='r', *a, **k):
        if mode in ('wb', 'w'):
            f = open(path, mode, *a, **k)
            with rec.lock:
                rec.n_handles += 1
                hid = rec.n_handles
            rec.add('create', path, hid)
            rec.after_create()
            return _FileProxy(f, path, rec, hid)
        if mode in ('rb', 'r'):
            return open(path, mode, *a, **k)
        rec.add('unsupported', 'open mode %r' % (mode,))
        return open(path, mode, *a, **k)
    return rec_open


# ----------------------------------------------------------------------------------------------------------------------
# crash states

MUTATING = ('rename', 'remove', 'create', 'write', 'flush', 'fsync', 'close')


def prefix_lengths(n, rng):
    if n <= FULL_ENUM_MAX:
        return list(range(n + 1))
    ks = set(range(EDGE + 1)) | set(range(n - EDGE, n + 1)) | {rng.randint(EDGE, n - EDGE) for _ in range(SAMPLE)}
    return sorted(ks)


def crash_states(fs0, events, rng):
    """-> (list of (point, files), final files, error or None).  files: dict basename -> bytes.
    point = {'event': i, 'call': text, 'prefix': k or None, 'acked': [...]}: the process dies before call i (prefix None), or
    inside write i after k bytes; the last entry is the state after the last call.  acked = the operations of an overlapping
    batch that had returned to their caller by then.
    Files are tracked as inodes: a rename moves the name, an open file object keeps writing to its inode.  Bytes written
    through a buffered file object are only known to be in the file after flush()/close(): until then any prefix of them
    may be (point['unflushed'] = how many bytes per open handle)."""
    inodes, names, handle, pend = {}, {}, {}, {}
    for n, b in fs0.items():
        inodes[len(inodes)] = b
        names[n] = len(inodes) - 1
    acked = []
    out = []

    def files_now(choice=None):
        extra = {}
        for h in sorted(pend):
            k = len(pend[h]) if choice is None else choice[h]
            extra[handle[h]] = extra.get(handle[h], b'') + pend[h][:k]
        return {n: inodes[i] + extra.get(i, b'') for n, i in names.items()}

    def emit(i, call, prefix=None):
        live = [h for h in sorted(pend) if pend[h]]
        if not live:
            out.append(({'event': i, 'call': call, 'prefix': prefix, 'acked': list(acked)}, files_now()))
            return
        lists = [prefix_lengths(len(pend[h]), rng) for h in live]
        if len(live) > 1:
            lists = [sorted(set(ks[:20] + ks[-20:])) for ks in lists]
        combos = [[]]
        for ks in lists:
            combos = [c + [k] for c in combos for k in ks]
        for c in combos:
            choice = dict(zip(live, c))
            out.append(({'event': i, 'call': call, 'prefix': prefix, 'acked': list(acked),
                         'unflushed': {str(h): k for h, k in choice.items()}}, files_now({**{h: 0 for h in pend}, **choice})))

    def commit(h):
        if pend.get(h):
            inodes[handle[h]] = inodes[handle[h]] + pend[h]
        pend.pop(h, None)

    i = -1
    for i, ev in enumerate(events):
        kind = ev[0]
        if kind == 'ack':
            acked.append(ev[1])
            continue
        if kind not in MUTATING:
            continue
        name = os.path.basename(ev[1])
        call = '%s(%s)' % (kind, ', '.join(os.path.basename(x) if isinstance(x, str) else '<%d bytes>' % len(x)
                                           for x in ev[1:] if not isinstance(x, int)))
        emit(i, call)
        if kind == 'rename':
            if name not in names:
                return out, files_now(), 'rename of a missing file in the recorded trace'
            names[os.path.basename(ev[2])] = names.pop(name)
        elif kind == 'remove':
            if name not in names:
                return out, files_now(), 'remove of a missing file in the recorded trace'
            del names[name]
        elif kind == 'create':
            if name in names:
                inodes[names[name]] = b''     # truncated in place: other handles on it keep pointing at it
            else:
                inodes[len(inodes)] = b''
                names[name] = len(inodes) - 1
            handle[ev[2]] = names[name]
        elif kind == 'write':
            h = ev[3]
            if h not in handle:
                return out, files_now(), 'write through an unknown handle in the recorded trace'
            if any(pend.get(x) for x in pend if x != h):
                pend[h] = pend.get(h, b'') + ev[2]
            else:
                # the usual case: label each state with the number of bytes of this write that reached the file
                before = len(pend.get(h, b''))
                pend[h] = pend.get(h, b'') + ev[2]
                for k in prefix_lengths(len(ev[2]), rng):
                    if k:
                        out.append(({'event': i, 'call': call, 'prefix': k, 'acked': list(acked)},
                                    files_now({x: (before + k if x == h else 0) for x in pend})))
        elif kind in ('flush', 'close'):
            commit(ev[2])
        # fsync: the python-level buffer is not flushed by os.fsync; nothing changes in a process-crash model
    emit(i + 1, 'return')
    for h in list(pend):
        commit(h)
    return out, files_now(), None


def read_dir(d):
    out = {}
    for n in sorted(os.listdir(d)):
        with open(os.path.join(d, n), 'rb') as f:
            out[n] = f.read()
    return out


def write_dir(d, files, current=None):
    """make directory d contain exactly `files` (current = what it is known to contain, to skip unchanged files)"""
    if current is None:
        current = read_dir(d) if os.path.isdir(d) else {}
        os.makedirs(d, exist_ok=True)
    for n in current:
        if n not in files:
            os.remove(os.path.join(d, n))
    for n, b in files.items():
        if current.get(n) != b:
            with open(os.path.join(d, n), 'wb') as f:
                f.write(b)


# ----------------------------------------------------------------------------------------------------------------------

class Runner:
    def __init__(self, ctx, res):
        from qtoggleserver.drivers.persist import json as jsonmod
        self.jsonmod = jsonmod
        self.ctx = ctx
        self.res = res
        self.cases = []          # per save: what goes to Coq
        self.case_meta = []
        self.payloads = []
        self.viol = {}           # key tuple -> violation (the one from the shortest history)
        self.viol_count = {}
        self.stats = {'histories': 0, 'saves': 0, 'recoveries': 0, 'crash_states': 0, 'restarts_mid_history': 0,
                      'prefix_checks': 0, 'intermediate_distinct': 0}
        self.dist = {}
        self.n_dir = 0
        logging.getLogger('qtoggleserver.drivers.persist.json').setLevel(logging.CRITICAL + 1)

    def bump(self, k, n=1):
        self.dist[k] = self.dist.get(k, 0) + n

    # -- the real driver ------------------------------------------------------------------------------------------
    def fresh(self, path, h):
        """start a fresh driver on the files; -> ('ok', store) | ('fail', exception class name)"""
        try:
            d = self.jsonmod.JSONDriver(path, pretty_format=h['pretty'], use_backup=h['use_backup'])
            return 'ok', d._data
        except Exception as e:   # start-up failure
            return 'fail', type(e).__name__

    def apply(self, driver, op):
        return asyncio.run(self.op_coro(driver, op))

    def op_coro(self, driver, op):
        async def go():
            if op['op'] == 'insert':
                return await driver.insert(op['coll'], dec(op['record']))
            if op['op'] == 'update':
                return await driver.update(op['coll'], dec(op['part']), dec(op['filt']))
            if op['op'] == 'replace':
                return await driver.replace(op['coll'], op['id'], dec(op['record']))
            if op['op'] == 'remove':
                return await driver.remove(op['coll'], dec(op['filt']))
            raise ValueError(op['op'])
        return go()

    def simulate(self, pre, ops, h):
        """the store after applying ops to pre, computed on an in-memory driver of the same class (no files)"""
        d = self.jsonmod.JSONDriver(None, pretty_format=h['pretty'], use_backup=h['use_backup'])
        d._data = copy.deepcopy(pre)
        for o in ops:
            try:
                asyncio.run(self.op_coro(d, o))
            except Exception:
                pass
        return d._data

    def run_batch(self, driver, op, h, rec, live, path, recd, rpath, done_ops, origin):
        """two operations in flight at once (asyncio.gather), then every crash state of the whole batch: a restart must see
        pre plus a set of the batch's operations that contains every operation acknowledged before the crash.
        -> False when the history cannot go on"""
        rng = self.ctx.rng
        ops = op['ops']
        fs0 = read_dir(live)
        st, pre = self.fresh(path, h)
        if st != 'ok':
            self.res['tie_failures'].append('files at rest do not load: %s' % pre)
            return False
        pre = copy.deepcopy(pre)
        # the saves of the batch write the driver's in-memory store, which may already differ from the files by collections
        # that exist but are empty (replace/update/remove of a missing record create the collection in memory and return
        # without saving): candidates are simulated from memory, and an empty collection is no difference
        mem0 = copy.deepcopy(driver._data)
        if norm(mem0) != norm(pre):
            self.res['tie_failures'].append({'note': 'in-memory store differs from the files at rest by more than empty collections',
                                             'origin': origin})
        cands = [(frozenset(), norm(pre))]
        for order in ([0], [1], [0, 1], [1, 0]):
            cands.append((frozenset(order), norm(self.simulate(mem0, [ops[j] for j in order], h))))

        async def one(j):
            r = await self.op_coro(driver, ops[j])
            rec.add('ack', j)
            rec.first_acked.set()
            return r

        async def both():
            return await asyncio.gather(one(0), one(1), return_exceptions=True)
        rec.reset(concurrent=True)
        rec.active = True
        try:
            results = asyncio.run(both())
        finally:
            rec.active = False
            rec.concurrent = False
        events = rec.events
        self.bump('op:concurrent')
        self.stats['saves'] += sum(1 for e in events if e[0] == 'create')
        hist = {'use_backup': h['use_backup'], 'pretty': h['pretty'], 'ops': list(done_ops)}
        errors = ['%s: %s' % (type(r).__name__, r) for r in results if isinstance(r, Exception)]
        fs1 = read_dir(live)
        post_mem = copy.deepcopy(driver._data)
        st, post = self.fresh(path, h)
        if errors or st != 'ok' or norm(post) != norm(post_mem):
            self.add_violation(
                ('overlapping operations: completed batch not readable', 'failure' if (st != 'ok' or errors) else 'other',
                 h['use_backup']),
                'after two overlapping operations completed a fresh driver does not hold the acknowledged data (%s)' % (
                    '; '.join(errors) or (post if st != 'ok' else 'different store')),
                hist, None, fs1, pre, post_mem, (st, post))
        if rec.off_thread:
            self.res['tie_failures'].append({'note': 'file operations of a save ran off the event-loop thread: operations are '
                                                     'not one synchronous step (model: memory change + save without suspension)',
                                             'origin': origin})
        states, _fs_end, _err = crash_states(fs0, events, rng)
        seen = {}
        cur = {}
        for point, files in states:
            self.stats['crash_states'] += 1
            key = tuple(sorted(files.items()))
            if key not in seen:
                write_dir(recd, files, None)
                seen[key] = self.fresh(rpath, h)
                self.stats['recoveries'] += 1
            st, got = seen[key]
            acked = set(point['acked'])
            gotn = norm(got) if st == 'ok' else None
            ok = st == 'ok' and any(done >= acked and gotn == store for done, store in cands)
            self.bump('batch:' + ('ok' if ok else 'bad'))
            if not ok:
                lost = st == 'ok' and any(gotn == store for done, store in cands)
                self.add_violation(
                    ('overlapping operations: ' + ('acknowledged operation lost' if lost else 'store is no combination of the operations'),
                     'failure' if st != 'ok' else 'other', h['use_backup']),
                    'two operations in flight; process dies before %s (operations already acknowledged: %s): a fresh driver %s' % (
                        point['call'], sorted(acked) or 'none',
                        'fails to start (%s)' % (got,) if st != 'ok' else
                        'holds a store without an acknowledged operation' if lost else 'holds a store that is no combination of them'),
                    hist, point, files, pre, post_mem, (st, got))
        return not errors and st != 'fail'

    # -- one history ----------------------------------------------------------------------------------------------
    def run_history(self, h, origin):
        jsonmod = self.jsonmod
        self.n_dir += 1
        base = os.path.join(self.ctx.workdir, 'fs%d' % self.n_dir)
        live, recd = os.path.join(base, 'live'), os.path.join(base, 'rec')
        os.makedirs(live)
        os.makedirs(recd)
        path, rpath = os.path.join(live, 'store.json'), os.path.join(recd, 'store.json')
        rng = self.ctx.rng
        rec = Recorder()
        saved_os, saved_open = jsonmod.os, jsonmod.__dict__.get('open')
        jsonmod.os, jsonmod.open = _OsProxy(rec), make_open(rec)
        self.stats['histories'] += 1
        try:
            st, _ = self.fresh(path, h)
            if st != 'ok':
                self.res['tie_failures'].append('driver does not start on an empty directory')
                return
            driver = jsonmod.JSONDriver(path, pretty_format=h['pretty'], use_backup=h['use_backup'])
            names = {'D': 'store.json', 'B': os.path.basename(driver._get_backup_file_path())}
            crash_pick = None
            done_ops = []
            rec_current = {}
            for op in h['ops']:
                if op['op'] == 'crash':
                    crash_pick = op['pick']
                    done_ops.append(op)
                    continue
                done_ops.append(op)
                if op['op'] == 'concurrent':
                    if not self.run_batch(driver, op, h, rec, live, path, recd, rpath, done_ops, origin):
                        return
                    rec_current = read_dir(recd)
                    continue
                fs0 = read_dir(live)
                st, pre = self.fresh(path, h)
                if st != 'ok':
                    self.res['tie_failures'].append('files at rest do not load: %s' % pre)
                    return
                pre = copy.deepcopy(pre)
                rec.reset()
                rec.active = True
                try:
                    self.apply(driver, op)
                    op_error = None
                except Exception as e:
                    op_error = '%s: %s' % (type(e).__name__, e)
                finally:
                    rec.active = False
                events = rec.events
                self.bump('op:' + op['op'])
                if not any(e[0] in MUTATING for e in events):
                    self.bump('op-without-save')
                    if op_error and 'Duplicate' not in op_error:
                        self.res['tie_failures'].append('operation failed: ' + op_error)
                    continue
                self.stats['saves'] += 1
                n_saves = sum(1 for e in events if e[0] == 'create')
                if n_saves != 1 or rec.off_thread:
                    self.res['tie_failures'].append({
                        'note': 'one %s performed %d saves%s (model: an operation = in-memory change + exactly one synchronous '
                                'save)' % (op['op'], n_saves, ', off the event-loop thread' if rec.off_thread else ''),
                        'origin': origin, 'op': enc(op)})
                if len(events) and n_saves > 1:
                    self.bump('op-with-several-saves')
                fs1 = read_dir(live)
                post_mem = copy.deepcopy(driver._data)
                st, post = self.fresh(path, h)
                hist = {'use_backup': h['use_backup'], 'pretty': h['pretty'], 'ops': list(done_ops)}
                if op_error or st != 'ok' or post != post_mem:
                    self.add_violation(
                        ('completed-save-not-readable', 'failure' if st != 'ok' else 'other', h['use_backup']),
                        'after a completed %s a fresh driver does not hold the acknowledged data (%s)' % (
                            op['op'], op_error or (post if st != 'ok' else 'different store')),
                        hist, None, fs1, pre, post_mem, (st, post))
                    return
                states, fs_end, err = crash_states(fs0, events, rng)
                unsup = [e for e in events if e[0] == 'unsupported']
                if err or unsup or fs_end != fs1:
                    self.res['tie_failures'].append({
                        'note': 'recorded file operations do not reproduce the directory the real save left behind',
                        'error': err, 'unsupported': [e[1] for e in unsup][:5], 'origin': origin,
                        'calls': [s[0]['call'] for s in states if s[0]['prefix'] is None][:20]})
                # which file is which
                others = sorted({n for _, files in states for n in files} - set(names.values()))
                if len(others) > 1:
                    self.res['tie_failures'].append('more than one file besides data and backup: %r' % (others,))
                fname = {names['D']: 'D', names['B']: 'B'}
                for n in others:
                    fname[n] = 'T'
                payload = b''.join(e[2] for e in events if e[0] == 'write')
                self.bump('payload<=%d' % (64 if len(payload) <= 64 else 400 if len(payload) <= 400 else 4000 if len(payload) <= 4000
                                           else 10 ** 6))
                if n_saves == 1:
                    self.check_premises(payload, post, h, rng, origin)
                # initial abstract state
                init, preblob = self.initial(fs0, fname, h['use_backup'], pre)
                # recover from every crash state
                seen = {}
                obs = {}
                first_save = not fs0
                for point, files in states:
                    self.stats['crash_states'] += 1
                    key = tuple(sorted(files.items()))
                    if key in seen:
                        outcome = seen[key]
                    else:
                        write_dir(recd, files, rec_current)
                        rec_current = dict(files)
                        st, got = self.fresh(rpath, h)
                        self.stats['recoveries'] += 1
                        outcome = 16 if st != 'ok' else ((1 if got == pre else 0) | (2 if got == post else 0)
                                                          | (4 if got == {} else 0))
                        if outcome == 0:
                            outcome = 8
                        seen[key] = outcome
                        if files != fs0 and files != fs1:
                            self.stats['intermediate_distinct'] += 1
                        if not (outcome & 3):
                            self.report_crash(hist, point, files, fname, pre, post, st, got, outcome, first_save, events)
                    masks = self.masks(files, fname, preblob, payload)
                    obs.setdefault((masks, outcome), point)
                    self.bump('outcome:%s' % ('+'.join(n for b, n in ((1, 'pre'), (2, 'post'), (4, 'empty'), (8, 'other'),
                                                                  (16, 'failure')) if outcome & b)))
                self.cases.append((h['use_backup'], init, self.trace_codes(events, fname), sorted(obs)))
                self.case_meta.append({'origin': origin, 'op_index': len(done_ops) - 1, 'op': op['op'],
                                       'calls': [s[0]['call'] for s in states if s[0]['prefix'] is None],
                                       'init': init, 'observed': {str(k): v for k, v in obs.items()}})
                if len(payload) <= 600 and len(self.payloads) < 40:
                    self.payloads.append(payload)
                if len(self.res['samples']) < 12 and self.stats['saves'] % 7 == 1:
                    self.res['samples'].append({
                        'origin': origin, 'op': enc(op), 'use_backup': h['use_backup'], 'payload_bytes': len(payload),
                        'calls': self.case_meta[-1]['calls'], 'crash_states': len(states), 'distinct_states': len(seen),
                        'outcomes': sorted(set(seen.values()))})
                # crash for real here, restart, and go on with the history
                if crash_pick is not None:
                    point, files = states[min(len(states) - 1, int(crash_pick * len(states)))]
                    crash_pick = None
                    write_dir(live, files)
                    st, got = self.fresh(path, h)
                    if st != 'ok':
                        return    # already reported as a violation above
                    driver = jsonmod.JSONDriver(path, pretty_format=h['pretty'], use_backup=h['use_backup'])
                    self.stats['restarts_mid_history'] += 1
                    done_ops.append({'op': 'restart-after-crash', 'point': point})
        finally:
            jsonmod.os = saved_os
            if saved_open is None:
                del jsonmod.open
            else:
                jsonmod.open = saved_open
            shutil.rmtree(base, ignore_errors=True)

    # -- helpers --------------------------------------------------------------------------------------------------
    def initial(self, fs0, fname, ub, pre):
        """abstract state before the save (codes of C08/Run.v) and the bytes that hold pre"""
        from qtoggleserver.utils import json as json_utils
        by = {fname.get(n, '?'): b for n, b in fs0.items()}

        def holds_pre(b):
            try:
                return self.jsonmod.JSONDriver._index(json_utils.loads(b, extra_types=json_utils.EXTRA_TYPES_EXTENDED)) == pre
            except Exception:
                return False
        hold = None
        if 'D' in by and by['D'] and holds_pre(by['D']):
            hold = 'D'
        elif ub and 'B' in by and holds_pre(by['B']):
            hold = 'B'
        code = {}
        for f in 'DBT':
            code[f] = 0 if f not in by else 2 if f == hold else 1 if by[f] == b'' else 5
        return (code['D'], code['B'], code['T']), (by[hold] if hold else None)

    def masks(self, files, fname, preblob, payload):
        by = {fname.get(n, '?'): b for n, b in files.items()}
        out = []
        for f in 'DBT':
            if f not in by:
                out.append(0)
                continue
            b = by[f]
            m = (1 if b == b'' else 0) | (2 if preblob is not None and b == preblob else 0) | (4 if b == payload else 0)
            if b and len(b) < len(payload) and payload.startswith(b):
                m |= 8
            out.append(m or 16)
        return tuple(out)

    def trace_codes(self, events, fname):
        kinds = {'rename': 1, 'remove': 2, 'create': 3, 'write': 4, 'flush': 5, 'fsync': 6, 'close': 7}
        fc = {'D': 1, 'B': 2, 'T': 3}
        out = []
        for e in events:
            if e[0] not in kinds:
                continue
            a = fc.get(fname.get(os.path.basename(e[1])), 9)
            b = fc.get(fname.get(os.path.basename(e[2])), 9) if e[0] == 'rename' else 0
            out.append(kinds[e[0]] * 100 + a * 10 + b)
        return out

    def check_premises(self, payload, post, h, rng, origin):
        """the serialisation premises of the theorems, on the real decoder"""
        from qtoggleserver.utils import json as json_utils
        bad = []
        try:
            back = self.jsonmod.JSONDriver._index(json_utils.loads(payload, extra_types=json_utils.EXTRA_TYPES_EXTENDED))
            if back != post:
                bad.append('loads(payload) differs from the saved store')
        except Exception as e:
            bad.append('payload does not parse: %s' % e)
        for k in prefix_lengths(len(payload), rng):
            if k == len(payload):
                continue
            self.stats['prefix_checks'] += 1
            try:
                json_utils.loads(payload[:k], extra_types=json_utils.EXTRA_TYPES_EXTENDED)
                bad.append('proper prefix of %d bytes parses' % k)
                break
            except Exception:
                pass
        for b in bad:
            self.res['tie_failures'].append({'note': 'premise of the theorems fails on the real decoder: ' + b, 'origin': origin})

    def add_violation(self, key, what, hist, point, files, pre, post, observed):
        k = tuple(key)
        self.viol_count[k] = self.viol_count.get(k, 0) + 1
        size = (len(hist['ops']), sum(len(b) for b in files.values()))
        if k in self.viol and self.viol[k][0] <= size:
            return
        self.viol[k] = (size, {
            'key': {'crash_point': key[0], 'outcome': key[1], 'use_backup': key[2]},
            'what': what,
            'case': {'history': enc(hist), 'crash': point,
                     'files_at_crash': {n: b.decode('utf-8', 'replace') for n, b in files.items()}},
            'expected': {'either_pre': summarize(pre), 'or_post': summarize(post)},
            'observed': {'status': observed[0], 'store': summarize(observed[1]) if observed[0] == 'ok' else observed[1]},
        })

    def report_crash(self, hist, point, files, fname, pre, post, st, got, outcome, first_save, events):
        # crash point class: the last call that completed before the process died (file roles, not names)
        role = {'D': 'data', 'B': 'backup', 'T': 'temp'}
        if point['prefix'] is not None:
            ev = events[point['event']]
            cp = 'during write(%s)' % role.get(fname.get(os.path.basename(ev[1])), '?')
        else:
            prev = [e for e in events[:point['event']] if e[0] in MUTATING]
            if not prev:
                cp = 'before the first call'
            else:
                ev = prev[-1]
                cp = 'after %s(%s)' % (ev[0], '->'.join(role.get(fname.get(os.path.basename(x)), '?')
                                                          for x in ev[1:] if isinstance(x, str)))
        kind = 'failure' if outcome & 16 else 'empty' if outcome & 4 else 'other'
        if first_save:
            cp += ' [first save]'
        what = ('process dies %s%s in %s: a fresh driver %s; expected exactly the pre- or the post-operation store' % (
            cp, '' if point['prefix'] is None else ' after %d bytes' % point['prefix'],
            hist['ops'][-1]['op'],
            {'failure': 'fails to start (%s)' % (got,), 'empty': 'starts with an EMPTY store',
             'other': 'starts with a store that is neither'}[kind]))
        self.add_violation((cp, kind, hist['use_backup']), what, hist, point, files, pre, post, (st, got))

    # -- Coq side ---------------------------------------------------------------------------------------------------
    def evaluate_model(self):
        res, ctx = self.res, self.ctx
        if not self.cases:
            return
        if not ctx.model_ok:
            res['tie_failures'].append('model not built; recorded saves not compared with it')
            return
        shards, metas = [], []
        for i in range(0, len(self.cases), 500):
            chunk = self.cases[i:i + 500]
            rows = ';\n  '.join(
                '(%s, (%d, %d, %d), %s, %s)' % (
                    coq.boolean(ub), init[0], init[1], init[2], coq.zlist(tr),
                    coq.lst(obs, lambda o: '((%d, %d, %d), %d)' % (o[0][0], o[0][1], o[0][2], o[1])))
                for ub, init, tr, obs in chunk)
            pl = self.payloads[:10] if i == 0 else []
            shards.append('Definition cases : list case := [\n  %s].\nDefinition payloads : list bytes := %s.\n' % (
                rows, coq.lst(pl, lambda b: coq.zlist(list(b)))))
            metas.append((self.case_meta[i:i + 500], pl))
        outs = coq.eval_shards(ctx.workdir, 'c08cases', HEADER, shards,
                               ['bad_trace cases', 'bad_states cases', 'bad_load cases', 'bad_spec cases', 'bad_frame payloads'], jobs=2)
        n_spec = 0
        for (rc, lists, err), (meta, pl) in zip(outs, metas):
            if rc != 0 or len(lists) != 5:
                res['tie_failures'].append('coqc failed on a case shard: %s' % err[-600:])
                continue
            for name, idx in zip(('system-call trace differs from save_prog', 'crash states differ from crash_states save_prog',
                                  'load outcome differs from load_prog'), lists[:3]):
                for j in idx[:3]:
                    res['tie_failures'].append(dict(meta[j], note='model differs from implementation: ' + name))
            n_spec += len(lists[3])
            for j in lists[4]:
                res['tie_failures'].append('payload is not closed exactly at its end (framing premise): %r' % pl[j][:80])
        res['extra']['coq_spec_oracle_flagged_saves'] = n_spec
        single = [k for k in self.viol_count if not k[0].startswith('overlapping operations')]   # batches have no Coq case
        if bool(n_spec) != bool(single) and not any(k[0] == 'completed-save-not-readable' for k in single):
            res['tie_failures'].append('python and Coq spec oracles disagree (%d saves flagged by Coq, %d violation classes)' % (
                n_spec, len(single)))

    def finish(self):
        res = self.res
        self.evaluate_model()
        res['evaluations'] += self.stats['recoveries']
        res['distinct_nontrivial'] += self.stats['intermediate_distinct']
        for k, v in self.dist.items():
            res['distribution'][k] = res['distribution'].get(k, 0) + v
        for k, v in self.stats.items():
            res['distribution'][k] = res['distribution'].get(k, 0) + v
        for k, (_size, v) in sorted(self.viol.items(), key=lambda kv: kv[1][0]):
            v['what'] += ' [%d crash states of this class]' % self.viol_count[k]
            res['violations'].append(v)


HEADER = 'From QT Require Import C08.Run.\nOpen Scope Z_scope.\n'


def norm(store):
    """a store without its empty collections (an empty collection cannot be told from a missing one through the driver)"""
    return {c: recs for c, recs in store.items() if recs}


def summarize(store):
    try:
        return {c: sorted(str(i) for i in recs) for c, recs in store.items()}
    except Exception:
        return repr(store)[:200]


def load_corpus():
    d = os.path.join(coq.VERIF, 'corpus', ID)
    out = []
    if os.path.isdir(d):
        for n in sorted(os.listdir(d)):
            if n.endswith('.json'):
                with open(os.path.join(d, n)) as f:
                    out.append((n, json.load(f)))
    return out


def history_of(doc):
    """accepts a corpus file, or a replay file written by run.py (case.history)"""
    if 'ops' in doc:
        return doc
    return doc['case']['history']


def run(ctx, res, n):
    r = Runner(ctx, res)
    t0 = time.time()
    if ctx.replay:
        with open(ctx.replay) as f:
            h = history_of(json.load(f))
        h = dict(h, ops=[o for o in h['ops'] if o['op'] != 'restart-after-crash'])
        r.run_history(h, 'replay:' + os.path.basename(ctx.replay))
    else:
        for name, doc in load_corpus():
            r.run_history(history_of(doc), 'corpus:' + name)
        for i in range(n):
            r.run_history(gen_history(ctx.rng), 'generated:%d' % i)
    res['extra']['impl_wall_s'] = round(time.time() - t0, 2)
    r.finish()


def check(ctx, res):
    res['rule'] = (
        'corpus histories, then random histories of 2-8 insert/update/replace/remove operations (two collections, nested '
        'values, strings with quotes/braces/non-ASCII, datetimes; 80%% use_backup, 50%% pretty; 12%% of the operations are '
        'followed by a real crash at a random crash state + restart, after which the history goes on).  For every save: every '
        'crash state = before each file-system call, after every byte prefix of each write (all prefixes up to %d bytes, '
        'else the first/last %d and %d random ones), after the last call.  evaluations = fresh driver starts on distinct '
        'crash states; distinct_nontrivial = those whose files differ from both the pre-save and the post-save files'
        % (FULL_ENUM_MAX, EDGE, SAMPLE))
    res['exhaustive'] = False
    run(ctx, res, ctx.n(30, 1000))


def search(ctx, res):
    """the proof or the tie broke and check() found nothing: more histories"""
    run(ctx, res, ctx.n(150, 3000))


REPLAY_HELP = (
    'bin/check C08 --replay <this file>  (re-runs case.history on the real JSONDriver and enumerates every crash state);  by '
    'hand: put case.files_at_crash into an empty directory and construct '
    'qtoggleserver.drivers.persist.json.JSONDriver("<dir>/store.json", use_backup=<case.history.use_backup>)')

LEVEL_TEXT = (
    'Coq theorems over a model of a three-file file system (data, backup, temporary file) and of the JSON driver\'s save '
    'procedure and load decision tree, both regenerated from json.py on every run: for arbitrary store contents, every crash '
    'point of the save (before/after every file operation, after every byte prefix of every write) and both use_backup '
    'settings, a restart loads exactly the pre- or the post-operation store and the files again satisfy the invariant, so the '
    'result chains over whole histories of saves, crashes and restarts starting from no files; a completed save is readable. '
    'Proved once for all programs by a sound abstract interpretation (simulation proof by induction on the op list and on the '
    'load tree); the regenerated program is then decided by vm_compute.  The real driver is run on random histories with every '
    'crash state materialised: spec oracle (pre or post) and model correspondence (system calls, crash states, load outcomes).  '
    'Operation level: the control skeleton of every saving method (insert/update/replace/remove) is regenerated as an operation '
    'tree; every path performs at most one save, as its last step, so a multi-record update/remove is all-or-nothing '
    '(C08_operation_atomic/_durable); overlapping requests are run on the real driver with every crash state and '
    'acknowledgement tracking.'
)
LEVEL_NOTE = (
    'Trusted: Coq kernel incl. vm_compute; translator saveprog.py (closed list of statement shapes, exception routing); the '
    'recording proxies and crash-state reconstruction of the harness (cross-checked against the real directory after each '
    'save).  Modelled, not verified: atomic rename/replace, writes reach the file as byte prefixes, completed calls are not '
    'reordered or undone (process crash; power loss with unflushed caches is outside), CPython json.  Serialisation premises '
    '(round trip, no proper prefix parses) are explicit premises of the theorems, proved for framed decoders and tested on '
    'every payload prefix.  The positive theorems hold for the repaired driver (fixes/C08-atomic-save.diff); on the unrepaired '
    'tree the decision procedure fails and the check reports the crash points (refuted in History/C08Old.v).  No axioms.'
)
TECHNIQUE = ('Coq proof by verified abstract interpretation (reflection) of a program regenerated by an ast translator; '
             'exhaustive crash-state replay on the real driver as correspondence and spec oracle')
