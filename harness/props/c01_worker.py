"""C01 worker: runs scenarios against the real hub code on a virtual clock (own process: time.time is patched).

stdin: JSON list of scenarios; stdout: JSON list of results.
scenario = {'ports': [{'value': v, 'read_ms': r, 'write_ms': w}], 'script': [[t_ms, cmd, ...]], 'tick_ms': 50, 'settle_ms': 3000}
commands: ['source', p, v]  ['expr', q, text]  ['enable', p]  ['disable', p]  ['twrite', q, text]
result = {'trace': [...LTS events...], 'final': [[last, driver] per port], 'exprs': [text or None], 'quiescent': bool,
          'log': [...], 'error': str or None}
"""
import asyncio
import json
import sys


def main():
    scenarios = json.load(sys.stdin)
    out = []
    for sc in scenarios:
        try:
            out.append(run_scenario(sc))
        except Exception as e:  # noqa
            import traceback
            out.append({'error': traceback.format_exc()[-1500:]})
    json.dump(out, sys.stdout)


def run_scenario(sc):
    from harness.common import vloop
    return vloop.run(_scenario(sc))


async def _scenario(sc):
    from harness.common import vloop
    from qtoggleserver.conf import settings
    settings.persist.driver = 'qtoggleserver.drivers.persist.JSONDriver'
    settings.persist.file_path = None
    settings.core.tick_interval = sc.get('tick_ms', 50)
    from qtoggleserver.core import expressions  # noqa: F401 (import order)
    from qtoggleserver.core import main, ports as core_ports

    trace = []
    log = []
    disabled_busy = []     # expression ports disabled while an evaluation / write of theirs was pending

    class HPort(core_ports.Port):
        TYPE = core_ports.TYPE_NUMBER
        INTEGER = True
        WRITABLE = True

        def __init__(self, port_id, value, read_ms, write_ms, enable_ms=0):
            super().__init__(port_id)
            self.enable_ms = enable_ms
            self.idx = int(port_id[1:])
            self.store = value
            self.read_ms = read_ms
            self.write_ms = write_ms
            self.set_last_read_value(value)

        async def handle_enable(self):
            # a driver that needs time to bring its device up; the port counts as enabled from the start of enable()
            if self.enable_ms:
                await asyncio.sleep(self.enable_ms / 1000.0)

        async def read_value(self):
            if self.read_ms:
                await asyncio.sleep(self.read_ms / 1000.0)
            return self.store

        async def write_value(self, value):
            if self.write_ms:
                await asyncio.sleep(self.write_ms / 1000.0)
            self.store = value
            log.append([vloop.vtime_ms(), 'driver-write', self.idx, value])
            trace.append(['WriteEnd', self.idx])

    # reset module state
    core_ports._ports_by_id.clear()
    main._force_eval_expression_ports.clear()
    main._force_eval_all_expressions = False
    main._ports_with_read_error = type(main._ports_with_read_error)(main._PORT_READ_ERROR_RETRY_INTERVAL)
    main._updating_enabled = True
    main._last_time = 0

    specs = sc['ports']
    ports = await core_ports.load([
        {'driver': HPort, 'port_id': 'p%d' % i, 'value': s['value'], 'read_ms': s.get('read_ms', 0), 'write_ms': s.get('write_ms', 0),
         'enable_ms': s.get('enable_ms', 0)}
        for i, s in enumerate(specs)], trigger_add=False)
    for p in ports:
        await p.enable()
    main._force_eval_expression_ports.clear()

    # ---- instrumentation (from outside; no repo hooks)
    class LoggingLock(asyncio.Lock):
        async def acquire(self):
            r = await super().acquire()
            trace.append(['PassBegin'])
            return r
    main._update_lock = LoggingLock()

    orig_read = core_ports.BasePort.read_transformed_value

    async def read_wrapper(self):
        v = await orig_read(self)
        trace.append(['PassRead', self.idx])
        return v
    core_ports.BasePort.read_transformed_value = read_wrapper

    orig_hvc = main.handle_value_changes

    clean_passes = [0]     # consecutive completed passes that saw no value change and left nothing pending

    def hub_busy():
        busy = any(p.has_pending_eval() or p.is_writing() or p._write_value_queue.qsize() for p in ports)
        busy = busy or bool(main._force_eval_expression_ports) or main._force_eval_all_expressions
        return busy or any(p.is_enabled() and p.store != p.get_last_read_value() for p in ports)

    async def hvc_wrapper(changed_set, value_pairs, now):
        saw_change = any(isinstance(x, core_ports.BasePort) for x in changed_set)
        r = await orig_hvc(changed_set, value_pairs, now)
        trace.append(['PassEnd'])
        clean_passes[0] = 0 if (saw_change or hub_busy()) else clean_passes[0] + 1
        return r
    main.handle_value_changes = hvc_wrapper

    orig_eaw = core_ports.BasePort._eval_and_write
    orig_tw = core_ports.BasePort.transform_and_write_value
    evaluating = {}

    async def eaw_wrapper(self, context):
        evaluating[self.idx] = True
        try:
            return await orig_eaw(self, context)
        finally:
            if evaluating.pop(self.idx, None):
                trace.append(['Eval', self.idx])          # returned without deciding to write

    async def tw_wrapper(self, value):
        if evaluating.pop(self.idx, None):
            trace.append(['Eval', self.idx])              # decided to write: the comparison has just been made
        return await orig_tw(self, value)
    core_ports.BasePort._eval_and_write = eaw_wrapper
    core_ports.BasePort.transform_and_write_value = tw_wrapper

    orig_ase = core_ports.BasePort.attr_set_expression

    async def ase_wrapper(self, sexpression):
        r = await orig_ase(self, sexpression)        # no suspension between the assignment and the return
        trace.append(['SetExpr', self.idx, str(self._expression) if self._expression else None])
        return r
    core_ports.BasePort.attr_set_expression = ase_wrapper

    main._ready = True
    loop_task = asyncio.get_running_loop().create_task(main.update_loop())
    error = None
    try:
        t0 = vloop.vtime_ms()
        for cmd in sorted(sc['script'], key=lambda c: c[0]):
            wait = cmd[0] - (vloop.vtime_ms() - t0)
            if wait > 0:
                await asyncio.sleep(wait / 1000.0)
            kind = cmd[1]
            if kind == 'source':
                ports[cmd[2]].store = cmd[3]
                trace.append(['SourceSet', cmd[2], cmd[3]])
            elif kind == 'expr':
                try:
                    await ports[cmd[2]].set_attr('expression', cmd[3])
                except Exception as e:
                    log.append([vloop.vtime_ms(), 'expr-rejected', cmd[2], cmd[3], str(e)[:100]])
            elif kind == 'twrite':
                await ports[cmd[2]].set_attr('transform_write', cmd[3])
                trace.append(['Other', 'twrite', cmd[2]])
            elif kind == 'enable':
                # enable() marks the port enabled and requests the evaluations before its first suspension point
                trace.append(['Enable', cmd[2]])
                await ports[cmd[2]].enable()
            elif kind == 'disable':
                pp = ports[cmd[2]]
                busy = bool(pp.get_expression()) and (pp.has_pending_eval() or pp.is_writing() or pp._write_value_queue.qsize() > 0
                                                     or pp.store != pp.get_last_read_value())
                if busy:
                    disabled_busy.append(cmd[2])
                await pp.disable()
                trace.append(['Disable', cmd[2]])
            log.append([vloop.vtime_ms()] + cmd[1:])
        # let the hub settle: quiescent = two consecutive COMPLETE polling passes that saw no value change and left nothing
        # pending (a pass over slow drivers takes many ticks: "nothing pending for a while" is not enough, the change a pass has
        # already read is only acted upon when that pass ends), and nothing pending now
        clean_passes[0] = 0
        deadline = vloop.vtime_ms() + sc.get('settle_ms', 4000)
        while (clean_passes[0] < 2 or hub_busy()) and vloop.vtime_ms() < deadline:
            await asyncio.sleep(settings.core.tick_interval / 1000.0)
        quiescent = clean_passes[0] >= 2 and not hub_busy()
    except Exception as e:  # noqa
        import traceback
        error = traceback.format_exc()[-1500:]
        quiescent = False
    finally:
        final_trace = list(trace)          # what happens during teardown (cancelled pass) is not part of the run
        final_state = [[p.get_last_read_value(), p.store] for p in ports]
        loop_task.cancel()
        try:
            await loop_task
        except BaseException:
            pass
        core_ports.BasePort.read_transformed_value = orig_read
        core_ports.BasePort._eval_and_write = orig_eaw
        core_ports.BasePort.transform_and_write_value = orig_tw
        core_ports.BasePort.attr_set_expression = orig_ase
        main.handle_value_changes = orig_hvc
        main._ready = False
    exprs = []
    for p in ports:
        e = p.get_expression()
        exprs.append(str(e) if e else None)
    # ports with a write transform: what the driver should hold = transform(coerce(expression value)), computed with the
    # port's own expression objects (only used to report the known finding about non-inverse write transforms)
    tw_mismatch = []
    if quiescent:
        for p in ports:
            if p.get_expression() and p._transform_write and p.is_enabled():
                try:
                    vals = {q.get_id(): q.get_last_read_value() for q in ports if q.is_enabled()}
                    v = await p.adapt_value_type(await p.get_expression().eval(p._make_eval_context(vals)))
                    w = await p.adapt_value_type(await p._transform_write.eval(p._make_eval_context({p.get_id(): v})))
                    if w != p.store:
                        tw_mismatch.append([p.idx, w, p.store])
                except Exception:
                    pass
    res = {
        'tw_mismatch': tw_mismatch, 'disabled_busy': disabled_busy,
        'trace': final_trace, 'final': final_state, 'exprs': exprs,
        'enabled': [p.is_enabled() for p in ports],
        'twrite': [str(p._transform_write) if p._transform_write else None for p in ports],
        'quiescent': quiescent, 'log': log[-60:], 'error': error,
    }
    for p in list(ports):
        try:
            await p.remove(persisted_data=False)
        except Exception:
            pass
    core_ports._ports_by_id.clear()
    return res


if __name__ == '__main__':
    main()
