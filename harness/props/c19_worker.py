"""C19 worker: runs sequence scenarios on the REAL port / API code under the virtual clock (harness/common/vloop.py).

Run as a separate process (`python -m harness.props.c19_worker`, scenarios as a JSON list on stdin, observations as a JSON
list on stdout) because vloop patches `time.time` globally.

Scenario (JSON):
  {'port': {'enabled': b, 'writable': b, 'expr': b, 'initial': value the read-back port shows before the first write | null},
   'seq':  {'values': [...], 'delays': [...], 'repeat': r},            first request, sent at virtual time 0
   'cmd':  {'kind': 'none'|'seq'|'expr'|'noexpr'|'disable', 'at': ms, 'pos': k, 'values':…, 'delays':…, 'repeat':…},
   'dlat': ms the driver's handle_disable() hook takes (optional, default 0),
   'wlat': ms the driver's write_value() takes (optional, default 0),
   'cmd2': optional second command {'kind': 'seq'|'disable', ...} started in the same loop iteration right after `cmd`,
   'horizon': ms}

`at`/`pos` place the command in the event-loop order: it runs at virtual time `at`, after exactly `pos` steps of the sequence
task that are due at that same instant (pos = 0: before the task's wake-up that is due at `at`; 1: right after that step, in
the same batch of ready callbacks; k: after k steps).  This is realised without touching the code under test: the driver
looks up the pending asyncio timer of the sequence's sleep and arms its own timer 0.2 ns before / after it (both are then due
in the same `_run_once` batch, in that order), followed by `pos-1` bare `asyncio.sleep(0)`.

Observation: {'log': [[kind, ms, val, active], ...], 'writes': [[ms, value], ...], 'notes': [...]}
  kind 0 P  first request returned (val = outcome code)       3 C  command starts
       1 S  transform_and_write_value called (val = value)    4 D  command returned (val = outcome code)
       2 F  _on_sequence_finish ran                           5 E  horizon reached
       6 D2 the concurrent second command returned
  active = `port._sequence is not None` right after the event.
Outcome codes: 0 ok, 1 port-disabled, 2 read-only-port, 3 port-with-expression, 4 invalid-field delays, 5 CancelledError,
6 invalid-field values, 9 anything else.
"""
import asyncio
import json
import logging
import sys

from harness.common import vloop

P, S, F, C, D, E, D2 = 0, 1, 2, 3, 4, 5, 6
EXPR_VALUES = (7777, 9999)
TIE_EPS = 2e-10          # seconds; asyncio's clock resolution (1e-9) makes timers this close fire in the same batch


class Spinning(RuntimeError):
    pass


SPIN_LIMIT = 20000      # loop iterations at one virtual instant (the largest legitimate burst needs ~1500)


class CountingLoop(vloop.VLoop):
    iteration = 0
    _same = 0
    _last_clock = -1.0

    def _run_once(self):
        self.iteration += 1
        if self.time() == self._last_clock:
            self._same += 1
            if self._same > SPIN_LIMIT:
                self._same = 0
                raise Spinning('the event loop spins at virtual time %.3f s without letting time advance' % self.time())
        else:
            self._last_clock = self.time()
            self._same = 0
        return super()._run_once()


class Impl:
    def __init__(self):
        logging.getLogger('qtoggleserver').setLevel(logging.CRITICAL + 1)
        logging.getLogger('asyncio').setLevel(logging.CRITICAL + 1)
        from qtoggleserver.conf import settings
        settings.persist.driver = 'qtoggleserver.drivers.persist.JSONDriver'
        settings.persist.file_path = None
        from qtoggleserver import persist  # noqa: F401
        from qtoggleserver.core import expressions  # noqa: F401  (import order, as in the repo's conftest)
        from qtoggleserver.core import api as core_api
        from qtoggleserver.core import main as core_main
        from qtoggleserver.core import ports as core_ports
        from qtoggleserver.core import sequences as core_sequences
        from qtoggleserver.core.api.funcs import ports as api_ports
        try:
            from tests.qtoggleserver.mock.api import MockAPIRequest
        except Exception:  # noqa: BLE001
            MockAPIRequest = None
        self.core_api, self.core_ports, self.api_ports = core_api, core_ports, api_ports
        self.core_sequences = core_sequences
        self.core_main = core_main
        self.MockAPIRequest = MockAPIRequest
        self.counter = 0
        self.current = None

        class RecPort(core_ports.Port):
            TYPE = core_ports.TYPE_NUMBER

            # a read-back port (relay / GPIO output): reads what was written last; `initial` until the first write
            def __init__(self, port_id, initial=None):
                super().__init__(port_id)
                self.writes = []
                self.state = initial
                self.disable_latency = 0
                self.write_latency = 0

            async def read_value(self):
                if self.state is None:
                    raise core_ports.SkipRead()
                return self.state

            # scripted write latency (0 in most scenarios): a driver slower than the sequence lets the write queue fill
            async def write_value(self, value):
                if self.write_latency > 0:
                    await asyncio.sleep(self.write_latency / 1000.0)
                self.writes.append([vloop.vtime_ms(), value])
                self.state = value

            # a driver whose disable hook really awaits (scripted latency, 0 in most scenarios)
            async def handle_disable(self):
                if self.disable_latency > 0:
                    await asyncio.sleep(self.disable_latency / 1000.0)

        self.RecPort = RecPort

    def request(self, path, body):
        headers = {'Content-Type': 'application/json'}
        core_api = self.core_api
        if self.MockAPIRequest is not None:
            return self.MockAPIRequest('PATCH', path, body=body, headers=headers, access_level=core_api.ACCESS_LEVEL_NORMAL)
        from unittest import mock
        from qtoggleserver.web.handlers import APIHandler
        handler = APIHandler(application=mock.MagicMock(),
                             request=mock.MagicMock(headers=headers, method='PATCH', path=path, query={}, body=body))
        handler.access_level = core_api.ACCESS_LEVEL_NORMAL
        return core_api.APIRequest(handler)

    def classify(self, exc):
        core_api = self.core_api
        if exc is None:
            return 0
        if isinstance(exc, asyncio.CancelledError):
            return 5
        if isinstance(exc, core_api.APIError):
            key = (exc.status, exc.code)
            field = (getattr(exc, 'params', None) or {}).get('field')
            if key == (400, 'port-disabled'):
                return 1
            if key == (400, 'read-only-port'):
                return 2
            if key == (400, 'port-with-expression'):
                return 3
            if key == (400, 'invalid-field') and field == 'delays':
                return 4
            if key == (400, 'invalid-field') and field == 'values':
                return 6
        return 9

    async def scenario(self, sc):
        loop = asyncio.get_running_loop()
        core_ports = self.core_ports
        self.counter += 1
        pid = 'c19p%d' % self.counter
        cls = type('RecPort%d' % self.counter, (self.RecPort,), {'WRITABLE': bool(sc['port']['writable'])})
        self.core_main._update_lock = None      # an asyncio.Lock of the previous scenario's loop
        port = (await core_ports.load([{'driver': cls, 'port_id': pid, 'initial': sc['port'].get('initial')}]))[0]
        port.disable_latency = sc.get('dlat', 0)
        port.write_latency = sc.get('wlat', 0)
        log, notes = [], []
        self.current = (log, notes, port)       # what was observed so far, should the scenario have to be aborted

        def active():
            return port._sequence is not None

        def ms():
            return vloop.vtime_ms()

        # "submitted to the port's write path" = transform_and_write_value is called (synchronously, by the call-back)
        orig_tw = port.transform_and_write_value

        closed = []     # set once the horizon event is logged: the observation ends there

        def tw(value):
            if value not in EXPR_VALUES and not closed:     # what the harness's own expressions write is not part of any sequence
                log.append([S, ms(), value, active()])
            return orig_tw(value)

        port.transform_and_write_value = tw
        orig_fin = port._on_sequence_finish

        async def fin():
            await orig_fin()
            if not closed:
                log.append([F, ms(), 0, active()])

        port._on_sequence_finish = fin

        # where (in loop iterations) does a cancellation request reach Sequence.cancel?
        cancel_iter = []
        orig_cancel = self.core_sequences.Sequence.cancel

        async def cancel(seq):
            cancel_iter.append(loop.iteration)
            return await orig_cancel(seq)

        self.core_sequences.Sequence.cancel = cancel
        try:
            if sc['port']['enabled']:
                await port.enable()
                # one polling pass, so that the port shows its current value (core.main.update is also what the write loop
                # calls after every confirmed write: each written value is read back before the next timed step)
                await self.core_main.update()
                if port.get_last_read_value() != sc['port'].get('initial'):
                    notes.append('initial value not read back')
            if sc['port']['expr']:
                await port.set_attr('expression', '7777')
                if sc['port']['writable'] and port._expression is None:
                    notes.append('initial expression not set')

            async def patch(d):
                body = {'values': d['values'], 'delays': d['delays'], 'repeat': d['repeat']}
                req = self.request('/ports/%s/sequence' % pid, json.dumps(body).encode())
                await self.api_ports.patch_port_sequence(req.handler, pid, body)

            async def run_cmd(coro, start_kind, end_kind, check=True):
                if start_kind is not None:
                    log.append([start_kind, ms(), 0, active()])
                it0 = loop.iteration
                n0 = len(cancel_iter)
                try:
                    await coro
                    code = 0
                except BaseException as e:  # noqa: BLE001  (CancelledError leaking out of cancel() is an outcome)
                    code = self.classify(e)
                    if code == 9:
                        notes.append('exception %s: %s' % (type(e).__name__, e))
                if check and len(cancel_iter) > n0 and cancel_iter[n0] != it0:
                    notes.append('command suspended before reaching Sequence.cancel')
                log.append([end_kind, ms(), code, active()])

            t_origin = loop.time()
            if round(t_origin * 1000) != 0:
                notes.append('set-up consumed virtual time')
            await run_cmd(patch(sc['seq']), None, P)

            cmd = sc['cmd']
            horizon = sc['horizon']

            def command(c):
                if c['kind'] == 'seq':
                    return patch(c)
                if c['kind'] == 'expr':
                    return port.set_attr('expression', '9999')
                if c['kind'] == 'noexpr':
                    return port.set_attr('expression', '')
                if c['kind'] == 'disable':
                    return port.disable()
                raise ValueError(c['kind'])

            if cmd['kind'] != 'none' and cmd['at'] <= horizon:
                await self.goto(loop, cmd['at'], cmd['pos'], notes)
                if sc.get('cmd2'):
                    # two commands started in the same loop iteration: each is its own task, the first step of the first
                    # runs now, the first step of the second right after it (eager start = what two adjacent ready task
                    # wake-ups do), the rest as the loop schedules them
                    log.append([C, ms(), 0, active()])
                    t1 = asyncio.Task(run_cmd(command(cmd), None, D, False), loop=loop, eager_start=True)
                    t2 = asyncio.Task(run_cmd(command(sc['cmd2']), None, D2, False), loop=loop, eager_start=True)
                    await asyncio.gather(t1, t2)
                else:
                    await run_cmd(command(cmd), C, D)
            end = horizon / 1000.0 + 0.00025
            if loop.time() < end:
                await asyncio.sleep(end - loop.time())
            log.append([E, horizon, 0, active()])
            closed.append(True)
            # drain: let the write path finish what was submitted (bounded)
            for _ in range(50):
                await asyncio.sleep(0)
            if port.write_latency > 0:
                # a slow driver: wait (bounded) until the write queue is empty and the last write is confirmed
                for _ in range(5000):
                    if port._write_value_queue.empty() and not port.is_writing():
                        break
                    await asyncio.sleep(port.write_latency / 1000.0)
        finally:
            self.core_sequences.Sequence.cancel = orig_cancel
            await self.drop_port(port)
        return {'log': log, 'writes': port.writes, 'notes': notes, 'queue_size': type(port).WRITE_VALUE_QUEUE_SIZE}

    async def goto(self, loop, at, pos, notes):
        """suspend until virtual time `at`, ordered after exactly `pos` steps of the sequence task due at that instant"""
        target = at / 1000.0
        if loop.time() < target - 0.0005:
            await asyncio.sleep(target - 0.0005 - loop.time())
        if loop.time() < target - 0.0004:
            # the timer (if any) that will wake the sequence task at `at`
            near = sorted(h.when() for h in loop._scheduled if not h._cancelled and abs(h.when() - target) < 0.0004)
            fut = loop.create_future()
            if near:
                when = near[0] - TIE_EPS if pos == 0 else near[0] + TIE_EPS
                if len(near) > 1:
                    notes.append('several timers at the command instant')
            else:
                when = target
            loop.call_at(when, fut.set_result, None)
            await fut
            extra = pos - 1 if near else pos
        else:
            # already at the instant (at = time of the first request): no timer is involved, steps are bare call_soon
            if round(loop.time() * 1000) != at:
                notes.append('could not reach the command instant')
            extra = pos
        for _ in range(max(0, extra)):
            await asyncio.sleep(0)

    async def drop_port(self, port):
        try:
            seq = port._sequence
            if seq is not None and seq._loop_task is not None and not seq._loop_task.done():
                seq._loop_task.cancel()
            port._sequence = None
            await port.remove(persisted_data=False)
        except BaseException:  # noqa: BLE001
            pass
        for t in (getattr(port, '_write_value_task', None), getattr(port, '_eval_task', None)):
            if t is not None and not t.done():
                t.cancel()
                try:
                    await t
                except BaseException:  # noqa: BLE001
                    pass
        self.core_ports._ports_by_id.pop(port.get_id(), None)


def run(coro):
    loop = CountingLoop()
    vloop.install(loop)
    asyncio.set_event_loop(loop)
    try:
        return loop.run_until_complete(coro)
    finally:
        try:
            tasks = [t for t in asyncio.all_tasks(loop) if not t.done()]
            for t in tasks:
                t.cancel()
            if tasks:
                loop.run_until_complete(asyncio.gather(*tasks, return_exceptions=True))
        except BaseException:  # noqa: BLE001
            pass
        vloop.uninstall()
        asyncio.set_event_loop(None)
        loop.close()


def main():
    scenarios = json.load(sys.stdin)
    impl = Impl()
    out = []
    for sc in scenarios:
        impl.current = None
        try:
            out.append(run(impl.scenario(sc)))
        except Spinning as e:
            log, notes, port = impl.current if impl.current else ([], [], None)
            out.append({'log': log[:400], 'writes': (port.writes if port else [])[:400], 'notes': notes + [str(e)],
                        'queue_size': type(port).WRITE_VALUE_QUEUE_SIZE if port else None})
        except BaseException as e:  # noqa: BLE001
            out.append({'log': [], 'writes': [], 'notes': ['worker failure %s: %s' % (type(e).__name__, e)]})
    json.dump(out, sys.stdout)


if __name__ == '__main__':
    main()
