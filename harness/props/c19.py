"""C19 — sequences write the given values in order, with the given delays and repeats.

Theorems: coq/theories/Props/C19.v over the timed model coq/theories/C19/Model.v (Sequence._loop as a state machine over task
steps and virtual milliseconds, set_sequence / cancel, the cancellations of attr_set_expression and disable, the refusals of
patch_port_sequence).
Tie (C): real Port objects driven through the real patch_port_sequence / set_attr('expression') / disable() on the virtual
clock (harness/props/c19_worker.py, one subprocess per batch); the observed log
[(kind, virtual ms, value | outcome, sequence active)] is compared inside coqc with the model's log (`bad_model`) and with the
specification oracle C19/Spec.v (`bad_spec`).  A cancelling command is placed at every instant of the millisecond grid,
including exactly at firing instants, before / after the sequence task's step in the same batch of ready callbacks.
"""
import json
import os
import subprocess
import sys
import time
from concurrent.futures import ThreadPoolExecutor

from harness.common import coq

ID = 'C19'
PROPS = 'theories/Props/C19.v'
MODEL_TARGETS = ['theories/C19/Run.vo']
TRANSLATORS = []
TIE = ('correspondence: real ports + real patch_port_sequence/set_attr/disable on a virtual-clock asyncio loop; observed logs '
       'compared with the Coq model and the Coq specification oracle by vm_compute')
ALLOWED_AXIOMS = []
TRUSTED_BASE = [
    'correspondence harness harness/props/c19.py + c19_worker.py (wraps transform_and_write_value, _on_sequence_finish and the '
    'driver write_value of a real core.ports.Port subclass; reads port._sequence for "active")',
    'harness/common/vloop.py: stepping the real asyncio loop under a virtual clock yields only interleavings the real loop can '
    'produce; a command is ordered against the sequence task by arming a timer 0.2 ns before/after the sequence\'s own timer '
    '(both due in the same _run_once batch) — the order a real API task and a timer callback can take',
    'modelled, not verified: asyncio (Task.cancel on a sleeping / woken / not yet started task, call_soon FIFO order, '
    'asyncio.sleep(d <= 0) yields once), jsonschema (ignores the unknown keywords "min"/"max")',
]
ASSUMPTIONS = [
    'time is virtual milliseconds; delays are integers (schema "type": "integer"); the code sleeps delay/1000.0 s and the tie '
    'compares on the millisecond grid (float clock error < 1e-9 s over a scenario)',
    '"written" = submitted to the port write path (transform_and_write_value called by the sequence call-back); delivery to '
    'the driver is property C14',
    '"reports an active sequence" = port._sequence is not None (the API exposes no attribute for it)',
    'repeat <= 0 with no positive delay (time never advances: the loop spins) is outside the statement and not generated',
    'values are inside the port\'s domain (validation of values is property C05); len(values) = len(delays) is enforced by '
    'patch_port_sequence before a Sequence is built',
    'the port driver does not raise in is_persisted() / is_writable() and does not suspend there',
    'concurrent commands: pairs of {new sequence, disable} whose first task steps run in the same loop iteration; the '
    'replacement sequences of a pair have delays >= 1 ms (a superseded one takes exactly one step); the exact model of pairs '
    '(sim2) is the code with fixes/C19-concurrent-cancel.diff',
]

KIND_CODE = {'none': 0, 'seq': 1, 'expr': 2, 'noexpr': 3, 'disable': 4}
OUTCOMES = {0: 'ok', 1: 'port-disabled', 2: 'read-only-port', 3: 'port-with-expression', 4: 'invalid-field delays',
            5: 'CancelledError', 6: 'invalid-field values', 9: 'other exception'}
DELAYS = [0, 0, 1, 1, 2, 3, 5, 7, 10, 20, -4]
HEADER = 'From QT Require Import C19.Run.\nOpen Scope Z_scope.\n'
CORPUS = os.path.join(coq.VERIF, 'corpus', 'C19')


# ----------------------------------------------------------------------------------------------------------------
# python-side arithmetic used only to lay out scenarios (grid of command instants, horizon, fuel) — never a verdict

def firing_times(values, delays, repeat, t0, limit_t, limit_n=400):
    """instants at which the closed-form schedule submits, up to limit_t / limit_n"""
    out = []
    n = len(values)
    if n == 0 or n != len(delays):
        return out
    t = t0
    j = 0
    while (repeat <= 0 or j < repeat) and len(out) < limit_n:
        for k in range(n):
            if t > limit_t or len(out) >= limit_n:
                return out
            out.append(t)
            t += max(0, delays[k])
        j += 1
    return out


def gen_seq(rng, base, allow_empty=False, small=False):
    n = rng.choice([1, 1, 2, 2, 2, 3, 3, 4, 5, 6, 8] if not small else [1, 2, 2, 3])
    if allow_empty and rng.random() < 0.12:
        n = 0
    if rng.random() < 0.4:
        # small alphabet (a relay: 2 values; a 3-level dimmer): repeated and already-current values are the norm
        alphabet = [base + 1, base + 2] if rng.random() < 0.6 else [base + 1, base + 2, base + 3]
        values = [rng.choice(alphabet) for _ in range(n)]
    else:
        values = [base + rng.randint(1, 50) if rng.random() < 0.8 else base + 1 for _ in range(n)]
    delays = [rng.choice(DELAYS) for _ in range(n)]
    if rng.random() < 0.12:
        delays = [0] * n
    repeat = rng.choice([0, 1, 1, 2, 2, 3, 4, -1 if rng.random() < 0.3 else 0])
    if repeat <= 0 and n and sum(max(0, d) for d in delays) == 0:
        delays[rng.randrange(n)] = rng.choice([1, 2, 5, 10])
    return {'values': values, 'delays': delays, 'repeat': repeat}


def layout(seq):
    """(end of playback or a cut for endless ones, firing instants)"""
    total = sum(max(0, d) for d in seq['delays'])
    if seq['repeat'] > 0:
        times = firing_times(seq['values'], seq['delays'], seq['repeat'], 0, 10 ** 9)
    else:
        times = firing_times(seq['values'], seq['delays'], seq['repeat'], 0, max(1, int(2.6 * total)), 40)
    return (times[-1] if times else 0), times


def gen_family(rng, per_base):
    """one base sequence + per_base scenarios (commands over the grid of instants)"""
    out = []
    r = rng.random()
    port = {'enabled': True, 'writable': True, 'expr': False}
    seq = gen_seq(rng, 0)
    # what the read-back port shows before the first write: nothing, the first value of the sequence, or some other value
    port['initial'] = rng.choice([None, seq['values'][0] if seq['values'] else 1, seq['values'][0] if seq['values'] else 2,
                                  1, 2, rng.randint(1, 50)])
    if r < 0.06:
        port[rng.choice(['enabled', 'writable'])] = False
    elif r < 0.09:
        port['expr'] = True
    elif r < 0.13:
        # refused: delays / values of different lengths
        if rng.random() < 0.5 and seq['delays']:
            seq['delays'] = seq['delays'][:-1]
        else:
            seq['delays'] = seq['delays'] + [5]
    end, times = layout(seq)
    grid = sorted(set([0, 1, end, end + 1, end + 2] + [t + d for t in times for d in (-1, 0, 1) if t + d >= 0]
                      + list(range(0, min(end + 3, 40)))))
    tie_grid = sorted(set(times)) or [0]
    for _ in range(per_base):
        kind = rng.choice(['none', 'seq', 'seq', 'seq', 'seq', 'expr', 'expr', 'noexpr', 'disable', 'disable', 'badseq'])
        at = rng.choice(tie_grid) if rng.random() < 0.5 else rng.choice(grid)
        pos = rng.choice([0, 0, 0, 1, 1, 1, 2, 2, 3])
        cmd = {'kind': kind, 'at': at, 'pos': pos}
        if kind in ('seq', 'badseq'):
            cmd.update(gen_seq(rng, 100, allow_empty=True, small=True))
            cmd['kind'] = 'seq'
            if kind == 'seq' and rng.random() < 0.25:
                # a client retry / re-arming: the running sequence requested again, exactly — it restarts from v1
                cmd.update({'values': list(seq['values']), 'delays': list(seq['delays']), 'repeat': seq['repeat']})
            if kind == 'badseq':
                cmd['delays'] = cmd['delays'] + [3] if rng.random() < 0.5 or not cmd['delays'] else cmd['delays'][:-1]
        if kind == 'none':
            cmd = {'kind': 'none', 'at': 0, 'pos': 0}
        sc = finish_scenario(rng, port, seq, cmd)
        if kind == 'disable' and rng.random() < 0.4:
            # the driver's handle_disable() hook really awaits: steps of the sequence fall due while it does
            sc['dlat'] = rng.choice([1, 2, 3, 5, 10, 25])
            sc['horizon'] = max(sc['horizon'], cmd['at'] + sc['dlat'] + 2)
        if admitted(sc) and kind in ('seq', 'disable') and rng.random() < 0.3:
            # a second command started in the same loop iteration (two requests; a request and a disable)
            if kind == 'seq' and len(cmd['values']) != len(cmd['delays']):
                pass
            else:
                sc.pop('dlat', None)
                other = 'seq' if kind == 'disable' or rng.random() < 0.6 else 'disable'
                c2 = {'kind': other}
                if other == 'seq':
                    c2.update(gen_seq(rng, 200, allow_empty=True, small=True))
                    c2['delays'] = [max(1, abs(d)) for d in c2['delays']]
                if kind == 'seq':
                    cmd['delays'] = [max(1, abs(d)) for d in cmd['delays']]
                    if cmd['repeat'] <= 0 and not cmd['values']:
                        cmd['repeat'] = 1
                sc['cmd2'] = c2
                ends = [layout(c)[0] for c in (cmd, c2) if c['kind'] == 'seq']
                sc['horizon'] = max(layout(seq)[0], cmd['at'] + max(ends + [0])) + 3
        out.append(sc)
    return out


def finish_scenario(rng, port, seq, cmd, horizon=None):
    end, _ = layout(seq)
    if horizon is None:
        h = end + 3
        if cmd['kind'] == 'seq':
            cend, _ = layout(cmd)
            h = max(h, cmd['at'] + cend + 3)
            if cmd['repeat'] <= 0:
                h = cmd['at'] + cend + 3 if rng.random() < 0.7 else h
        if cmd['kind'] != 'none':
            h = max(h, cmd['at'] + 2) if rng.random() < 0.95 else h
        if rng.random() < 0.1:
            h = rng.randint(0, h)
        horizon = h
    return {'port': dict(port), 'seq': seq, 'cmd': cmd, 'horizon': horizon}


def exhaustive_family(seq, cmd_kinds, newseq):
    """every instant of the grid x positions 0..3 x command kinds for one sequence"""
    out = []
    port = {'enabled': True, 'writable': True, 'expr': False, 'initial': seq['values'][0]}
    end, _ = layout(seq)
    for at in range(0, end + 3):
        for pos in (0, 1, 2, 3):
            for kind in cmd_kinds:
                cmd = {'kind': kind, 'at': at, 'pos': pos}
                if kind == 'seq':
                    cmd.update(newseq)
                cend = layout(cmd)[0] if kind == 'seq' else 0
                out.append({'port': dict(port), 'seq': seq, 'cmd': cmd, 'horizon': max(end, at + cend) + 3})
    return out


def fuel_of(sc):
    h = sc['horizon']
    n1 = len(firing_times(sc['seq']['values'], sc['seq']['delays'], sc['seq']['repeat'], 0, h, 2000))
    n2 = 0
    for c in (sc['cmd'], sc.get('cmd2') or {'kind': 'none'}):
        if c['kind'] == 'seq':
            n2 = max(n2, len(firing_times(c['values'], c['delays'], c['repeat'], sc['cmd']['at'], h, 2000)))
    return 2 * max(n1, n2) + 8


# ----------------------------------------------------------------------------------------------------------------
# implementation side

def run_worker(scenarios, jobs=4):
    """run the scenarios on the real code (fresh subprocesses; vloop patches time.time) -> observations"""
    if not scenarios:
        return []
    size = max(1, min(400, (len(scenarios) + jobs - 1) // jobs))
    chunks = [scenarios[i:i + size] for i in range(0, len(scenarios), size)]

    def one(chunk):
        p = subprocess.run([sys.executable, '-m', 'harness.props.c19_worker'], input=json.dumps(chunk),
                           capture_output=True, text=True, timeout=1800)
        if p.returncode != 0:
            return [{'log': [], 'writes': [], 'notes': ['worker process failed: ' + (p.stderr or '')[-600:]]} for _ in chunk]
        return json.loads(p.stdout)

    with ThreadPoolExecutor(max_workers=jobs) as ex:
        outs = list(ex.map(one, chunks))
    return [o for chunk in outs for o in chunk]


# ----------------------------------------------------------------------------------------------------------------
# Coq side

def coq_obs(log):
    return coq.lst(log, lambda e: '(%s, %s, %s, %s)' % (coq.z(e[0]), coq.z(e[1]), coq.z(e[2]), coq.boolean(e[3])))


def coq_case(sc, obs):
    cmd = sc['cmd']
    p = sc['port']
    c2 = sc.get('cmd2') or {'kind': 'none'}
    return 'Case %s %s %s %s %s %s %s %s %s %s %s %d%%nat %s %d%%nat %s %s %s %s %s\n    %s' % (
        coq.boolean(p['enabled']), coq.boolean(p['writable']), coq.boolean(p['expr']),
        coq.zlist(sc['seq']['values']), coq.zlist(sc['seq']['delays']), coq.z(sc['seq']['repeat']),
        coq.z(KIND_CODE[cmd['kind']]), coq.zlist(cmd.get('values', [])), coq.zlist(cmd.get('delays', [])),
        coq.z(cmd.get('repeat', 0)), coq.z(cmd['at']), cmd['pos'], coq.z(sc['horizon']), fuel_of(sc),
        coq.z(sc.get('dlat', 0)), coq.z(KIND_CODE[c2['kind']]), coq.zlist(c2.get('values', [])), coq.zlist(c2.get('delays', [])),
        coq.z(c2.get('repeat', 0)), coq_obs(obs['log']))


def integral(log):
    try:
        return all(len(e) == 4 and all(float(x) == int(x) for x in e[:3]) and isinstance(e[3], bool) for e in log)
    except (TypeError, ValueError):
        return False


def missing_steps(sc, log):
    """how many steps of the first sequence that were due strictly before the command / by the horizon were not submitted"""
    cmd = sc['cmd']
    limit = sc['horizon'] if cmd['kind'] == 'none' or cmd['at'] > sc['horizon'] else cmd['at'] - 1
    due = firing_times(sc['seq']['values'], sc['seq']['delays'], sc['seq']['repeat'], 0, limit, 2000)
    got = sum(1 for e in log if e[0] == 1 and e[2] < 100)
    return max(0, len(due) - got)


def classify(sc, obs):
    """key of a violation (what known_findings entries match on) + one-line description"""
    log = obs['log']
    cmd = sc['cmd']
    key = {'command': cmd['kind']}
    ci = next((i for i, e in enumerate(log) if e[0] == 3), None)
    same = cmd['kind'] == 'seq' and all(cmd.get(k) == sc['seq'][k] for k in ('values', 'delays', 'repeat'))
    if sc.get('cmd2'):
        c2 = sc['cmd2']
        key['command'] = '%s+%s' % (cmd['kind'], c2['kind'])
        rets = [i for i, e in enumerate(log) if e[0] in (4, 6)]
        tail = [e for e in log[(rets[-1] + 1) if rets else 0:] if e[0] == 1]
        gens = sorted(set(e[2] // 100 for e in tail))
        if 'disable' in (cmd['kind'], c2['kind']) and tail:
            key['aspect'] = 'sequence keeps playing after a concurrent disable'
            what = ('%s and %s started in the same loop iteration at %d ms while a sequence was running: after both returned the '
                    'port is disabled but values %s are still submitted' % (cmd['kind'], c2['kind'], cmd['at'], [[e[1], e[2]] for e in tail][:8]))
        elif len(gens) > 1:
            key['aspect'] = 'orphan sequence after concurrent requests'
            what = ('two sequence requests started in the same loop iteration at %d ms while a sequence was running: both new '
                    'sequences play (%s ...), one of them is no longer referenced by the port and can never be cancelled'
                    % (cmd['at'], [[e[1], e[2]] for e in tail][:8]))
        else:
            key['aspect'] = 'concurrent commands: outcome of neither serial order'
            what = 'commands %s and %s started together at %d ms: the observed log is not that of either serial order' % (
                cmd['kind'], c2['kind'], cmd['at'])
    elif any(e[0] == 4 and e[2] == 5 for e in log) or (log and log[0][0] == 0 and log[0][2] == 5):
        key['aspect'] = 'CancelledError raised by Sequence.cancel()'
        what = ('%s at %d ms (after %d task step(s) due at that instant) hit a sequence task that had not taken its first step: '
                'Sequence.cancel() re-raised CancelledError, the command was aborted and the port keeps a dead sequence'
                % (cmd['kind'], cmd['at'], cmd['pos']))
    elif same and admitted(sc):
        key['aspect'] = 'running sequence requested again'
        what = ('the running sequence %s / %s / repeat %s was requested again at %d ms and accepted, but was not played from v1 '
                'for the requested passes from that instant (submissions %s)'
                % (cmd['values'], cmd['delays'], cmd['repeat'], cmd['at'], [[e[1], e[2]] for e in log if e[0] == 1][:14]))
    elif ci is not None and any(e[0] == 1 and e[2] < 100 for e in log[ci:]) and cmd['kind'] != 'none' and not (
            cmd['kind'] == 'seq' and (len(cmd['values']) != len(cmd['delays']) or any(v < 100 for v in cmd['values']))):
        key['aspect'] = 'value of the old sequence submitted after the command'
        what = 'a value of the replaced/cancelled sequence was submitted after the %s command at %d ms' % (cmd['kind'], cmd['at'])
    elif admitted(sc) and missing_steps(sc, log):
        key['aspect'] = 'scheduled value not submitted'
        what = ('the sequence values %s delays %s repeat %s (port showing %s) submitted only %s: %d scheduled step(s) missing'
                % (sc['seq']['values'], sc['seq']['delays'], sc['seq']['repeat'], sc['port'].get('initial'),
                   [[e[1], e[2]] for e in log if e[0] == 1 and e[2] < 100][:12], missing_steps(sc, log)))
    elif log and log[0][0] == 0 and (log[0][2] != 0) == admitted(sc):
        key['aspect'] = 'refusal'
        what = ('first request (port enabled=%s writable=%s expression=%s, %d values / %d delays) answered %s'
                % (sc['port']['enabled'], sc['port']['writable'], sc['port']['expr'], len(sc['seq']['values']),
                   len(sc['seq']['delays']), OUTCOMES.get(log[0][2], log[0][2])))
    elif cmd['kind'] in ('expr', 'noexpr', 'disable') and any(e[0] == 4 and e[3] for e in log):
        key['aspect'] = 'sequence still active after the command'
        what = 'the %s command at %d ms returned but the port still has an active sequence' % (cmd['kind'], cmd['at'])
    else:
        key['aspect'] = 'schedule / finish / active state'
        what = ('observed submissions %s, finish call-back or active state differ from the specified schedule of values %s '
                'delays %s repeat %s' % ([[e[1], e[2]] for e in log if e[0] == 1][:12], sc['seq']['values'],
                                         sc['seq']['delays'], sc['seq']['repeat']))
    return key, what


def admitted(sc):
    return (sc['port']['enabled'] and sc['port']['writable'] and not sc['port']['expr']
            and len(sc['seq']['values']) == len(sc['seq']['delays']))


EXPR_VALUES = (7777, 9999)


WRITE_QUEUE_CAPACITY = 1024     # BasePort.WRITE_VALUE_QUEUE_SIZE: pending writes a port keeps before dropping the oldest (C14)


def writes_ok(ob, values_only=False):
    subs = [[e[1], e[2]] for e in ob['log'] if e[0] == 1]
    writes = [[w[0], w[1]] for w in ob['writes'] if w[1] not in EXPR_VALUES]
    if values_only:     # slow driver: same values, same order, one write per submission; the instants differ by the latency
        return [x[1] for x in subs] == [x[1] for x in writes]
    return subs == writes


def burst_scenarios(rng, k):
    """sequences up to the API's admitted length (256 values) x repeats, delays shorter than the driver's write latency:
    up to ~600 writes pending at once, below the port's capacity (1024) — every value must still reach the driver, in order"""
    out = []
    shapes = [(70, 1), (200, 1), (256, 2), (96, 4), (130, 3), (64, 2), (256, 1)]
    for i in range(k):
        n, r = shapes[i % len(shapes)]
        if i >= len(shapes):
            n, r = rng.randint(66, 256), rng.randint(1, 2)
        alphabet = rng.choice([2, 3, 50])
        values = [rng.randint(1, alphabet) for _ in range(n)]
        delays = [0] * n if rng.random() < 0.6 else [rng.choice([0, 0, 0, 1]) for _ in range(n)]
        wlat = rng.choice([2, 2, 3, 5])
        seq = {'values': values, 'delays': delays, 'repeat': r}
        out.append({'port': {'enabled': True, 'writable': True, 'expr': False, 'initial': rng.choice([None, 1])},
                    'seq': seq, 'cmd': {'kind': 'none', 'at': 0, 'pos': 0}, 'wlat': wlat,
                    # the whole playback is observed (the driver is compared with ALL the submissions)
                    'horizon': firing_times(values, delays, r, 0, 10 ** 9, 10 ** 6)[-1] + 2})
    return out


def evaluate(ctx, res, scenarios, origin, stats):
    """run scenarios on the implementation, compare in Coq; fills res"""
    t0 = time.time()
    observations = run_worker(scenarios)
    stats['impl_wall_s'] = round(stats.get('impl_wall_s', 0) + time.time() - t0, 2)
    usable = []
    for sc, ob in zip(scenarios, observations):
        res['evaluations'] += 1
        account(sc, ob, res, stats)
        if not integral(ob['log']) or not ob['log']:
            res['tie_failures'].append({'scenario': sc, 'note': 'log not comparable', 'observed': ob})
            continue
        for n in ob['notes']:
            res['tie_failures'].append({'scenario': sc, 'note': n})
        ob['log'] = [[int(e[0]), int(e[1]), int(e[2]), e[3]] for e in ob['log']]
        usable.append((sc, ob))
        # one driver write per submitted value, in order, at the instant of the submission (the harness driver confirms a
        # write at once and the port stays enabled) — the FULL list of writes, not the list of value changes
        if ob.get('queue_size') != WRITE_QUEUE_CAPACITY and not stats.get('capacity_reported'):
            stats['capacity_reported'] = True
            res['tie_failures'].append('the harness port class inherits WRITE_VALUE_QUEUE_SIZE = %r, not the capacity %d the '
                                       'property (and C14) speak of' % (ob.get('queue_size'), WRITE_QUEUE_CAPACITY))
        if 'disable' not in (sc['cmd']['kind'], (sc.get('cmd2') or {}).get('kind')) and not writes_ok(ob, bool(sc.get('wlat'))):
            res['violations'].append({
                'key': {'command': sc['cmd']['kind'], 'aspect': 'driver writes differ from submissions'},
                'what': 'the driver was written %d values %s... but the sequence submitted %d values %s... (%d values, delays %s..., '
                        'repeat %s, port showed %s, driver write latency %s ms, write queue capacity %s)'
                        % (len([w for w in ob['writes'] if w[1] not in EXPR_VALUES]),
                           [w for w in ob['writes'] if w[1] not in EXPR_VALUES][:8], sum(1 for e in ob['log'] if e[0] == 1),
                           [[e[1], e[2]] for e in ob['log'] if e[0] == 1][:8], len(sc['seq']['values']), sc['seq']['delays'][:8],
                           sc['seq']['repeat'], sc['port'].get('initial'), sc.get('wlat', 0), ob.get('queue_size')),
                'case': sc, 'observed': {'log': ob['log'], 'driver_writes': ob['writes']},
                'expected': 'one write_value call per submitted value, same order, same virtual ms'})
    if len(res['samples']) < 12:
        for sc, ob in usable[:: max(1, len(usable) // 6)][:6]:
            res['samples'].append({'origin': origin, 'scenario': sc, 'observed_log': ob['log'], 'driver_writes': ob['writes']})
    if not ctx.model_ok:
        res['tie_failures'].append('model not built; cases not evaluated')
        return
    shards, meta = [], []
    for i in range(0, len(usable), 500):
        part = usable[i:i + 500]
        shards.append('Definition cases : list rcase := [\n  %s].\n' % ';\n  '.join(coq_case(sc, ob) for sc, ob in part))
        meta.append(part)
    t0 = time.time()
    outs = coq.eval_shards(ctx.workdir, 'c19_%s' % origin, HEADER, shards,
                           ['bad_model cases', 'bad_spec cases', 'bad_model_old cases'], jobs=2)
    stats['coq_wall_s'] = round(stats.get('coq_wall_s', 0) + time.time() - t0, 2)
    for (rc, lists, err), part in zip(outs, meta):
        if rc != 0 or len(lists) != 3:
            res['tie_failures'].append('coqc failed on a case shard: %s' % err[-600:])
            continue
        bad_model, bad_spec, bad_old = lists
        stats['agrees_with_prefix_model'] = stats.get('agrees_with_prefix_model', 0) + len(part) - len(bad_old)
        for i in bad_model:
            sc, ob = part[i]
            res['tie_failures'].append({
                'scenario': sc, 'observed_log': ob['log'],
                'note': 'model (cancel() that does not re-raise) differs from the implementation'
                        + ('' if i in bad_old else '; the implementation agrees with the model of the code BEFORE '
                                                   'fixes/C19-cancel-unstarted-task.diff')})
        for i in bad_spec:
            sc, ob = part[i]
            key, what = classify(sc, ob)
            res['violations'].append({
                'key': key, 'what': what, 'case': sc,
                'observed': {'log': ob['log'], 'driver_writes': ob['writes'],
                             'legend': 'log entry = [kind, virtual ms, value | outcome code, sequence active]; kinds 0 first '
                                       'request returned, 1 value submitted, 2 finish call-back, 3 command starts, 4 command '
                                       'returned, 5 horizon; outcomes %s' % OUTCOMES},
                'expected': 'see coq/theories/C19/Spec.v spec_ok: submissions = closed-form schedule; nothing of the old '
                            'sequence after the command; command accepted; finish call-back once; active state',
            })


def account(sc, ob, res, stats):
    d = res['distribution']

    def inc(k, n=1):
        d[k] = d.get(k, 0) + n
    cmd = sc['cmd']
    inc('cmd:' + cmd['kind'])
    if sc.get('cmd2'):
        inc('concurrent pair:%s+%s' % (cmd['kind'], sc['cmd2']['kind']))
    if sc.get('dlat'):
        inc('disable with a slow handle_disable hook')
    if sc.get('wlat'):
        inc('burst: >= 64 values faster than the driver writes')
        inc('  ... max writes pending', 0)
        d['  ... max writes pending'] = max(d['  ... max writes pending'], len(sc['seq']['values']) * max(1, sc['seq']['repeat']))
    if cmd['kind'] == 'seq' and all(cmd.get(k) == sc['seq'][k] for k in ('values', 'delays', 'repeat')):
        inc('replacement identical to the running sequence')
    inc('n=%d' % len(sc['seq']['values']))
    inc('repeat=%s' % (sc['seq']['repeat'] if sc['seq']['repeat'] <= 4 else '>4'))
    if any(x <= 0 for x in sc['seq']['delays']):
        inc('has delay <= 0')
    adm = admitted(sc)
    if not adm:
        inc('first request refused')
    times = firing_times(sc['seq']['values'], sc['seq']['delays'], sc['seq']['repeat'], 0, sc['horizon'], 2000)
    tie = cmd['kind'] != 'none' and cmd['at'] in times
    if tie:
        inc('command exactly at a firing instant')
        inc('  ... pos=%d' % cmd['pos'])
    n_sub = sum(1 for e in ob['log'] if e and e[0] == 1)
    inc('submissions observed', n_sub)
    if ob['log'] and any(e[0] == 4 for e in ob['log']):
        inc('command outcome:' + OUTCOMES.get(next(e[2] for e in ob['log'] if e[0] == 4), '?'))
    if writes_ok(ob):
        inc('driver writes == submissions (time, value)')
    vals = sc['seq']['values']
    init = sc['port'].get('initial')
    if adm and vals and (vals[0] == init or any(a == b for a, b in zip(vals, vals[1:]))
                         or (len(vals) > 1 and sc['seq']['repeat'] != 1 and vals[0] == vals[-1]) or (len(vals) == 1 and sc['seq']['repeat'] != 1)):
        inc('has a step equal to the value the port already shows')
    # non-trivial: accepted, >= 2 submissions expected, and (no command, or the command lands while the sequence is playing)
    if adm and len(times) >= 2 and (cmd['kind'] == 'none' or cmd['at'] <= times[-1] or sc['seq']['repeat'] <= 0):
        stats['distinct'].add(json.dumps(sc, sort_keys=True))


# ----------------------------------------------------------------------------------------------------------------

def load_corpus():
    out = []
    if os.path.isdir(CORPUS):
        for f in sorted(os.listdir(CORPUS)):
            if f.endswith('.json'):
                with open(os.path.join(CORPUS, f)) as fh:
                    doc = json.load(fh)
                for sc in doc.get('scenarios', [doc.get('scenario')] if doc.get('scenario') else []):
                    out.append(sc)
    return out


def generated(ctx, n_total, rng):
    scenarios = []
    # a block that is exhaustive over the grid for two fixed sequences (ties at every firing instant, all positions)
    if ctx.tier == 'thorough':
        scenarios += exhaustive_family({'values': [1, 2, 3], 'delays': [2, 0, 3], 'repeat': 2},
                                       ['seq', 'expr', 'noexpr', 'disable'], {'values': [101, 102], 'delays': [1, 2], 'repeat': 1})
        scenarios += exhaustive_family({'values': [4, 5], 'delays': [1, 2], 'repeat': 0},
                                       ['seq', 'disable'], {'values': [101], 'delays': [4], 'repeat': 2})
    else:
        scenarios += exhaustive_family({'values': [1, 2], 'delays': [2, 1], 'repeat': 2}, ['seq', 'disable'],
                                       {'values': [101, 102], 'delays': [1, 2], 'repeat': 1})
    scenarios += burst_scenarios(rng, 4 if ctx.tier != 'thorough' else 40)
    per_base = 12 if ctx.tier != 'thorough' else 40
    while len(scenarios) < n_total:
        scenarios += gen_family(rng, per_base)
    return scenarios[:n_total]


def run_all(ctx, res, n_total, rng):
    stats = {'distinct': set()}
    corpus = load_corpus()
    if corpus:
        evaluate(ctx, res, corpus, 'corpus', stats)
    scenarios = generated(ctx, n_total, rng)
    for i in range(0, len(scenarios), 8000):
        evaluate(ctx, res, scenarios[i:i + 8000], 'gen%d' % (i // 8000), stats)
    # report the simplest failing scenario (no command, shortest log, fewest values) first: the replay is the smallest
    # witness among the corpus and the generated families (each family covers one sequence with many commands)
    res['violations'].sort(key=lambda v: (v['case']['cmd']['kind'] != 'none', len(v['observed']['log']),
                                          len(v['case']['seq']['values']), v['case']['horizon']))
    res['distinct_nontrivial'] += len(stats.pop('distinct'))
    res['extra'].update({k: v for k, v in stats.items()})
    res['extra']['corpus_cases'] = len(corpus)


def check(ctx, res):
    res['rule'] = (
        'scenario = (port state, first sequence request at 0 ms, one command [new sequence | expression | empty expression | '
        'disable (handle_disable hook taking 0-25 ms) | malformed request | none] at instant `at` ordered after `pos` steps of '
        'the sequence task due at that same instant, optionally a second command (sequence | disable) started in the same '
        'loop iteration, horizon). A quarter of the replacements repeat the running sequence exactly. n <= 8 values, delays from {-4,0,1,2,3,5,7,10,20} ms, repeat -1..4; `at` drawn half of the time '
        'exactly from the firing instants, otherwise from the full millisecond grid (incl. one tick before/after firings, 0, '
        'after the end); plus an exhaustive block (every instant x positions 0-3 x command kinds) for fixed sequences. '
        'distinct = distinct scenarios; non-trivial = first request accepted, >= 2 submissions due before the horizon and '
        '(no command, or the command lands while the sequence is still playing)'
    )
    run_all(ctx, res, ctx.n(520, 30000), ctx.rng)


def search(ctx, res):
    run_all(ctx, res, ctx.n(3000, 30000), ctx.rng)


REPLAY_HELP = ('echo \'[<case>]\' | PYTHONPATH=/verif:/repo /venv/bin/python -m harness.props.c19_worker   '
               '(prints the observed log; see harness/props/c19_worker.py for the scenario and log formats)')

LEVEL_TEXT = (
    'Coq theorems over a timed Gallina model of Sequence._loop / start / cancel, port.set_sequence, the cancellations in '
    'attr_set_expression and disable and the refusals of patch_port_sequence: for all value/delay lists and repeat counts the '
    'submissions equal the closed-form schedule (j*sum(d) + prefix_sum d k; every finite prefix for repeat 0), the sequence '
    'reports inactive in the same step as the last submission with exactly one finish call-back, after a new sequence / '
    'expression / disable at time t nothing of the old sequence is submitted (also when t is a firing instant, for every '
    'position of the command among the task steps of that instant), refusals leave the port untouched. The model is tied to '
    'the real code by running real ports through the real API function on a virtual clock and comparing the full observed '
    'log with the model and with the specification oracle inside coqc.'
)
LEVEL_NOTE = (
    'Trusted: Coq kernel incl. vm_compute; the correspondence harness (c19.py, c19_worker.py, vloop.py) and its generators; '
    'asyncio task/cancel semantics are modelled (task steps, cancel on sleeping / woken / unstarted task) and tied by the '
    'correspondence only. The theorems are about the model with a cancel() that does not re-raise '
    '(fixes/C19-cancel-unstarted-task.diff); the code at /repo HEAD re-raises CancelledError when the task was just (re)armed '
    '(History/C19Old.v, corpus/C19). No axioms (Print Assumptions: closed under the global context).'
)
TECHNIQUE = 'Coq proof (induction over task steps / passes) over a timed model tied by virtual-clock correspondence and a Coq spec oracle'
