"""C01 worker, second stream ("typed" scenarios): port types, the real VirtualPort class, unavailable values.

stdin: JSON list of scenarios; stdout: JSON list of results.
scenario = {'ports': [{'id': 'p0', 'kind': K, 'value': v}], 'script': [cmd...]}
  K: 'hint' (harness number port, integer), 'hnum' (harness number port), 'hbool' (harness boolean port),
     'vint' / 'vnum' / 'vbool' (the hub's own qtoggleserver.core.vports.VirtualPort)
  port spec may carry 'internal': true (the `internal` attribute of the port)
  and 'twrite': text (a write transform, set through set_attr before anything else)
  cmd: ['expr', pid, text]   assign a value expression through set_attr (text '' removes it)
       ['expr-in-handler', pid, text, src, value]   the device behind harness port `src` now shows `value`; while a synchronous
                             (FIRE_AND_FORGET = False) event handler is busy with the value-change event of `src`, i.e. in the
                             middle of the polling pass, another task assigns the expression to `pid`
       ['set', pid, value]   the device behind a harness port now shows `value` (None = unavailable);
                             for a virtual port: the value is written through the hub (transform_and_write_value)
       ['disable', pid] / ['enable', pid]      (only ports without an expression)
       ['set+fault', pid, value, faulty_pid, kind]   like 'set', and the next driver read of harness port `faulty_pid` raises `kind`
                             once (OSError / ValueError / RuntimeError / TimeoutError): the pass must go on
       ['set+add-during-read', pid, value]   like 'set' on a harness port, and while the polling pass is suspended in the driver
                             read of `pid` another task adds an unrelated (disabled, unreferenced) virtual port to the hub; it is
                             removed again once the hub has settled: the pass must go on and the change must be handled
       ['readd', pid, value]  a virtual port without expression is disabled, removed, created again under the same id,
                             enabled and given `value`
  after every command the hub runs polling passes until nothing changes any more (no latencies in this stream).
result = {'ports': [[id, kind, enabled, last_read_value, expression text or None]], 'quiescent': bool, 'error': str or None}
values are encoded as {'b': bool} | {'i': str} | {'f': hex} | None.
"""
import asyncio
import json
import sys


def enc(v):
    if v is None:
        return None
    if isinstance(v, bool):
        return {'b': v}
    if isinstance(v, int):
        return {'i': str(v)}
    if isinstance(v, float):
        return {'f': v.hex()}
    return {'other': repr(v)}


def dec(e):
    if e is None:
        return None
    if 'b' in e:
        return bool(e['b'])
    if 'i' in e:
        return int(e['i'])
    return float.fromhex(e['f'])


def main():
    scenarios = json.load(sys.stdin)
    out = []
    for sc in scenarios:
        try:
            out.append(asyncio.run(asyncio.wait_for(run_scenario(sc), 60)))
        except Exception:  # noqa
            import traceback
            out.append({'error': traceback.format_exc()[-1500:]})
    json.dump(out, sys.stdout)


async def run_scenario(sc):
    from qtoggleserver.conf import settings
    settings.persist.driver = 'qtoggleserver.drivers.persist.JSONDriver'
    settings.persist.file_path = None
    from qtoggleserver.core import expressions  # noqa: F401 (import order)
    from qtoggleserver.core import main, ports as core_ports, vports as core_vports

    from qtoggleserver.core import events as core_events
    from qtoggleserver.core.events import handlers as events_handlers

    armed = []      # [pid, text, src]: assignments to perform while the event handler is suspended
    side_tasks = []

    class MidPassHandler(core_events.Handler):
        FIRE_AND_FORGET = False

        async def handle_event(self, event):
            if not isinstance(event, core_events.ValueChange) or not armed:
                return
            if event.get_port().get_id() != armed[0][2]:
                return
            pid, text, _src = armed.pop(0)
            # the assignment runs in its own task (an API request arriving now) while this handler - and with it the polling
            # pass that awaits it - is suspended; set_attr itself ends by waiting for the pass to finish
            side_tasks.append(asyncio.create_task(core_ports.get(pid).set_attr('expression', text)))
            for _ in range(6):
                await asyncio.sleep(0)

    events_handlers._registered_handlers[:] = [MidPassHandler()]
    events_handlers._enabled = True

    class HPort(core_ports.Port):
        WRITABLE = True

        def __init__(self, port_id, kind, value):
            super().__init__(port_id)
            self.kind = kind
            self.store = value
            self.fault_once = None
            self.during_read = None

        async def read_value(self):
            if self.during_read:
                cb, self.during_read = self.during_read, None
                await asyncio.create_task(cb())
            if self.fault_once:
                kind, self.fault_once = self.fault_once, None
                raise {'OSError': OSError, 'ValueError': ValueError, 'RuntimeError': RuntimeError,
                       'TimeoutError': asyncio.TimeoutError}[kind]('scripted read fault')
            return self.store

        async def write_value(self, value):
            self.store = value

    def hclass(kind, internal):
        return type('HPort_' + kind, (HPort,), {
            'TYPE': core_ports.TYPE_BOOLEAN if kind == 'hbool' else core_ports.TYPE_NUMBER,
            'INTEGER': kind == 'hint', 'INTERNAL': bool(internal)})

    # reset module state
    for p in list(core_ports._ports_by_id.values()):
        try:
            await p.cleanup()
        except BaseException:  # noqa
            pass
    core_ports._ports_by_id.clear()
    main._force_eval_expression_ports.clear()
    main._force_eval_all_expressions = False
    main._ports_with_read_error = type(main._ports_with_read_error)(main._PORT_READ_ERROR_RETRY_INTERVAL)
    main._updating_enabled = True
    main._last_time = 0
    main._update_lock = None

    # a restore of the ports backup that is refused (a virtual port definition the schema rejects) before the scenario starts:
    # polling and expression evaluation are switched off during the restore and must be on again afterwards
    restore_outcome = None
    if sc.get('failed_restore_first'):
        import types
        from qtoggleserver.core import api as core_api
        from qtoggleserver.core.api.funcs import ports as api_ports
        settings.core.backup_support = True
        handler = types.SimpleNamespace(access_level=core_api.ACCESS_LEVEL_ADMIN, username='c01',
                                        request=types.SimpleNamespace(headers={}, method='PUT', path='/ports', body=b'',
                                                                      query_arguments={}))
        try:
            await api_ports.put_ports(handler, [{'id': 'vbad', 'virtual': True, 'type': 'no-such-type'}])
            restore_outcome = 'accepted'
        except core_api.APIError as e:
            restore_outcome = '%s %s' % (e.status, e.code)
        except Exception as e:  # noqa
            restore_outcome = 'raised %s' % type(e).__name__

    kinds = {}
    args = []
    for ps in sc['ports']:
        k = ps['kind']
        kinds[ps['id']] = k
        if k.startswith('h'):
            args.append({'driver': hclass(k, ps.get('internal')), 'port_id': ps['id'], 'kind': k, 'value': dec(ps['value'])})
        else:
            args.append({'driver': core_vports.VirtualPort, 'id_': ps['id'],
                         'type_': core_ports.TYPE_BOOLEAN if k == 'vbool' else core_ports.TYPE_NUMBER,
                         'min_': None, 'max_': None, 'integer': k == 'vint', 'step': None, 'choices': None})
    ports = await core_ports.load(args, trigger_add=False)
    by_id = {p.get_id(): p for p in ports}
    for p in ports:
        await p.enable()
    for ps in sc['ports']:
        if not ps['kind'].startswith('h') and ps.get('internal'):
            await by_id[ps['id']].set_attr('internal', True)
    for ps in sc['ports']:
        if ps.get('twrite'):
            await by_id[ps['id']].set_attr('transform_write', ps['twrite'])
    for ps in sc['ports']:
        if not ps['kind'].startswith('h') and ps['value'] is not None:
            await by_id[ps['id']].transform_and_write_value(dec(ps['value']))

    # an evaluation task is busy from the moment it takes a context until _eval_and_write returns (between the evaluation and
    # the queued write none of the port's own flags is set)
    in_eaw = [0]
    orig_eaw = core_ports.BasePort._eval_and_write

    async def eaw_wrapper(self, context):
        in_eaw[0] += 1
        try:
            return await orig_eaw(self, context)
        finally:
            in_eaw[0] -= 1
    core_ports.BasePort._eval_and_write = eaw_wrapper

    def busy():
        return [p.get_id() for p in ports
                if p._eval_queue.qsize() or p._evaling or p._write_value_queue.qsize() or p._writing] + (['*'] if in_eaw[0] else [])

    escaped = [0]

    async def settle():
        """passes until a pass changes nothing and no task is busy"""
        calm = 0
        for _ in range(200):
            before = [(p.get_last_read_value(), p.is_enabled()) for p in ports]
            try:
                await main.update()
            except Exception:  # noqa  (update_loop logs whatever escapes a pass and carries on)
                escaped[0] += 1
            for _ in range(50):
                await asyncio.sleep(0)
                if not busy():
                    break
            after = [(p.get_last_read_value(), p.is_enabled()) for p in ports]
            calm = calm + 1 if (before == after and not busy()) else 0
            if calm >= 3:
                return True
        return False

    quiescent = await settle()
    error = None
    extra_n = [0]
    try:
        for cmd in sc['script']:
            op = cmd[0]
            p = by_id[cmd[1]]
            if op == 'expr':
                await p.set_attr('expression', cmd[2])
            elif op == 'expr-in-handler':
                armed.append([cmd[1], cmd[2], cmd[3]])
                by_id[cmd[3]].store = dec(cmd[4])
            elif op == 'set+fault':
                by_id[cmd[3]].fault_once = cmd[4]
                v = dec(cmd[2])
                if kinds[cmd[1]].startswith('h'):
                    p.store = v
                else:
                    await p.transform_and_write_value(v)
            elif op == 'set+add-during-read':
                extra_n[0] += 1
                extra_args = {'driver': core_vports.VirtualPort, 'id_': 'extra%d' % extra_n[0], 'type_': core_ports.TYPE_NUMBER,
                              'min_': None, 'max_': None, 'integer': False, 'step': None, 'choices': None}
                extra = []

                async def add_extra():
                    extra.extend(await core_ports.load([extra_args], trigger_add=False))
                p.during_read = add_extra
                p.store = dec(cmd[2])
                await settle()
                p.during_read = None
                for x in extra:
                    await x.remove(persisted_data=False)
            elif op == 'set':
                v = dec(cmd[2])
                if kinds[cmd[1]].startswith('h'):
                    p.store = v
                else:
                    await p.transform_and_write_value(v)
            elif op == 'readd':
                idx = ports.index(p)
                await p.disable()
                await settle()
                await p.remove(persisted_data=False)
                await settle()
                new = (await core_ports.load([args[idx]], trigger_add=False))[0]
                ports[idx] = new
                by_id[cmd[1]] = new
                await new.enable()
                if cmd[2] is not None:
                    await new.transform_and_write_value(dec(cmd[2]))
            elif op == 'disable':
                await p.disable()
            elif op == 'enable':
                await p.enable()
            else:
                raise ValueError(cmd)
            quiescent = await settle()
            while side_tasks:
                await side_tasks.pop()
                quiescent = await settle()
    except Exception as e:  # noqa
        import traceback
        error = traceback.format_exc()[-1200:]

    out = []
    for p in ports:
        e = p.get_expression()
        out.append([p.get_id(), kinds[p.get_id()], p.is_enabled(), enc(p.get_last_read_value()), str(e) if e else None,
                    str(p._transform_write) if p._transform_write else None])
    for p in ports:
        for t in (p._write_value_task, p._eval_task):
            if t is not None and not t.done():
                t.cancel()
    await asyncio.sleep(0)
    core_ports._ports_by_id.clear()
    events_handlers._registered_handlers[:] = []
    core_ports.BasePort._eval_and_write = orig_eaw
    return {'ports': out, 'quiescent': quiescent, 'error': error, 'armed_left': len(armed), 'restore_outcome': restore_outcome,
            'passes_aborted_by_an_exception': escaped[0]}


if __name__ == '__main__':
    main()
