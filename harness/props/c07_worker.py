"""C07 worker: runs configuration histories on the REAL hub code, saves, restarts the hub from the same store and reports
what the API answers before and after (run as `python -m harness.props.c07_worker`; request = one JSON object on stdin,
answer = one JSON object on stdout).  A dedicated process because the hub keeps its state in module globals and because
the virtual clock (harness/common/vloop.py) patches `time.time`.

request : {'driver': 'json-mem' | 'json-file' | 'redis', 'workdir': dir, 'phase': 'both' | 'first' | 'second',
           'cases': [case, ...]}
case    : {'name': str, 'history': bool, 'static': [static port spec, ...], 'sims': [simulated device, ...],
           'ops': [op, ...]}                                   (see gen_case in harness/props/c07.py for the op shapes)
answer  : {'results': [{'before': obs, 'loaded': obs, 'after': obs, 'store': {...}, 'log': [...], 'error': str|None}]}
obs     : {'ports': GET /ports, 'device': GET /device, 'devices': GET /devices, 'internals': {...},
           'writes': {port id: [values written to the driver since boot]}}

"boot" follows startup.init() (persist, events, sessions, history, device, ports = settings.ports + vports, slaves, main);
"shutdown" follows startup.cleanup() and then clears what a process exit clears (module globals).  With 'json-file' the
second boot reads the file through a NEW driver object; 'phase': 'first' / 'second' split the two halves over two processes
(a real process restart) using the files left in workdir.
"""
import asyncio
import hashlib
import importlib
import json
import logging
import os
import sys
import types

from harness.common import vloop

TICK_S = 0.05
SETTLE_S = 3.0          # > persist_interval (2 s) and > the history sampling period (1 s)


class SimDevice:
    """a trivial qToggle device behind the fake HTTP client: static attributes and ports, PATCHes are applied"""

    def __init__(self, spec):
        self.spec = spec
        self.attrs = dict(spec['attrs'])
        self.ports = [dict(p) for p in spec['ports']]
        self.reachable = True
        self.calls = []

    def handle(self, method, path, body):
        self.calls.append([method, path, body])
        path = path.rstrip('/') or '/'
        if path == '/device':
            if method == 'GET':
                return 200, self.attrs
            if method == 'PATCH':
                for k, v in (body or {}).items():
                    if not k.endswith('_password'):
                        self.attrs[k] = v
                return 204, None
        if path == '/ports' and method == 'GET':
            return 200, self.ports
        if path.startswith('/ports/'):
            parts = path.split('/')
            port = next((p for p in self.ports if p['id'] == parts[2]), None)
            if port is None:
                return 404, {'error': 'no-such-port'}
            if len(parts) == 3 and method == 'PATCH':
                port.update(body or {})
                return 204, None
            if len(parts) == 4 and parts[3] == 'value':
                if method == 'GET':
                    return 200, port.get('value')
                if method == 'PATCH':
                    port['value'] = body
                    return 204, None
        if path in ('/webhooks', '/reverse'):
            if method == 'GET':
                return 200, {'enabled': False}
            return 204, None
        return 404, {'error': 'no-such-function'}


class Impl:
    def __init__(self, driver_kind, workdir):
        for name in ('qtoggleserver', 'asyncio', 'tornado'):
            logging.getLogger(name).setLevel(logging.CRITICAL + 1)
        logging.disable(logging.CRITICAL)
        from qtoggleserver.conf import settings
        settings.persist.driver = 'qtoggleserver.drivers.persist.JSONDriver'
        settings.persist.file_path = None
        settings.core.tick_interval = int(TICK_S * 1000)
        settings.slaves.enabled = True
        settings.slaves.retry_count = 0
        settings.webhooks.enabled = False
        settings.reverse.enabled = False
        from qtoggleserver import persist
        from qtoggleserver.core import expressions  # noqa: F401  (import order, as in the repo's conftest)
        from qtoggleserver.core import api as core_api
        from qtoggleserver.core import device as core_device
        from qtoggleserver.core import events as core_events
        from qtoggleserver.core import history as core_history
        from qtoggleserver.core import main as core_main
        from qtoggleserver.core import ports as core_ports
        from qtoggleserver.core import sessions as core_sessions
        from qtoggleserver.core import vports as core_vports
        from qtoggleserver.core.api.funcs import device as api_device
        from qtoggleserver.core.api.funcs import ports as api_ports
        from qtoggleserver.core.device import attrs as device_attrs
        from qtoggleserver.core.events import handlers as event_handlers
        from qtoggleserver.drivers.persist.json import JSONDriver
        from qtoggleserver.slaves import devices as slaves_devices
        from qtoggleserver.slaves import ports as slaves_ports
        from qtoggleserver.slaves.api.funcs import devices as api_slaves
        from qtoggleserver.utils import json as json_utils

        self.settings, self.persist, self.core_api, self.core_device = settings, persist, core_api, core_device
        self.core_events, self.core_history, self.core_main, self.core_ports = core_events, core_history, core_main, core_ports
        self.core_sessions, self.core_vports, self.api_device, self.api_ports = core_sessions, core_vports, api_device, api_ports
        self.device_attrs, self.event_handlers, self.slaves_devices = device_attrs, event_handlers, slaves_devices
        self.slaves_ports, self.api_slaves, self.json_utils = slaves_ports, api_slaves, json_utils
        self.driver_kind, self.workdir = driver_kind, workdir
        self.history = False
        self.writes = {}
        self.sims = {}
        self.driver = None
        impl = self

        class SamplesJSONDriver(JSONDriver):
            """the real JSON driver; only the samples-support flag is switchable so that the history attributes exist"""
            def is_samples_supported(self):
                return impl.history

            async def ensure_index(self, collection, index=None):
                return None

            # scripted transient storage fault: the next `fail_writes` writes to collection `fail_collection` raise
            fail_collection = None
            fail_writes = 0
            failed_writes = 0

            def _maybe_fail(self, collection):
                if self.fail_writes > 0 and collection == self.fail_collection:
                    self.fail_writes -= 1
                    self.failed_writes += 1
                    raise OSError(28, 'No space left on device')

            async def insert(self, collection, record):
                self._maybe_fail(collection)
                return await super().insert(collection, record)

            async def replace(self, collection, id_, record):
                self._maybe_fail(collection)
                return await super().replace(collection, id_, record)

        self.SamplesJSONDriver = SamplesJSONDriver

        class HPort(core_ports.Port):
            """a statically configured port (settings.ports) with additional attributes of every storage style"""
            ADDITIONAL_ATTRDEFS = {
                'gain': {'display_name': 'Gain', 'description': '', 'type': 'number', 'modifiable': True, 'min': -100, 'max': 100},
                'label': {'display_name': 'Label', 'description': '', 'type': 'string', 'modifiable': True, 'max': 32},
                'mode': {'display_name': 'Mode', 'description': '', 'type': 'string', 'modifiable': True,
                         'choices': [{'value': 'a', 'display_name': 'A'}, {'value': 'b', 'display_name': 'B'}]},
                'flag': {'display_name': 'Flag', 'description': '', 'type': 'boolean', 'modifiable': True},
                'calib': {'display_name': 'Calib', 'description': '', 'type': 'number', 'modifiable': True, 'persisted': False},
                'info': {'display_name': 'Info', 'description': '', 'type': 'string', 'modifiable': False},
            }

            def __init__(self, port_id, type_='number', writable=True, integer=None, min_=None, max_=None):
                super().__init__(port_id)
                self._type = type_
                self._writable = writable
                self._integer = integer
                self._min = min_
                self._max = max_
                self._gain = 1
                self._label = ''
                self._flag = False
                self._calib = 0
                self._info = 'harness'
                self._mode_store = 'a'
                self._raw = None

            async def attr_get_value(self, name):       # 'mode' is kept behind attr_get_value / attr_set_value
                return self._mode_store if name == 'mode' else None

            async def attr_set_value(self, name, value):
                if name == 'mode':
                    self._mode_store = value

            async def read_value(self):
                return self._raw

            async def write_value(self, value):
                impl.writes.setdefault(self.get_id(), []).append(value)
                self._raw = value

        self.HPort = HPort

        orig_vwrite = core_vports.VirtualPort.write_value

        async def vwrite(port, value):
            impl.writes.setdefault(port.get_id(), []).append(value)
            await orig_vwrite(port, value)

        core_vports.VirtualPort.write_value = vwrite

        class FakeHTTPClient:
            async def fetch(self, request, raise_error=False):
                from urllib.parse import urlparse
                u = urlparse(request.url)
                sim = impl.sims.get('%s:%s' % (u.hostname, u.port))
                await asyncio.sleep(0.01)
                if sim is None or not sim.reachable:
                    return types.SimpleNamespace(code=599, error=ConnectionRefusedError(111, 'Connection refused'), body=None,
                                                 headers={})
                body = json.loads(request.body) if request.body else None
                code, out = sim.handle(request.method, u.path, body)
                return types.SimpleNamespace(code=code, error=None, headers={}, reason='',
                                             body=None if out is None and code == 204 else json.dumps(out).encode())

        slaves_devices.AsyncHTTPClient = FakeHTTPClient

    # ------------------------------------------------------------------------------------------------ requests
    def handler(self, method, path, query=None):
        request = types.SimpleNamespace(method=method, path=path, headers={}, body=b'',
                                        query_arguments={k: [v.encode()] for k, v in (query or {}).items()})
        return types.SimpleNamespace(access_level=self.core_api.ACCESS_LEVEL_ADMIN, username='admin', request=request,
                                     decode_argument=lambda v, name=None: v.decode())

    async def call(self, func, method, path, *args, query=None):
        """-> [status, code, params] of the API answer (200/204 when the function returned)"""
        try:
            out = await func(self.handler(method, path, query), *args)
            return [204 if out is None else 200, '', None]
        except self.core_api.APIError as e:
            return [e.status, e.code, {k: (v if isinstance(v, (str, int, float, bool, type(None))) else str(v))
                                        for k, v in e.params.items() if k != 'details'}]
        except self.core_api.APIAccepted:
            return [202, '', None]
        except Exception as e:  # noqa: BLE001
            return [500, 'exception', {'message': '%s: %s' % (type(e).__name__, e)}]

    # ------------------------------------------------------------------------------------------------ boot / shutdown
    def store_path(self, case):
        return os.path.join(self.workdir, 'store-%s.json' % case['name'])

    async def make_driver(self, case, fresh):
        if self.driver_kind == 'json-mem':
            if fresh or self.driver is None:
                self.driver = self.SamplesJSONDriver(file_path=None)
            return self.driver
        if self.driver_kind == 'json-file':
            path = self.store_path(case)
            if fresh:
                for p in (path, path + '.bak'):
                    if os.path.exists(p):
                        os.remove(p)
            self.driver = self.SamplesJSONDriver(file_path=path, pretty_format=False)
            return self.driver
        if self.driver_kind == 'redis':
            import fakeredis
            import redis as python_redis
            from qtoggleserver.drivers.persist import redis as redis_driver
            if fresh or self.driver is None:
                orig = python_redis.StrictRedis
                python_redis.StrictRedis = fakeredis.FakeStrictRedis
                try:
                    d = redis_driver.RedisDriver(samples_support=True)
                    await d.init()
                finally:
                    python_redis.StrictRedis = orig
                d._client.flushall()
                self.driver = d
            return self.driver
        raise ValueError(self.driver_kind)

    async def boot(self, case, fresh):
        s = self
        s.history = bool(case.get('history'))
        s.settings.core.history_support = s.history
        s.writes = {}
        s.settings.ports = [dict(driver=s.HPort, **{k: v for k, v in spec.items()}) for spec in case.get('static', [])]
        s.persist._thread_local.driver = await s.make_driver(case, fresh)
        await s.persist.init()
        await s.core_events.init()
        await s.core_sessions.init()
        if s.core_history.is_enabled():
            await s.core_history.init()
        await s.core_device.init()
        await s.core_ports.init()
        await s.core_ports.load(s.settings.ports)
        await s.core_vports.init()
        await s.slaves_devices.load()
        await s.core_main.init()

    async def ready(self):
        self.core_main.set_ready()

    async def shutdown(self):
        s = self
        await s.core_main.cleanup()
        await s.core_ports.cleanup()
        await s.slaves_devices.cleanup()
        await s.core_device.cleanup()
        if s.core_history.is_enabled():
            await s.core_history.cleanup()
        await s.core_sessions.cleanup()
        await s.core_events.cleanup()
        # stray fire-and-forget tasks (a process exit kills them)
        tasks = [t for t in asyncio.all_tasks() if t is not asyncio.current_task() and not t.done()]
        for t in tasks:
            t.cancel()
        if tasks:
            await asyncio.gather(*tasks, return_exceptions=True)
        if s.driver_kind == 'json-file':
            await s.persist.cleanup()
        # what the end of the process clears
        s.core_ports._ports_by_id.clear()
        s.core_vports._vport_args.clear()
        s.slaves_devices._slaves_by_name.clear()
        s.core_main._force_eval_expression_ports.clear()
        s.core_main._force_eval_all_expressions = False
        s.core_main._ready = False
        s.core_main._update_lock = None
        s.core_main._last_time = 0
        s.core_main._ports_with_read_error = type(s.core_main._ports_with_read_error)(s.core_main._PORT_READ_ERROR_RETRY_INTERVAL)
        s.core_sessions._sessions_by_id.clear()
        del s.event_handlers._registered_handlers[:]
        s.core_history._samples_cache.clear()
        del s.core_history._pending_remove_samples[:]
        importlib.reload(s.device_attrs)
        if hasattr(s.persist._thread_local, 'driver'):
            del s.persist._thread_local.driver

    # ------------------------------------------------------------------------------------------------ observation
    async def observe(self):
        s = self
        ports = await s.api_ports.get_ports(s.handler('GET', '/ports'))
        device = await s.api_device.get_device(s.handler('GET', '/device'))
        devices = await s.api_slaves.get_slave_devices(s.handler('GET', '/devices'))
        internals = {
            'history_last_timestamp': {p.get_id(): p.get_history_last_timestamp() for p in s.core_ports.get_all()},
            'last_values': {p.get_id(): p.get_last_read_value() for p in s.core_ports.get_all()},
            'password_hashes': {w: getattr(s.device_attrs, w + '_password_hash') for w in ('admin', 'normal', 'viewonly')},
            'vport_args': sorted(s.core_vports._vport_args),
            'slave_port_owners': {p.get_id(): [p._slave.get_name(), p.get_remote_id()] for p in s.core_ports.get_all()
                                  if isinstance(p, s.slaves_ports.SlavePort)},
            'slave_internals': {
                sl.get_name(): {'webhooks': sl._cached_webhooks, 'reverse': sl._cached_reverse,
                                'provisioning_webhooks': sl._provisioning_webhooks,
                                'provisioning_reverse': sl._provisioning_reverse,
                                'cached_attrs': sl._cached_attrs}       # GET /devices shows them with passwords masked
                for sl in s.slaves_devices.get_all()},
        }
        return json.loads(json.dumps({'ports': ports, 'device': device, 'devices': devices, 'internals': internals,
                                      'writes': s.writes}, default=str))

    async def dump_store(self):
        out = {}
        for coll in ('ports', 'vports', 'slaves', 'slave_ports', 'device'):
            out[coll] = list(await self.persist.query(coll))
        return json.loads(json.dumps(out, default=str))

    # ------------------------------------------------------------------------------------------------ operations
    async def apply(self, op):
        s = self
        k = op['op']
        if k == 'add_vport':
            body = {x: op[x] for x in ('id', 'type', 'min', 'max', 'integer', 'step', 'choices') if op.get(x) is not None}
            return await s.call(s.api_ports.post_ports, 'POST', '/ports', body)
        if k == 'patch_port':
            return await s.call(s.api_ports.patch_port, 'PATCH', '/ports/' + op['id'], op['id'], dict(op['attrs']))
        if k == 'del_port':
            return await s.call(s.api_ports.delete_port, 'DELETE', '/ports/' + op['id'], op['id'])
        if k == 'write':
            return await s.call(s.api_ports.patch_port_value, 'PATCH', '/ports/%s/value' % op['id'], op['id'], op['value'])
        if k == 'patch_device':
            return await s.call(s.api_device.patch_device, 'PATCH', '/device', dict(op['attrs']))
        if k == 'write_save_fault':
            # a value write whose first save by the save loop hits a transient storage error (one failing driver write);
            # nothing else touches collection `ports` while the fault is armed (no API request during the wait)
            r = await s.call(s.api_ports.patch_port_value, 'PATCH', '/ports/%s/value' % op['id'], op['id'], op['value'])
            port = s.core_ports.get(op['id'])
            if port is not None and port.is_pending_save() and hasattr(s.driver, 'fail_writes'):
                s.driver.fail_collection, s.driver.fail_writes = port.PERSIST_COLLECTION, 1
                await asyncio.sleep(s.settings.core.persist_interval / 1000.0 + 0.2)       # one round of the save loop
                r = r + [{'save_failed': s.driver.failed_writes}]
                s.driver.fail_writes = 0
            return r
        if k == 'sim_drop_port':
            for sim in s.sims.values():
                if sim.attrs.get('name') == op['name']:
                    sim.ports = [p for p in sim.ports if p['id'] != op['id']]
            return [204, '', None]
        if k == 'put_device_backup':
            # restore the backup just taken: GET /device, then PUT /device with that very document
            doc = json.loads(json.dumps(await s.api_device.get_device(s.handler('GET', '/device')), default=str))
            return await s.call(s.api_device.put_device, 'PUT', '/device', doc)
        if k == 'add_slave':
            sim = s.sims['%s:%s' % (op['host'], op['port'])]
            sim.reachable = True
            body = {x: op[x] for x in ('scheme', 'host', 'port', 'path', 'admin_password', 'poll_interval', 'listen_enabled')
                    if op.get(x) is not None}
            r = await s.call(s.api_slaves.post_slave_devices, 'POST', '/devices', body)
            if not op.get('poll_interval'):
                sim.reachable = False              # a permanently offline device is only reachable while it is being added
            return r
        if k == 'patch_slave':
            return await s.call(s.api_slaves.patch_slave_device, 'PATCH', '/devices/' + op['name'], op['name'], dict(op['attrs']))
        if k == 'del_slave':
            return await s.call(s.api_slaves.delete_slave_device, 'DELETE', '/devices/' + op['name'], op['name'])
        if k == 'forward':
            return await s.call(s.api_slaves.slave_device_forward, op['method'], '/devices/%s/forward%s' % (op['name'], op['path']),
                                op['name'], op['path'], dict(op['body']) if isinstance(op.get('body'), dict) else op.get('body'))
        if k == 'sample':
            # what core/history.py does after it has recorded a sample of the port
            port = s.core_ports.get(op['id'])
            if port is None:
                return [404, 'no-such-port', None]
            port.set_history_last_timestamp(op['timestamp'])
            port.save_asap()
            return [204, '', None]
        if k == 'sleep':
            await asyncio.sleep(op['s'])
            return [204, '', None]
        if k == 'reach':
            for sim in s.sims.values():
                if sim.attrs.get('name') == op['name']:
                    sim.reachable = bool(op['on'])
            return [204, '', None]
        raise ValueError(k)

    # ------------------------------------------------------------------------------------------------ a case
    async def first_half(self, case, res):
        self.sims = {'%s:%s' % (d['host'], d['port']): SimDevice(d) for d in case.get('sims', [])}
        await self.boot(case, fresh=True)
        await self.ready()
        await asyncio.sleep(0.2)
        for op in case['ops']:
            res['log'].append(await self.apply(op))
            await asyncio.sleep(TICK_S * 2)
        await asyncio.sleep(SETTLE_S)              # the save loop flushes ports marked by save_asap()
        for port in self.core_ports.get_all():     # ... and once more (the body of save_loop), so that nothing is pending
            if port.is_pending_save():
                try:
                    await port.save()
                except Exception:  # noqa: BLE001  (as save_loop does)
                    pass
        res['before'] = await self.observe()
        res['store'] = await self.dump_store()
        res['defaults'] = await self.defaults(case, res['store'])
        # what the simulated devices look like now (a second process continues with them)
        res['sims_state'] = [dict(sim.spec, attrs=sim.attrs, ports=sim.ports) for sim in self.sims.values()]
        await self.shutdown()

    async def defaults(self, case, store):
        """attributes of newly constructed (not loaded) port objects of the same classes and arguments"""
        out = {}
        objs = [self.HPort(**spec) for spec in case.get('static', [])]
        for e in store.get('vports', []):
            objs.append(self.core_vports.VirtualPort(e['id'], e.get('type') or 'number', e.get('min'), e.get('max'), e.get('integer'),
                                                     e.get('step'), e.get('choices')))
        for p in objs:
            out[p.get_id()] = json.loads(json.dumps(await p.get_attrs(), default=str))
            await asyncio.sleep(0)
            try:
                await p.cleanup()
            except asyncio.CancelledError:
                pass
        return out

    async def second_half(self, case, res):
        for sim in self.sims.values():
            if not sim.spec.get('poll'):
                sim.reachable = False
        await self.boot(case, fresh=False)
        await asyncio.sleep(0)
        res['loaded'] = await self.observe()       # right after loading, before the first poll of the ports
        await self.ready()
        await asyncio.sleep(SETTLE_S)
        res['after'] = await self.observe()
        res['store_after'] = await self.dump_store()
        await self.shutdown()

    async def run_case(self, case, phase):
        res = {'log': [], 'error': None}
        try:
            if phase in ('both', 'first'):
                await self.first_half(case, res)
            if phase in ('both', 'second'):
                if phase == 'second':
                    self.sims = {'%s:%s' % (d['host'], d['port']): SimDevice(d) for d in case.get('sims', [])}
                await self.second_half(case, res)
        except Exception as e:  # noqa: BLE001
            import traceback
            chain, c = [], e.__cause__ or e.__context__
            while c is not None and len(chain) < 6:
                chain.append('cause: %s: %s' % (type(c).__name__, c))
                c = c.__cause__ or c.__context__
            res['error'] = '%s: %s\n%s\n%s' % (type(e).__name__, e, '\n'.join(chain), traceback.format_exc()[-1500:])
            try:
                await self.shutdown()
            except Exception:  # noqa: BLE001
                pass
        return res


def sha(s):
    return hashlib.sha256(s.encode()).hexdigest()


async def amain(req):
    impl = Impl(req['driver'], req['workdir'])
    out = []
    for case in req['cases']:
        out.append(await impl.run_case(case, req.get('phase', 'both')))
    return out


def main():
    req = json.load(sys.stdin)
    os.makedirs(req['workdir'], exist_ok=True)
    results = vloop.run(amain(req))
    json.dump({'results': results}, sys.stdout)
    sys.stdout.write('\n')


if __name__ == '__main__':
    main()
