"""C06 — every persistence driver behaves like the reference record store.

Theorems: coq/theories/Props/C06.v.  Tie: (C) random operation sequences are run against the real drivers (JSON in memory,
JSON on a scratch file with re-loads, Redis on fakeredis, MongoDB on mongomock) and every output is compared, inside coqc
(vm_compute), with
  * the Coq reference store (C06/RefStore.v)         -> `violations`   (specification oracle)
  * the Coq driver models (JsonDriver.v, RedisDriver.v, JsonStr.v, MongoXlate.v) -> `tie_failures`.

Canonicalisation (Python -> Coq term language, equality and ordering preserved):
  str -> list of code points; int -> JInt; bool -> JBool; None -> JNull; float -> JFloat m e (exact dyadic m*2^e, m odd;
  0.0 = (0,0), -0.0 = (0,1)); date -> JDate ordinal; datetime -> JDateTime microseconds since 0001-01-01;
  dict -> JObj with keys sorted by code point; a record (dict) -> fields sorted by name.
Nondeterminism of the specification is resolved by the implementation and checked for legality by the oracle: the id of
an automatic insert (any unused id is legal), and - Redis only - the iteration order of the id set at each query (any
permutation of the collection is legal; read from the fake server with SSCAN right before the call).
"""
import asyncio
import copy
import datetime
import json
import math
import os
import time

from harness.common import coq
from harness.common import repo

ID = 'C06'
PROPS = 'theories/Props/C06.v'
MODEL_TARGETS = ['theories/C06/Run.vo']
TRANSLATORS = []
TIE = ('correspondence by vm_compute: operation sequences on the real JSON / Redis (fakeredis) / Mongo (mongomock) drivers '
       'against the Coq driver models; real string codec against JsonStr.v; real _id_to_db/_filt_to_db against MongoXlate.v')
ALLOWED_AXIOMS = []
TRUSTED_BASE = [
    'correspondence harness harness/props/c06.py (generators, canonicalisation of Python values into Coq terms)',
    'fakeredis and mongomock as stand-ins for the servers; MongoDB query semantics (pymongo/mongomock) are trusted to '
    'equal the reference semantics on the generated fragment',
    'modelled, not verified: CPython dict ordering, list.sort, json.dumps/json.loads (string escaping and scanning are '
    'modelled exactly in C06/JsonStr.v; numbers, dates and containers are opaque atoms of the codec)',
]
ASSUMPTIONS = [
    'filters with ordering operators and sort keys only over fields of one scalar kind (numbers, strings, dates or '
    'datetimes) present in every record: Python raises on mixed-type / missing-key ordering - outside the contract',
    'sorting by `id` is not compared with the reference (automatic ids are only determined up to renaming)',
    'operator criteria on `id`: `in` (automatic and explicit ids mixed) on every driver for update / remove / query; gt ge lt '
    'le compare ids as strings on the JSON and Redis drivers and are not generated for Mongo (ObjectId and str keys side by '
    'side are ordered by BSON type, not as strings)',
    'ids are strings (persist/typing.py: Id = str): every string is a legal explicit id, including the falsy ones - the empty '
    'string and "0" are in the id pool; non-string ids (0, False, None) are outside the contract and not generated',
    'records without fields ({} / id only) are inserted, written by replace (with and without the id inside the record) and '
    'update is called with an empty record_part, on every driver; a collection that has received one is no longer sorted on',
    'limits are >= 0; NaN / infinities are not JSON-representable and are not generated; dates are >= year 1000 '
    '(strptime %Y needs four digits); record_part of update never contains `id`; projections are '
    'non-empty lists or None; explicit numeric ids are >= 1000 or "0" (the Redis counter would otherwise run into them)',
    'Mongo profile: BSON has no date-only type and 64-bit integers, arrays change the meaning of equality filters, '
    'modified_count ignores no-op updates: sequences run on Mongo use datetimes (ms precision), ints < 2^63, equality '
    'filters only on scalar fields, no limit=0 (MongoDB: 0 = no limit), and - while MONGO_NOOP_UPDATES is off, see finding 9 - every update sets a fresh value',
    'an equality criterion whose value is an object cannot be expressed (a dict criterion is the operator syntax)',
    'arguments are values: the harness keeps ONE filter dict / projection list / sort list object per distinct value and hands '
    'it again to the following operations with the same value (a filter built once, used for an update and then a remove); '
    'after every call every argument object (records and record parts too) must print as it did before the call, on all '
    'drivers and all operations - a driver that changes an argument is a violation by itself',
    'no aliasing: after every call the harness mutates in place everything the driver returned and (Redis, Mongo; JSON once '
    'fixes/C06-json-copy-inputs.diff is applied - JSON_INPUT_MUTATION) everything it was handed; later answers must not change',
    'the reserved key `__t` inside stored objects is generated on purpose (in-band type marker, finding F11)',
]

COLLS = ['ports', 'slaves', 'x:y-z']
ALPHABET = ['a', 'b', 'z', 'A', '0', ' ', '"', '\\', '\n', '\x00', '\t', '\x7f', '/', 'é', 'ß', '€', ' ',
            '\U0001f600', '\U00010000', '￿', '{', ':']
EXPLICIT_IDS = ['1034', '007', 'abc', 'long.id-with_vari0u5-characters', 'a:b', '-5', 'aaaaaaaaaaaaaaaaaaaaaaaa',
                '0123456789abcdef01234567', 'ABCDEFABCDEFABCDEFABCDEF', '5000', 'é"\\', '', '0', '']
KINDS = {'json-mem': 0, 'json-file': 0, 'redis': 1, 'mongo': 2}
OPS = ['gt', 'ge', 'lt', 'le', 'in']
COQ_OP = {'gt': 'Gt_', 'ge': 'Ge_', 'lt': 'Lt_', 'le': 'Le_', 'in': 'In_'}
EPOCH = datetime.datetime(1, 1, 1)


# ----------------------------------------------------------------------------------------------------------------
# values: python <-> JSON-able description <-> Coq

def enc(v):
    """python value -> JSON-able tagged description (used in corpus / replay files)"""
    if v is None or isinstance(v, (bool, str)):
        return v
    if isinstance(v, int):
        return {'int': str(v)}
    if isinstance(v, float):
        return {'float': v.hex()}
    if isinstance(v, datetime.datetime):
        return {'datetime': v.strftime('%Y-%m-%dT%H:%M:%S.%f')}
    if isinstance(v, datetime.date):
        return {'date': v.strftime('%Y-%m-%d')}
    if isinstance(v, list):
        return [enc(x) for x in v]
    if isinstance(v, dict):
        return {'obj': {k: enc(x) for k, x in v.items()}}
    if isinstance(v, Ref):
        return {'ref': v.uid}
    return {'other': repr(v)}


def dec(d):
    if d is None or isinstance(d, (bool, str)):
        return d
    if isinstance(d, list):
        return [dec(x) for x in d]
    if 'int' in d:
        return int(d['int'])
    if 'float' in d:
        return float.fromhex(d['float'])
    if 'datetime' in d:
        return datetime.datetime.strptime(d['datetime'], '%Y-%m-%dT%H:%M:%S.%f')
    if 'date' in d:
        return datetime.datetime.strptime(d['date'], '%Y-%m-%d').date()
    if 'obj' in d:
        return {k: dec(x) for k, x in d['obj'].items()}
    if 'ref' in d:
        return Ref(d['ref'])
    raise ValueError(d)


class Ref:
    """the id returned by the insert operation with this uid"""
    def __init__(self, uid):
        self.uid = uid


class Unrepresentable(Exception):
    pass


def cstr(s):
    return coq.zlist([ord(c) for c in s])


def cval(v):
    if v is None:
        return 'JNull'
    if isinstance(v, bool):
        return '(JBool %s)' % coq.boolean(v)
    if isinstance(v, int):
        return '(JInt %s)' % coq.z(v)
    if isinstance(v, float):
        if v != v or math.isinf(v):
            raise Unrepresentable(repr(v))
        if v == 0:
            return '(JFloat 0 %d)' % (1 if math.copysign(1.0, v) < 0 else 0)
        m, e = math.frexp(v)
        mi = int(m * (1 << 53))
        e -= 53
        while mi % 2 == 0:
            mi //= 2
            e += 1
        return '(JFloat %s %s)' % (coq.z(mi), coq.z(e))
    if isinstance(v, str):
        return '(JStr %s)' % cstr(v)
    if isinstance(v, datetime.datetime):
        if v.tzinfo is not None:
            raise Unrepresentable(repr(v))
        return '(JDateTime %d)' % ((v - EPOCH) // datetime.timedelta(microseconds=1))
    if isinstance(v, datetime.date):
        return '(JDate %d)' % v.toordinal()
    if isinstance(v, list):
        return '(JList %s)' % coq.lst(v, cval)
    if isinstance(v, dict):
        return '(JObj %s)' % cfields(v)
    raise Unrepresentable(repr(v))


def cfields(d):
    for k in d:
        if not isinstance(k, str):
            raise Unrepresentable(repr(k))
    return coq.lst(sorted(d.items(), key=lambda kv: [ord(c) for c in kv[0]]), lambda kv: '(%s, %s)' % (cstr(kv[0]), cval(kv[1])))


def ccond(c):
    if c[0] == 'eq':
        return '(FEq %s)' % cval(c[1])
    return '(FOps %s)' % coq.lst(c[1], lambda ov: '(%s, %s)' % (COQ_OP[ov[0]], cval(ov[1])))


def cfilt(f):
    return coq.lst(f, lambda kc: '(%s, %s)' % (cstr(kc[0]), ccond(kc[1])))


def cop(op):
    k = op['op']
    c = cstr(op['coll'])
    if k == 'insert':
        return '(Insert %s %s %s)' % (c, coq.option(op['id'], cstr), cfields(op['record']))
    if k == 'update':
        return '(Update %s %s %s)' % (c, cfields(op['part']), cfilt(op['filt']))
    if k == 'replace':
        return '(Replace %s %s %s)' % (c, cstr(op['id']), cfields(op['record']))
    if k == 'remove':
        return '(Remove %s %s)' % (c, cfilt(op['filt']))
    return '(Query %s %s %s %s %s)' % (
        c, coq.option(op['fields'], lambda fs: coq.lst(fs, cstr)), cfilt(op['filt']),
        coq.lst(op['sort'], lambda fr: '(%s, %s)' % (cstr(fr[0]), coq.boolean(fr[1]))), coq.option(op['limit'], coq.z))


def cout(o):
    t = o[0]
    if t == 'id':
        return '(OId %s)' % cstr(o[1])
    if t == 'dup':
        return 'ODup'
    if t == 'count':
        return '(OCount %s)' % coq.z(o[1])
    if t == 'bool':
        return '(OBool %s)' % coq.boolean(o[1])
    if t == 'recs':
        return '(ORecs %s)' % coq.lst(o[1], cfields)
    return 'OErr'


# ----------------------------------------------------------------------------------------------------------------
# generation of abstract sequences

def has_reserved(v):
    if isinstance(v, dict):
        return '__t' in v or any(has_reserved(x) for x in v.values())
    if isinstance(v, list):
        return any(has_reserved(x) for x in v)
    return False


def special_str(v):
    if isinstance(v, str):
        return any(c in '"\\' or ord(c) < 32 for c in v)
    if isinstance(v, dict):
        return any(special_str(x) for x in v.values())
    if isinstance(v, list):
        return any(special_str(x) for x in v)
    return False


class Gen:
    def __init__(self, rng, mongo_safe):
        self.rng = rng
        self.mongo = mongo_safe
        self.uid = 0
        self.inserted = {c: [] for c in COLLS}     # uids of insert ops per collection
        self.explicit = {c: [] for c in COLLS}
        self.pool = {c: {} for c in COLLS}          # field -> values seen (for filters that hit)
        self.unsortable = set()                     # collections that received a record without the mandatory fields

    def string(self, maxlen=6):
        rng = self.rng
        if rng.random() < 0.3:
            return rng.choice(['', 'a', 'b', 'ab', 'a"b', 'a\\b', '\\', '"', 'a\nb', '\\n', '\\u0041', '\\"', 'é'])
        return ''.join(rng.choice(ALPHABET) for _ in range(rng.randint(0, maxlen)))

    def integer(self):
        rng = self.rng
        r = rng.random()
        if r < 0.5:
            return rng.randint(-3, 6)
        if r < 0.8:
            return rng.choice([2 ** 31, 2 ** 53, 2 ** 53 + 1, -(2 ** 53) - 1, 2 ** 62, -(2 ** 63) + 1, 10 ** 15])
        if self.mongo:
            return rng.randint(-(2 ** 62), 2 ** 62)
        return rng.choice([2 ** 63, 2 ** 64, 2 ** 70, -(2 ** 70), 2 ** 70 - 1, 10 ** 21, rng.randint(-(2 ** 70), 2 ** 70)])

    def floating(self):
        rng = self.rng
        r = rng.random()
        if r < 0.6:
            return rng.choice([0.0, -0.0, 1.0, 2.0, -1.5, 0.5, 0.1, 0.2, 0.30000000000000004, 3.0, 1e16, 1e22, 1e23, 1e300,
                               -1e300, 5e-324, 2.2250738585072014e-308, 1.7976931348623157e308, 123.456, 2.675,
                               9007199254740993.0, 1e-7])
        return rng.uniform(-10, 10) if r < 0.8 else float.fromhex('0x1.%013xp%d' % (rng.getrandbits(52), rng.randint(-60, 60)))

    def date(self):
        rng = self.rng
        return datetime.date.fromordinal(rng.choice([365243, 737425, 737426, 3652059, rng.randint(365243, 3652059)]))

    def dtime(self):
        rng = self.rng
        us = rng.choice([0, 0, 678, 999999, 500000, rng.randint(0, 999999)])
        if self.mongo:
            us = us // 1000 * 1000
        return datetime.datetime.combine(self.date(), datetime.time(rng.randint(0, 23), rng.randint(0, 59), rng.randint(0, 59), us))

    def scalar(self):
        rng = self.rng
        r = rng.random()
        if r < 0.25:
            return self.string()
        if r < 0.45:
            return self.integer()
        if r < 0.6:
            return self.floating()
        if r < 0.7:
            return rng.random() < 0.5
        if r < 0.8:
            return None
        if r < 0.9:
            return self.dtime()
        return self.dtime() if self.mongo else self.date()

    def value(self, depth=0):
        rng = self.rng
        r = rng.random()
        if depth >= 3 or r < 0.55:
            return self.scalar()
        if r < 0.78:
            return [self.value(depth + 1) for _ in range(rng.randint(0, 3))]
        if r < 0.80:
            # the in-band type marker of utils/json.py used as plain data (finding F11)
            return rng.choice([
                {'__t': '__d', '__v': '2020-01-01'}, {'__t': '__dt', '__v': '2020-01-02T03:04:05.000678Z'},
                {'__t': '__d', '__v': 'nope'}, {'__t': 'other', '__v': 1}, {'__t': '__d', '__v': '2021-12-31', 'k': 1},
            ])
        keys = [self.string(3) for _ in range(rng.randint(0, 3))]
        if self.mongo:      # BSON keys: no NUL, no dots, no leading $
            keys = [k.replace('\x00', 'n').replace('.', 'd').replace('$', 's') for k in keys]
        return {k: self.value(depth + 1) for k in keys}

    def typed(self, field):
        rng = self.rng
        if field == 'n':
            return rng.randint(0, 3)
        if field == 's':
            return self.string(3) if rng.random() < 0.6 else rng.choice(['a', 'b', 'a"b', '\\'])
        if field == 'f':
            return rng.choice([self.floating, self.integer])() if rng.random() < 0.7 else rng.choice([1, 1.0, 2, 2.5, 0.0, -0.0, 0])
        if field == 'd':
            return self.dtime() if self.mongo else self.date()
        if field == 't':
            return self.dtime()
        if field == 'b':
            return rng.random() < 0.5
        raise KeyError(field)

    # mandatory fields per collection (always present, one kind): these are the legal sort keys
    MANDATORY = {COLLS[0]: ['n', 's'], COLLS[1]: ['n', 'f'], COLLS[2]: ['s', 'd']}
    OPTIONAL = ['f', 't', 'b', 'd', 's', 'n']
    FREE = ['x', 'y', 'é"k']

    def record(self, coll, allow_empty=True):
        rng = self.rng
        if allow_empty and rng.random() < 0.04:
            self.unsortable.add(coll)               # sort keys must be present in every record (contract)
            return {}
        r = {}
        for f in self.MANDATORY[coll]:
            r[f] = self.typed(f)
        for f in self.OPTIONAL:
            if f not in r and rng.random() < 0.2:
                r[f] = self.typed(f)
        for f in self.FREE:
            if rng.random() < 0.35:
                r[f] = self.value()
        items = list(r.items())
        rng.shuffle(items)
        r = dict(items)
        for k, v in r.items():
            self.pool[coll].setdefault(k, []).append(v)
        return r

    def part(self, coll, uid):
        rng = self.rng
        p = {}
        if rng.random() < 0.04:
            return p                                # update(..., {}, filt): counts the matches, changes nothing
        fields = self.MANDATORY[coll] + self.OPTIONAL
        for _ in range(rng.randint(1, 2)):
            f = rng.choice(fields + self.FREE)
            p[f] = self.value() if f in self.FREE else self.typed(f)
        if self.mongo and not MONGO_NOOP_UPDATES:
            p['u'] = uid
        for k, v in p.items():
            self.pool[coll].setdefault(k, []).append(v)
        return p

    def some_id(self, coll):
        """an id criterion value: mostly an existing record's id"""
        rng = self.rng
        r = rng.random()
        if r < 0.6 and self.inserted[coll]:
            return Ref(rng.choice(self.inserted[coll]))
        if r < 0.8 and self.explicit[coll]:
            return rng.choice(self.explicit[coll])
        if r < 0.9:
            return rng.choice(EXPLICIT_IDS)
        other = rng.choice(COLLS)
        return Ref(rng.choice(self.inserted[other])) if self.inserted[other] else 'nope'

    def typed_value_for(self, coll, f):
        rng = self.rng
        seen = self.pool[coll].get(f)
        if seen and rng.random() < 0.7:
            return rng.choice(seen)
        return self.typed(f)

    def filt(self, coll):
        rng = self.rng
        f = []
        r = rng.random()
        if r < 0.12:
            return f
        if r < 0.38:
            # by id (fast path), alone or with further criteria
            f.append(['id', ['eq', self.some_id(coll)]])
            if rng.random() < 0.6:
                return f
        elif r < 0.56:
            # operators on id: `in` with automatic and explicit ids mixed; gt/ge/lt/le compare ids as strings (JSON, Redis).
            # Not on Mongo: its keys are ObjectIds and strings side by side, whose mutual order is BSON's, not the strings'.
            ops = []
            for o in rng.sample(['in', 'in', 'in'] if self.mongo else ['in', 'in', 'in', 'gt', 'ge', 'lt', 'le'], rng.choice([1, 1, 2])):
                if any(o == o2 for o2, _ in ops):
                    continue
                if o == 'in':
                    ops.append([o, [self.some_id(coll) for _ in range(rng.randint(0, 4))]])
                else:
                    ops.append([o, self.some_id(coll)])
            f.append(['id', ['ops', ops]])
            if rng.random() < 0.6:
                return f
        for _ in range(rng.randint(1, 2)):
            fld = rng.choice(self.MANDATORY[coll] * 3 + self.OPTIONAL + self.FREE)
            if any(fld == k for k, _ in f):
                continue
            if fld in self.FREE:
                if self.mongo:
                    continue
                seen = self.pool[coll].get(fld)
                v = rng.choice(seen) if seen and rng.random() < 0.8 else self.value()
                if not isinstance(v, dict):     # a dict as criterion IS the operator syntax of the API
                    f.append([fld, ['eq', v]])
                continue
            q = rng.random()
            if q < 0.4:
                f.append([fld, ['eq', self.typed_value_for(coll, fld)]])
            else:
                ops = []
                for o in rng.sample(OPS, rng.choice([1, 1, 2])):
                    if o == 'in':
                        ops.append([o, [self.typed_value_for(coll, fld) for _ in range(rng.randint(0, 3))]])
                    else:
                        ops.append([o, self.typed_value_for(coll, fld)])
                f.append([fld, ['ops', ops]])
        rng.shuffle(f)
        return f

    def op(self):
        rng = self.rng
        self.uid += 1
        uid = self.uid
        coll = rng.choice(COLLS[:2] * 2 + COLLS[2:]) if rng.random() < 0.9 else rng.choice(COLLS)
        r = rng.random()
        n_ins = sum(len(v) for v in self.inserted.values())
        if r < (0.55 if n_ins < 4 else 0.25):
            rec = self.record(coll)
            idv = None
            if rng.random() < 0.25:
                idv = rng.choice(EXPLICIT_IDS)
                if rng.random() < 0.7:
                    self.explicit[coll].append(idv)
            else:
                self.inserted[coll].append(uid)
            return {'uid': uid, 'op': 'insert', 'coll': coll, 'id': idv, 'record': rec}
        if r < 0.40:
            return {'uid': uid, 'op': 'update', 'coll': coll, 'part': self.part(coll, uid), 'filt': self.filt(coll)}
        if r < 0.50:
            o = {'uid': uid, 'op': 'replace', 'coll': coll, 'id': self.some_id(coll), 'record': self.record(coll, rng.random() < 0.5)}
            if rng.random() < 0.12:
                o['record'] = {}                    # a field-less record: only its id is left
                self.unsortable.add(coll)
            if rng.random() < 0.3:
                o['with_id'] = True                 # the record carries its own id, as persist.replace() passes it
            return o
        if r < 0.60:
            return {'uid': uid, 'op': 'remove', 'coll': coll, 'filt': self.filt(coll)}
        if r < 0.63:
            return {'uid': uid, 'op': 'reload'}
        sort = []
        if rng.random() < 0.6 and coll not in self.unsortable:
            keys = list(self.MANDATORY[coll])
            rng.shuffle(keys)
            sort = [[k, rng.random() < 0.5] for k in keys[:rng.choice([1, 1, 2])]]
        fields = None
        if rng.random() < 0.35:
            fields = rng.sample(['id', 'n', 's', 'f', 'x', 'x', 'y', 'é"k', 'nonexistent', 'd'], rng.randint(1, 3))
        limit = rng.choice([None, None, 1, 2, 3, 100] if self.mongo else [None, None, 0, 1, 2, 3, 100])
        return {'uid': uid, 'op': 'query', 'coll': coll, 'fields': fields, 'filt': self.filt(coll), 'sort': sort, 'limit': limit}

    def repeat(self, done):
        """idempotence: re-issue an earlier operation unchanged (the same insert with an explicit id -> refused or accepted
        again after a removal; the same remove -> 0; the same replace -> still True, with content identical to what is
        stored; the same update), or write back the very record an insert stored"""
        rng = self.rng
        cands = [o for o in done if (o['op'] == 'insert' and o['id'] is not None) or o['op'] in ('remove', 'replace')
                 or (o['op'] == 'update' and (MONGO_NOOP_UPDATES or not self.mongo))]
        autos = [o for o in done if o['op'] == 'insert' and o['id'] is None]
        self.uid += 1
        if autos and rng.random() < 0.3:
            o = rng.choice(autos)
            return {'uid': self.uid, 'op': 'replace', 'coll': o['coll'], 'id': Ref(o['uid']), 'record': copy.deepcopy(o['record'])}
        filts = [o for o in done if o.get('filt')]
        if filts and rng.random() < 0.3:
            # a caller builds a filter once and uses it for several operations in a row
            o = filts[-1] if rng.random() < 0.6 else rng.choice(filts)
            f = copy.deepcopy(o['filt'])
            r = rng.random()
            if r < 0.35:
                return {'uid': self.uid, 'op': 'remove', 'coll': o['coll'], 'filt': f}
            if r < 0.7:
                return {'uid': self.uid, 'op': 'update', 'coll': o['coll'], 'part': self.part(o['coll'], self.uid), 'filt': f}
            return {'uid': self.uid, 'op': 'query', 'coll': o['coll'], 'fields': None, 'filt': f, 'sort': [], 'limit': None}
        if not cands:
            self.uid -= 1
            return None
        o = cands[-1] if rng.random() < 0.5 else rng.choice(cands)
        o2 = copy.deepcopy(o)
        o2['uid'] = self.uid
        return o2

    def sequence(self, maxlen=40):
        n = self.rng.randint(4, maxlen)
        out = []
        for _ in range(n):
            o = self.repeat(out) if out and self.rng.random() < 0.12 else None
            out.append(o or self.op())
        return out


def seq_to_json(seq):
    out = []
    for o in seq:
        d = dict(o)
        for k in ('record', 'part'):
            if k in d:
                d[k] = {f: enc(v) for f, v in d[k].items()}
        if 'filt' in d:
            d['filt'] = [[k, [c[0], enc(c[1]) if c[0] == 'eq' else [[o2, enc(v)] for o2, v in c[1]]]] for k, c in d['filt']]
        if isinstance(d.get('id'), Ref):
            d['id'] = {'ref': d['id'].uid}
        out.append(d)
    return out


def seq_from_json(js):
    out = []
    for d in js:
        d = dict(d)
        for k in ('record', 'part'):
            if k in d:
                d[k] = {f: dec(v) for f, v in d[k].items()}
        if 'filt' in d:
            d['filt'] = [[k, [c[0], dec(c[1]) if c[0] == 'eq' else [[o2, dec(v)] for o2, v in c[1]]]] for k, c in d['filt']]
        if isinstance(d.get('id'), dict):
            d['id'] = Ref(d['id']['ref'])
        out.append(d)
    return out


def mongo_safe_seq(seq):
    """can this sequence be run on the Mongo driver within the stated assumptions?"""
    def ok(v):
        if isinstance(v, datetime.datetime):
            return v.microsecond % 1000 == 0
        if isinstance(v, datetime.date):
            return False
        if isinstance(v, bool) or v is None or isinstance(v, (str, float, Ref)):
            return True
        if isinstance(v, int):
            return -(2 ** 63) <= v < 2 ** 63
        if isinstance(v, list):
            return all(ok(x) for x in v)
        if isinstance(v, dict):
            return all(ok(x) and '\x00' not in k and not k.startswith('$') and '.' not in k for k, x in v.items())
        return False
    for o in seq:
        for k in ('record', 'part'):
            if k in o and not ok(o[k]):
                return False
        if o['op'] == 'update' and not MONGO_NOOP_UPDATES and 'u' not in o['part']:
            return False
        if o['op'] == 'query' and o['limit'] == 0:
            return False
        for k, c in o.get('filt', []):
            vals = [c[1]] if c[0] == 'eq' else [v for _, v in c[1]]
            if not all(ok(v) for v in vals):
                return False
            if k in Gen.FREE:
                return False
    return True


# ----------------------------------------------------------------------------------------------------------------
# running a sequence on a real driver

_patched = {}


def make_driver(kind, workdir, tag):
    from qtoggleserver.drivers.persist import json as json_driver
    if kind == 'json-mem':
        return json_driver.JSONDriver(None, pretty_format=False), None
    if kind == 'json-file':
        path = os.path.join(workdir, 'store-%s.json' % tag)
        for p in (path, path.replace('.json', '_backup.json')):
            if os.path.exists(p):
                os.remove(p)
        return json_driver.JSONDriver(path, pretty_format=False, use_backup=True), path
    if kind == 'redis':
        import fakeredis
        import redis as python_redis
        if 'redis' not in _patched:
            python_redis.StrictRedis = fakeredis.FakeStrictRedis
            _patched['redis'] = True
        from qtoggleserver.drivers.persist import redis as redis_driver
        d = redis_driver.RedisDriver()
        d._client.flushall()
        return d, None
    if kind == 'mongo':
        import mongomock
        import pymongo
        if 'mongo' not in _patched:
            pymongo.MongoClient = mongomock.MongoClient
            _patched['mongo'] = True
        from qtoggleserver.drivers.persist import mongo as mongo_driver
        return mongo_driver.MongoDriver(db='c06_%s' % tag), None
    raise KeyError(kind)


def available_kinds():
    kinds = ['json-mem', 'json-file']
    missing = []
    try:
        import fakeredis  # noqa
        import redis  # noqa
        kinds.append('redis')
    except Exception as e:
        missing.append('redis/fakeredis: %s' % e)
    try:
        import mongomock  # noqa
        import pymongo  # noqa
        import bson  # noqa
        kinds.append('mongo')
    except Exception as e:
        missing.append('pymongo/mongomock: %s' % e)
    return kinds, missing


def canon_records(rs):
    out = []
    for r in rs:
        if not isinstance(r, dict):
            raise Unrepresentable(repr(r))
        cfields(r)  # raises Unrepresentable
        out.append(r)
    return out


# No aliasing: "behaves like a plain in-memory reference store for ANY sequence of operations" includes the caller's own
# moves between two operations.  The reference store's values are immutable (Coq terms), so whatever the caller does with
# a returned record, or with a record it handed over earlier, cannot change later answers.  The harness therefore
#   * hands deep copies to the driver and keeps the originals for the reference store,
#   * after every call, vandalises in place everything the driver returned (nested lists get elements, nested objects get
#     keys, scalars are overwritten, the result list is cleared) and everything it was handed (see JSON_INPUT_MUTATION).
MUT = '\x00mutated-by-caller'
# The JSON driver at the snapshot keeps the caller's own objects (insert stores the dict it is given / its nested values,
# update and replace store the nested values of record_part / record uncopied): finding 7 in notes/C06.md, repair proposed
# in fixes/C06-json-copy-inputs.diff.  Until that repair (or a known entry {"input_aliasing": true}) is in place the
# mutation of *inputs* is exercised on the Redis and Mongo drivers only; set to True afterwards.
JSON_INPUT_MUTATION = True
# The Mongo driver's update() returns modified_count: a matching record that already holds the new values is not counted,
# where the reference store and the JSON / Redis drivers return the number of records matched (finding 9 in notes/C06.md,
# repair proposed in fixes/C06-mongo-update-matched-count.diff).  Until that repair (or a known entry
# {"driver": "mongo", "op": "update", "observed": "count"}) is in, updates generated for the Mongo profile always set a
# fresh value; set to True afterwards.
MONGO_NOOP_UPDATES = True


def vandalise(v):
    """mutate a structure in place, as deep as it goes"""
    if isinstance(v, dict):
        for k in list(v):
            x = v[k]
            if isinstance(x, (dict, list)):
                vandalise(x)
            else:
                v[k] = MUT
        v[MUT] = [MUT]
    elif isinstance(v, list):
        for i, x in enumerate(v):
            if isinstance(x, (dict, list)):
                vandalise(x)
            else:
                v[i] = MUT
        v.append(MUT)


async def run_seq(kind, seq, workdir, tag):
    """-> list of steps {'op': concrete op, 'out': (...), 'scan': [...]|None, 'note': str}; stops at the first error"""
    from qtoggleserver.drivers.persist import json as json_driver
    driver, path = make_driver(kind, workdir, tag)
    await driver.init()
    ids = {}
    steps = []

    def res(v):
        if isinstance(v, Ref):
            return ids.get(v.uid, 'missing-%d' % v.uid)
        if isinstance(v, list):
            return [res(x) for x in v]
        return v

    def rfilt(f):
        return copy.deepcopy({k: (res(c[1]) if c[0] == 'eq' else {o: res(v) for o, v in c[1]}) for k, c in f})

    mutate_inputs = JSON_INPUT_MUTATION or not kind.startswith('json')

    # A driver must not change its arguments.  Filter dicts, projection lists and sort lists are kept by the harness as
    # ONE object per distinct value and handed again to the following operations that use the same value (a caller that
    # builds a filter once and uses it for an update and then a remove); every argument object is compared, after the
    # call, with its printed form taken before the call.
    shared = {}
    watched = []

    def arg(role, value, reuse=True):
        r = repr(value)
        hit = shared.get(role)
        if reuse and hit is not None and hit[0] == r:
            value = hit[1]
        elif reuse:
            shared[role] = (r, value)
        watched.append((role, value, repr(value)))
        return value

    def handed(d):
        """the copy handed to the driver; vandalised once the call has returned"""
        d = copy.deepcopy(d)
        if mutate_inputs:
            pending.append(d)
        return d

    def handed_arg(role, d, extra=None):
        d = handed(d)
        if extra:
            d.update(extra)
        return arg(role, d, reuse=False)

    pending = []

    def cfilt_concrete(f):
        return [[k, ['eq', res(c[1])] if c[0] == 'eq' else ['ops', [[o, res(v)] for o, v in c[1]]]] for k, c in f]

    for o in seq:
        k = o['op']
        if k == 'reload':
            if kind == 'json-file':
                driver = json_driver.JSONDriver(path, pretty_format=False, use_backup=True)
                await driver.init()
            continue
        coll = o['coll']
        if kind == 'json-file' and k == 'query' and o['uid'] % 2 == 0:
            # every second query of the file-backed driver is answered by a fresh instance loaded from the file:
            # every write must have been saved by the operation that made it
            driver = json_driver.JSONDriver(path, pretty_format=False, use_backup=True)
            await driver.init()
        conc = {'uid': o['uid'], 'op': k, 'coll': coll}
        scan = None
        note = ''
        try:
            if k == 'insert':
                conc['id'] = o['id']
                conc['record'] = o['record']
                rec = handed_arg('record', o['record'], None if o['id'] is None else {'id': o['id']})
                try:
                    new_id = await driver.insert(coll, rec)
                    out = ('id', new_id)
                    if not isinstance(new_id, str):
                        raise Unrepresentable('id %r' % (new_id,))
                    if o['id'] is None:
                        ids[o['uid']] = new_id
                except Exception as e:
                    if type(e).__name__ in ('DuplicateRecordId', 'DuplicateKeyError'):
                        out = ('dup',)
                    else:
                        raise
            elif k == 'update':
                conc['part'] = o['part']
                conc['filt'] = cfilt_concrete(o['filt'])
                out = ('count', int(await driver.update(coll, handed_arg('record_part', o['part']), arg('filt', rfilt(o['filt'])))))
            elif k == 'replace':
                conc['id'] = res(o['id'])
                conc['record'] = o['record']
                out = ('bool', bool(await driver.replace(coll, conc['id'], handed_arg('record', o['record'], {'id': conc['id']} if o.get('with_id') else None))))
            elif k == 'remove':
                conc['filt'] = cfilt_concrete(o['filt'])
                out = ('count', int(await driver.remove(coll, arg('filt', rfilt(o['filt'])))))
            else:
                conc['filt'] = cfilt_concrete(o['filt'])
                conc['fields'], conc['sort'], conc['limit'] = o['fields'], o['sort'], o['limit']
                if kind == 'redis':
                    scan = [str(x) for x in driver._client.sscan_iter(driver._make_set_key(coll))]
                rs = await driver.query(coll, None if o['fields'] is None else arg('fields', list(o['fields'])),
                                        arg('filt', rfilt(o['filt'])), arg('sort', [(f, r) for f, r in o['sort']]), o['limit'])
                rs = list(rs)
                out = ('recs', canon_records(copy.deepcopy(rs)))
                vandalise(rs)
                del rs[:]
        except Exception as e:
            out = ('err',)
            note = '%s: %s' % (type(e).__name__, str(e)[:200])
        changed = [(role, before, repr(obj)) for role, obj, before in watched if repr(obj) != before]
        del watched[:]
        for d in pending:
            vandalise(d)
        del pending[:]
        steps.append({'op': conc, 'out': out, 'scan': scan, 'note': note})
        if changed:
            steps[-1]['arg_changed'] = changed
        if out[0] == 'err':
            break
    try:
        await driver.cleanup()
    except Exception:
        pass
    return steps


def case_text(kind, steps, name):
    """one Definition per step and per case: coqc's stack does not survive one huge list literal"""
    defs = []
    for i, s in enumerate(steps):
        defs.append('Definition %s_%d : stepc := (%s, %s, %s).' % (
            name, i, cop(s['op']), cout(s['out']), coq.option(s['scan'], lambda l: coq.lst(l, cstr))))
    defs.append('Definition %s : Z * list stepc := (%d, [%s]).' % (
        name, KINDS[kind], '; '.join('%s_%d' % (name, i) for i in range(len(steps)))))
    return '\n'.join(defs)


HEADER = 'From QT Require Import C06.Run.\nOpen Scope Z_scope.\n'


def eval_cases(ctx, name, cases):
    """cases: list of (kind, steps) -> (bad_spec dict case->step, bad_model dict case->step, errors)"""
    shards, spans = [], []
    per = 120
    for i in range(0, len(cases), per):
        chunk = cases[i:i + per]
        shards.append('\n'.join(case_text(k, s, 'c%d' % x) for x, (k, s) in enumerate(chunk))
                      + '\nDefinition cases : list (Z * list stepc) := [%s].\n' % '; '.join('c%d' % x for x in range(len(chunk))))
        spans.append(i)
    outs = coq.eval_shards(ctx.workdir, name, HEADER, shards, ['bad_spec cases', 'bad_model cases'], jobs=2)
    bad_spec, bad_model, errors = {}, {}, []
    for (rc, lists, err), base in zip(outs, spans):
        if rc != 0 or len(lists) != 2:
            errors.append('coqc failed on a case shard: %s' % err[-600:])
            continue
        for x in lists[0]:
            bad_spec[base + x // 1000] = x % 1000
        for x in lists[1]:
            bad_model[base + x // 1000] = x % 1000
    return bad_spec, bad_model, errors


# ----------------------------------------------------------------------------------------------------------------
# classification and shrinking of violations

def seq_values(seq):
    for o in seq:
        for k in ('record', 'part'):
            if k in o:
                yield from o[k].values()


def classify(kind, seq, steps, j, reserved=False):
    """key of a violation (what known_findings.json entries match on), computed on the shrunk sequence"""
    op = steps[j]['op'] if j < len(steps) else {}
    key = {'driver': kind.split('-')[0], 'op': op.get('op'), 'observed': steps[j]['out'][0] if j < len(steps) else None}
    vals = list(seq_values(seq))
    if reserved:      # established by a counterfactual run: the same sequence with the key renamed agrees with the reference
        key['reserved_key'] = '__t'
    if any(special_str(v) for v in vals):
        key['string_needs_escaping'] = True
    f = op.get('filt') or []
    if any(k == 'id' and c[0] == 'eq' for k, c in f) and len(f) > 1:
        key['id_plus_criteria'] = True
    if any(k == 'id' and c[0] == 'ops' for k, c in f):
        key['id_operators'] = sorted(o2 for k, c in f if k == 'id' and c[0] == 'ops' for o2, _ in c[1])
    if any(o['op'] in ('insert', 'replace') and not o['record'] for o in seq):
        key['empty_record'] = True
    if j < len(steps) and steps[j]['out'][0] == 'recs' and 'mutated-by-caller' in json.dumps([{k: enc(v) for k, v in r.items()} for r in steps[j]['out'][1]], default=str):
        key['caller_mutation_visible'] = True     # aliasing: an in-place edit made by the caller shows up in the store
        if kind.startswith('json') and JSON_INPUT_MUTATION:
            key['aliasing'] = 'input-or-output'
    return key


def rename_reserved(v):
    if isinstance(v, dict):
        return {('__t_' if k == '__t' else k): rename_reserved(x) for k, x in v.items()}
    if isinstance(v, list):
        return [rename_reserved(x) for x in v]
    return v


def without_reserved(seq):
    out = []
    for o in seq:
        o = dict(o)
        for k in ('record', 'part'):
            if k in o:
                o[k] = rename_reserved(o[k])
        out.append(o)
    return out


def attributable_to_reserved(ctx, items, tag):
    """items: list of (kind, seq).  -> list of bool: the sequence stores an object with the key `__t` AND the same sequence
    with that key renamed agrees with the reference store on this driver (so the reserved key is what makes it fail)"""
    idx = [i for i, (kind, seq) in enumerate(items) if any(has_reserved(v) for v in seq_values(seq))]
    out = [False] * len(items)
    if not idx:
        return out
    runs = [(items[i][0], asyncio.run(run_seq(items[i][0], without_reserved(items[i][1]), ctx.workdir, '%s_%d' % (tag, i)))) for i in idx]
    bs, _, errs = eval_cases(ctx, 'cf_%s' % tag, runs)
    if errs:
        return out
    for n, i in enumerate(idx):
        out[i] = n not in bs
    return out


def shrink(ctx, kind, seq, j_uid, tag):
    """greedy reduction: drop operations, then record fields / criteria / query options, while a step of the same kind
    still contradicts the reference in the same way (same operation kind, same kind of output).  Candidates of one round
    are evaluated in one coqc call; all individually removable items are then removed together if that still fails."""
    counter = [0]

    def run(s):
        return asyncio.run(run_seq(kind, s, ctx.workdir, tag))

    def evaluate(cands):
        counter[0] += 1
        runs = [run(c) for c in cands]
        bs, _, _ = eval_cases(ctx, 'shr%d_%s' % (counter[0], tag), [(kind, r) for r in runs])
        return runs, bs

    def sig(steps, j):
        return (steps[j]['op']['op'], steps[j]['out'][0])

    def cut(s, steps, j):
        uid = steps[j]['op']['uid']
        idx = [i for i, o in enumerate(s) if o['uid'] == uid][0]
        return s[:idx + 1]

    runs, bs = evaluate([seq])
    if 0 not in bs:
        return seq, runs[0], None
    want = sig(runs[0], bs[0])
    cur = cut(seq, runs[0], bs[0])

    def reduce(make_cands, combine):
        nonlocal cur
        for _ in range(3):
            items, cands = make_cands(cur)
            if not cands:
                return
            runs, bs = evaluate(cands)
            good = [i for i in sorted(bs) if sig(runs[i], bs[i]) == want]
            if not good:
                return
            if len(good) > 1:
                both = combine(cur, [items[i] for i in good])
                r2, b2 = evaluate([both])
                if 0 in b2 and sig(r2[0], b2[0]) == want:
                    cur = cut(both, r2[0], b2[0])
                    continue
            i = good[0]
            cur = cut(cands[i], runs[i], bs[i])

    def op_cands(s):
        idx = list(range(len(s) - 1))
        return idx, [s[:i] + s[i + 1:] for i in idx]

    def op_combine(s, idx):
        return [o for i, o in enumerate(s) if i not in set(idx)]

    def apply_edit(o, e):
        o = dict(o)
        if e[0] in ('record', 'part'):
            o[e[0]] = {a: b for a, b in o[e[0]].items() if a != e[1]}
        elif e[0] == 'filt':
            o['filt'] = [kc for kc in o['filt'] if kc[0] != e[1]]
        elif e[0] == 'plain':
            o.update(sort=[], fields=None, limit=None)
        return o

    def field_cands(s):
        items = []
        for i, o in enumerate(s):
            for k in ('record', 'part'):
                if k in o and len(o[k]) > 1:
                    for f in list(o[k])[:len(o[k]) - 1]:
                        items.append((i, (k, f)))
            for kc in o.get('filt') or []:
                items.append((i, ('filt', kc[0])))
            if o['op'] == 'query' and (o['sort'] or o['fields'] is not None or o['limit'] is not None):
                items.append((i, ('plain',)))
        items = items[:120]
        return items, [s[:i] + [apply_edit(s[i], e)] + s[i + 1:] for i, e in items]

    def field_combine(s, items):
        s = list(s)
        for i, e in items:
            o = apply_edit(s[i], e)
            if any(k in o and not o[k] for k in ('record', 'part')):
                continue
            s[i] = o
        return s

    reduce(op_cands, op_combine)
    reduce(field_cands, field_combine)
    reduce(op_cands, op_combine)
    runs, bs = evaluate([cur])
    return cur, runs[0], bs.get(0)


def describe_step(s):
    d = {'op': seq_to_json([s['op']])[0], 'observed': list(s['out'][:1])}
    if s['out'][0] == 'recs':
        d['observed'].append([{k: enc(v) for k, v in r.items()} for r in s['out'][1]])
    elif len(s['out']) > 1:
        d['observed'].append(s['out'][1])
    if s['note']:
        d['raised'] = s['note']
    if s['scan'] is not None:
        d['scan_order'] = s['scan']
    if 'arg_changed' in s:
        d['arguments_changed'] = [{'argument': r, 'before': b, 'after': a} for r, b, a in s['arg_changed']]
    return d


# ----------------------------------------------------------------------------------------------------------------
# codec and translation ties

def codec_cases(ctx, res, rng, n):
    """the real Redis codec on strings against JsonStr.v (model) and against the round-trip requirement (spec)"""
    try:
        import redis  # noqa
        from qtoggleserver.drivers.persist.redis import RedisDriver
    except Exception:
        return
    g = Gen(rng, False)
    strs = ['a"b', '\\', 'a\\nb', '\n', '\x00', '\x1f', '\x7f', 'é', '\U0001f600', '퟿', '', '"', '\\u0041', '\\"',
            'plain'] + [g.string(8) for _ in range(n)]
    rows, meta = [], []
    for s in strs:
        t = RedisDriver._value_to_db(s)
        try:
            back = RedisDriver._value_from_db(t)
            if not isinstance(back, str):
                back = None
        except Exception:
            back = None
        rows.append('(%s, %s, %s)' % (cstr(s), cstr(t), coq.option(back, cstr)))
        meta.append((s, t, back))
        if back != s and sum(1 for v in res['violations'] if v['key'].get('op') == 'codec') < 2:
            res['violations'].append({
                'key': {'driver': 'redis', 'op': 'codec', 'string_needs_escaping': special_str(s)},
                'what': 'Redis driver: _value_from_db(_value_to_db(%r)) %s' % (s, 'raises' if back is None else '= %r' % back),
                'case': {'string': s, 'stored_text': t}, 'observed': back,
            })
    res['evaluations'] += len(strs)
    if not ctx.model_ok:
        return
    body = 'Definition codec : list (str * list Z * option str) := [\n  %s].\n' % ';\n  '.join(rows)
    outs = coq.eval_shards(ctx.workdir, 'c06codec', HEADER, [body], ['bad_codec false codec'])
    rc, lists, err = outs[0]
    if rc != 0 or len(lists) != 1:
        res['tie_failures'].append('coqc failed on the codec cases: %s' % err[-400:])
        return
    for i in lists[0][:5]:
        s, t, back = meta[i]
        res['tie_failures'].append({'note': 'string codec model (repaired dumps) differs from utils/json.py', 'string': s,
                                    'stored_text': t, 'read_back': back})
    res['distribution']['codec_strings'] = len(strs)


def xlate_cases(ctx, res, rng):
    try:
        import bson
        from qtoggleserver.drivers.persist.mongo import MongoDriver
    except Exception:
        return
    ids = list(EXPLICIT_IDS) + ['', 'a' * 23, 'a' * 25, 'g' * 24, '0' * 24, 'A' * 24, 'abcdef0123456789abcdef01']
    ids += [''.join(rng.choice('0123456789abcdefABCg') for _ in range(rng.choice([23, 24, 24, 24, 25]))) for _ in range(60)]
    rows = []
    for i in ids:
        d = MongoDriver._id_to_db(i)
        is_oid = isinstance(d, bson.ObjectId)
        if MongoDriver._id_from_db(d) != i:
            res['violations'].append({'key': {'driver': 'mongo', 'op': 'id-translation'},
                                      'what': 'Mongo driver: _id_from_db(_id_to_db(%r)) = %r' % (i, MongoDriver._id_from_db(d)),
                                      'case': {'id': i}, 'observed': str(MongoDriver._id_from_db(d))})
        rows.append('(%s, %s)' % (cstr(i), coq.boolean(is_oid)))
    f = MongoDriver._filt_to_db({'k': {o: 1 for o in OPS}})
    names = list(f['k'].keys())
    ops = ['(%s, %s)' % (COQ_OP[o], cstr(n)) for o, n in zip(OPS, names)]
    res['evaluations'] += len(ids) + len(ops)
    if not ctx.model_ok:
        return
    body = ('Definition xids : list (str * bool) := [%s].\nDefinition xops : list (fop * str) := [%s].\n'
            % ('; '.join(rows), '; '.join(ops)))
    rc, lists, err = coq.eval_shards(ctx.workdir, 'c06xlate', HEADER, [body], ['bad_xlate xids xops'])[0]
    if rc != 0 or len(lists) != 1:
        res['tie_failures'].append('coqc failed on the translation cases: %s' % err[-400:])
        return
    for i in lists[0][:5]:
        res['tie_failures'].append({'note': 'MongoXlate model differs from mongo.py', 'index': i,
                                    'item': ids[i] if i < 1000 else names[i - 1000]})


# ----------------------------------------------------------------------------------------------------------------

def load_corpus():
    d = os.path.join(coq.VERIF, 'corpus', ID)
    out = []
    if os.path.isdir(d):
        for f in sorted(os.listdir(d)):
            if f.endswith('.json'):
                with open(os.path.join(d, f)) as fh:
                    j = json.load(fh)
                out.append((f, j.get('drivers'), seq_from_json(j['sequence'])))
    return out


def report_changed_arguments(ctx, res, meta, cases):
    """a driver changed an object it was given as an argument: a violation by itself (decided on the Python side: the
    reference store's operations are functions of values).  One report per (driver, operation, argument)."""
    reported = ctx.__dict__.setdefault('c06_argmut', set())
    for (name, kind, seq), (_, steps) in zip(meta, cases):
        for st in steps:
            if 'arg_changed' not in st:
                continue
            roles = sorted(r for r, _, _ in st['arg_changed'])
            sig = (kind.split('-')[0], st['op']['op'], tuple(roles))
            if sig in reported:
                break
            reported.add(sig)
            uid = st['op']['uid']
            cur = seq[:[i for i, o in enumerate(seq) if o['uid'] == uid][0] + 1]

            def still(c):
                ss = asyncio.run(run_seq(kind, c, ctx.workdir, 'am'))
                return bool(ss) and ss[-1]['op']['uid'] == uid and sorted(r for r, _, _ in ss[-1].get('arg_changed', [])) == roles
            for i in reversed(range(len(cur) - 1)):
                cand = cur[:i] + cur[i + 1:]
                if still(cand):
                    cur = cand
            final = asyncio.run(run_seq(kind, cur, ctx.workdir, 'am'))
            last = final[-1] if final and 'arg_changed' in final[-1] else st
            res['violations'].append({
                'key': {'driver': kind.split('-')[0], 'op': st['op']['op'], 'argument_changed': roles},
                'what': '%s driver: %s() changed the %s object it was given (%s)%s' % (
                    kind, st['op']['op'], ' / '.join(roles),
                    '; '.join('%s: %s -> %s' % (r, b[:120], a[:120]) for r, b, a in last['arg_changed']),
                    '' if name is None else ' [corpus %s]' % name),
                'case': {'driver': kind, 'sequence': seq_to_json(cur)},
                'observed': [describe_step(x) for x in final] if final else None,
            })
            break


def run_batch(ctx, res, seqs, kinds, label, shrink_budget=9):
    """seqs: list of (name, drivers or None, sequence)"""
    cases, meta = [], []
    t0 = time.time()
    dist = res['distribution']
    for si, (name, drivers, seq) in enumerate(seqs):
        ms = None
        for kind in kinds:
            if drivers and kind not in drivers:
                continue
            if kind == 'mongo':
                if ms is None:
                    ms = mongo_safe_seq(seq)
                if not ms:
                    continue
            steps = asyncio.run(run_seq(kind, seq, ctx.workdir, '%s%d' % (label, si)))
            cases.append((kind, steps))
            meta.append((name, kind, seq))
            dist['cases:' + kind] = dist.get('cases:' + kind, 0) + 1
            for s in steps:
                dist['op:' + s['op']['op']] = dist.get('op:' + s['op']['op'], 0) + 1
                dist['out:' + s['out'][0]] = dist.get('out:' + s['out'][0], 0) + 1
    res['extra']['impl_wall_s'] = round(res['extra'].get('impl_wall_s', 0) + time.time() - t0, 2)
    res['evaluations'] += sum(len(s) for _, s in cases)
    nontrivial = set()
    for (name, kind, seq), (_, steps) in zip(meta, cases):
        if sum(1 for s in steps if s['out'][0] == 'recs' and s['out'][1]) >= 1 and len(steps) >= 3:
            nontrivial.add((kind, json.dumps(seq_to_json(seq), sort_keys=True, default=str)))
    res['distribution']['nontrivial_cases'] = res['distribution'].get('nontrivial_cases', 0) + len(nontrivial)
    res['distinct_nontrivial'] += len(nontrivial)
    if len(res['samples']) < 6:
        for (name, kind, seq), (_, steps) in list(zip(meta, cases))[:3]:
            res['samples'].append({'driver': kind, 'steps': [describe_step(s) for s in steps[:6]], 'length': len(steps)})
    report_changed_arguments(ctx, res, meta, cases)
    if not ctx.model_ok:
        res['tie_failures'].append('model not built; cases not evaluated')
        return
    t0 = time.time()
    bad_spec, bad_model, errors = eval_cases(ctx, 'c06%s' % label, cases)
    res['extra']['coq_wall_s'] = round(res['extra'].get('coq_wall_s', 0) + time.time() - t0, 2)
    res['tie_failures'] += errors
    order = sorted(bad_spec)
    attrib = dict(zip(order, attributable_to_reserved(ctx, [(meta[ci][1], meta[ci][2]) for ci in order], label)))
    groups = {}
    for ci in order:
        name, kind, seq = meta[ci]
        pre = json.dumps(classify(kind, seq, cases[ci][1], bad_spec[ci], attrib[ci]), sort_keys=True)
        groups.setdefault(pre, []).append(ci)
    res['extra']['violating_cases'] = res['extra'].get('violating_cases', 0) + len(bad_spec)
    # EVERY group is reported.  One case per group is shrunk while the budget lasts (2 for the reserved-key class, 4 for
    # the others, per check); beyond it the case is reported as found, cut at the failing step.
    seen = ctx.__dict__.setdefault('c06_groups', {})
    budget = ctx.__dict__.setdefault('c06_budget', {True: 2, False: 4})
    reported = ctx.__dict__.setdefault('c06_reported', set())
    for pre, cis in sorted(groups.items(), key=lambda kv: ('reserved_key' in kv[0], kv[1][0])):
        if pre in seen:
            continue
        seen[pre] = 1
        ci = cis[0]
        name, kind, seq = meta[ci]
        is_res = attrib[ci]
        s2 = steps2 = j2 = None
        if budget[is_res] > 0:
            budget[is_res] -= 1
            s2, steps2, j2 = shrink(ctx, kind, seq, None, 's%d' % ci)
        if j2 is None:      # no budget, or not reproducible on re-run: report the case as found
            steps2, j2 = cases[ci][1], bad_spec[ci]
            uid = steps2[j2]['op']['uid']
            s2 = seq[:[i for i, o in enumerate(seq) if o['uid'] == uid][0] + 1]
            steps2 = steps2[:j2 + 1]
            res_flag = is_res
        else:
            res_flag = attributable_to_reserved(ctx, [(kind, s2)], 'k%d' % ci)[0]
        key = classify(kind, s2, steps2, j2, res_flag)
        sig = json.dumps(key, sort_keys=True)
        if sig in reported:
            continue
        reported.add(sig)
        st = steps2[j2]
        res['violations'].append({
            'key': key,
            'what': '%s driver: step %d (%s on %r) returns %s, which contradicts the reference store%s' % (
                kind, j2, st['op']['op'], st['op']['coll'], st['out'][0] if st['out'][0] != 'err' else 'an exception (%s)' % st['note'],
                '' if name is None else ' [corpus %s]' % name),
            'case': {'driver': kind, 'sequence': seq_to_json(s2)},
            'observed': [describe_step(s) for s in steps2],
        })
    for ci, j in sorted(bad_model.items()):
        if ci in bad_spec:
            continue     # already reported as a contradiction of the specification
        name, kind, seq = meta[ci]
        steps = cases[ci][1]
        if len([t for t in res['tie_failures'] if isinstance(t, dict)]) < 5:
            res['tie_failures'].append({'note': 'driver model differs from implementation', 'driver': kind, 'step': j,
                                        'at': describe_step(steps[j]) if j < len(steps) else None,
                                        'sequence': seq_to_json(seq[:j + 1])})
        else:
            res['tie_failures'].append('driver model differs from implementation (%s, step %d)' % (kind, j))


def check(ctx, res):
    kinds, missing = available_kinds()
    res['rule'] = (
        'random operation sequences (4..40 ops; insert/update/replace/remove/query/reload over 3 collections; records over the '
        'full JSON value space: nested lists/objects, true/false/null, ints up to 2^70, floats, dates, datetimes, strings '
        'over an alphabet with quote, backslash, newline, NUL, DEL, non-ASCII, U+2028 and astral characters; filters = / gt '
        'ge lt le in, by id alone or with further criteria; multi-key sorts asc/desc; limits; projections), each run on '
        'every available driver (%s). non-trivial = at least 3 steps and a query returning at least one record; distinct '
        '= distinct (driver, sequence)' % ', '.join(kinds))
    for m in missing:
        res['assumptions'].append('driver not exercised (package not importable): ' + m)
    res['distribution']['drivers'] = kinds
    rng = ctx.rng
    corpus = load_corpus()
    if corpus:
        run_batch(ctx, res, corpus, kinds, 'corpus')
    n = ctx.n(350, 5000)        # thorough: about 25 minutes (30000 would take more than two hours)
    _generated(ctx, res, rng, n, kinds)
    codec_cases(ctx, res, rng, ctx.n(300, 5000))
    if 'mongo' in kinds:
        xlate_cases(ctx, res, rng)


def _generated(ctx, res, rng, n, kinds):
    chunk = 300
    done = 0
    b = 0
    while done < n:
        seqs = []
        for i in range(min(chunk, n - done)):
            g = Gen(rng, mongo_safe=(i % 3 == 0))
            seqs.append((None, None, g.sequence()))
        run_batch(ctx, res, seqs, kinds, 'g%d' % b, shrink_budget=9 if b == 0 else 3)
        done += len(seqs)
        b += 1


def search(ctx, res):
    kinds, _ = available_kinds()
    _generated(ctx, res, ctx.rng, ctx.n(1500, 6000), kinds)


REPLAY_HELP = ('case.sequence is an operation list (values tagged: {"int": ..}, {"float": hex}, {"date": ..}, {"datetime": ..}, '
               '{"obj": {..}}, {"ref": uid} = id returned by the insert with that uid); run it on case.driver '
               '(qtoggleserver.drivers.persist.json.JSONDriver / redis.RedisDriver over fakeredis / mongo.MongoDriver over '
               'mongomock): `observed` lists what each step returned; copy the file to corpus/C06/ to re-run it on every check')

LEVEL_TEXT = (
    'Coq theorems over Gallina models of the JSON driver, the Redis driver, the string codec of utils/json.py and the id / '
    'filter translation of the Mongo driver, against an independently written reference record store: successive stable '
    'sorts in reverse key order (with Python\'s reverse=True) equal one stable sort by the lexicographic comparator, for any '
    'list of total preorders (and the value ordering is one); the JSON driver model produces the reference outputs for every '
    'operation sequence, all five operations, for its own choice of automatic ids, each proved unused (simulation '
    'invariant); the Redis model does the same for every sequence whose written values lie in a class on which the per-field '
    'codec round-trips - with the repaired escaping: all strings of Unicode scalar values, no hypothesis left; json.dumps '
    'string escaping is read back by the JSON string scanner for every such string; Mongo id / filter translations are '
    'inverse / homomorphic. The models are tied to the code by running random operation sequences over the full JSON value '
    'space against the real drivers and comparing every output with the models and with the reference store inside coqc.'
)
LEVEL_NOTE = (
    'Trusted: Coq kernel incl. vm_compute; the correspondence harness and its generators; fakeredis / mongomock as servers; '
    'MongoDB query semantics assumed equal to the reference on the generated fragment (not modelled). The models describe the '
    'code WITH the proposed repairs fixes/C06-*.diff (the snapshot behaviour is refuted in History/C06Old.v). Contract limits '
    '(see assumptions): ordering only on fields of one scalar kind present in every record, no sort by id against the '
    'reference, limits >= 0, update parts do not rewrite id; Redis theorem: iteration in insertion order (any other order is '
    'checked per query by the oracle), explicit ids not numeric, collection names without colon. No axioms.'
)
TECHNIQUE = 'Coq refinement proof (simulation over operation lists) + differential correspondence of models and spec oracle by vm_compute'
