"""C15 — a failing port driver does not disturb other ports.

Theorems: coq/theories/Props/C15.v (non-interference as a simulation, for every trace / dependency-closed port set / fault
pattern; last good value kept; parked for 10 s, retried, recovers).
Tie (C): paired runs of the REAL implementation on the virtual clock (harness/props/c15_worker.py, own subprocesses): real Port
objects created by core_ports.load, the real main.update() for every pass, the real patch_port_value for API writes, a recording
event handler.  Every scenario is run with its faulty ports and with them absent:
  * spec oracle on the implementation: the healthy ports' observables (last values after every step, value-change events,
    evaluation pushes, expression-driven write requests, driver writes and their results, API answers, heart beats, polling in
    tick passes) must be identical -> otherwise VIOLATION with the shrunk scenario as replay;
  * every single run is also replayed event by event through the Coq model (vm_compute): same observations, same final state
    (model tie), and the Coq specification oracle (Run.spec_ok = the equation of C15_noninterference) is evaluated on the
    implementation's own observations.
"""
import glob
import hashlib
import json
import os
import subprocess
import sys
import time
from concurrent.futures import ThreadPoolExecutor

from harness.common import coq

ID = 'C15'
PROPS = 'theories/Props/C15.v'
MODEL_TARGETS = ['theories/C15/Run.vo']
TRANSLATORS = []
TIE = ('correspondence: paired runs of the real polling pass on a virtual clock (with / without the faulty ports), each run '
       'replayed through the Coq model by vm_compute')
ALLOWED_AXIOMS = []
TRUSTED_BASE = [
    'correspondence harness harness/props/c15.py + c15_worker.py (scripted Port subclasses, observation points: main.update '
    'wrapper, push_eval / _eval_and_write / adapt_value_type / transform_and_write_value overrides that only log) and '
    'harness/common/vloop.py (virtual clock; only interleavings the real loop can produce)',
    'modelled, not verified: asyncio scheduling (drivers have zero latency in the tie, so a pass is atomic), real port drivers '
    '(scripted echo/source drivers), expression evaluation restricted to `$x` / `ADD($x, $y)` in the tie (abstract in the theorem)',
]
ASSUMPTIONS = [
    'fault alphabet = subclasses of Exception raised (or SkipRead reported) by read_value, write_value, heart_beat_second and by '
    'the attribute getters used while a value change is handled (is_internal / is_persisted); a driver raising '
    'asyncio.CancelledError / BaseException is indistinguishable from loop shutdown: out of scope',
    'a driver call that never returns (or returns late) is not "raising an error": the pass awaits the read while holding the '
    'update lock, so every other port waits; measured and reported (extra.timing_probes), not part of the verdict',
    'expressions are functions of the last values of their declared dependencies (Section hypothesis `frame`, proved for the '
    'concrete expressions of the tie); time-dependent expressions are outside the model',
    'not modelled: sequences, enabling/disabling and expression changes at run time, transforms, the 1024 bound of the '
    'evaluation / write queues',
    'the model is the behaviour with fixes/C15-contain-value-change-handling.diff applied (an exception from a changed '
    'port\'s is_internal()/is_persisted() is contained per port); before that fix the check reports the violation',
    'source value changes take effect at tick instants (a pass triggered by a write to a faulty port exists only in the run with '
    'that port and must not sample a source at an instant at which the reference run has no pass)',
]

WORKER = 'harness.props.c15_worker'
CORPUS = os.path.join(coq.VERIF, 'corpus', 'C15')
FAULTS = ['PortReadError', 'Exception', 'OSError', 'TimeoutError', 'SkipRead', 'SkipRead', 'PortError', 'PortTimeout', 'PortTimeout',
          'PortLoadError', 'RuntimeError']
DTS = [125, 125, 125, 250, 500, 1000, 1000, 1000, 2000, 5000, 9875, 10000, 10125, 12000]
PROCS = 4


# ----------------------------------------------------------------------------------------------------------------
# generation

def gen_scenario(rng, fault_bias=0.5, attr=True):
    n = rng.randint(3, 7)
    ids = ['p%d' % i for i in range(n)]
    nf = rng.randint(1, max(1, n // 2))
    faulty = set(rng.sample(ids, nf))
    topo = ids[:]
    rng.shuffle(topo)
    spec = {}
    for k, pid in enumerate(topo):
        kind = rng.choice(['source', 'source', 'writable', 'writable', 'expr', 'expr', 'expr'])
        enabled = rng.random() < 0.9
        cand = [q for q in topo[:k] if (q not in faulty) or (pid in faulty)]
        expr = None
        if kind == 'expr' and cand:
            if len(cand) >= 2 and rng.random() < 0.45:
                a, b = rng.sample(cand, 2)
                expr = ['add', a, b]
            else:
                expr = ['port', rng.choice(cand)]
        spec[pid] = {
            'id': pid, 'enabled': enabled, 'writable': kind != 'source' or expr is not None,
            'internal': rng.random() < 0.1, 'persisted': rng.random() < 0.15, 'expr': expr,
            'init': rng.randint(0, 9), 'faulty': pid in faulty,
        }

    order = ids[:]
    rng.shuffle(order)
    ports = [spec[p] for p in order]
    plain = [p['id'] for p in ports if p['expr'] is None]
    writable = [p['id'] for p in ports if p['expr'] is None and p['writable']]
    sites = ['read', 'read', 'write', 'hb'] + (['attr'] if attr else [])
    steps = []
    for _ in range(rng.randint(4, 14)):
        for f in sorted(faulty):
            if rng.random() < fault_bias:
                m = {}
                for s in set(sites):
                    if rng.random() < 0.5:
                        m[s] = rng.choice(FAULTS) if rng.random() < 0.65 else None
                if m:
                    steps.append(['fault', f, m])
        for _ in range(rng.choice([0, 1, 1, 2, 3])):
            if plain and rng.random() < 0.9:
                steps.append(['set', rng.choice(plain), rng.randint(0, 9)])
            else:
                steps.append(['set', rng.choice(ids), rng.randint(0, 9)])
        steps.append(['tick', rng.choice(DTS)])
        for _ in range(rng.choice([0, 0, 1, 1, 2])):
            if writable:
                steps.append(['api', rng.choice(writable), rng.randint(0, 9)])
    return {'ports': ports, 'steps': steps}


LOAD_SITES = ['read', 'read', 'read', 'hb', 'enable']     # load-time fault sites that /repo contains (see notes: the
                                                           # attribute getters and the write of a persisted value are findings)


def gen_load_scenario(rng):
    """start-up path: configuration from the persistence layer, faults in force from construction on, one load() batch;
    further batches (with a faulty member between healthy ones) are loaded in the middle of the scenario"""
    sc = gen_scenario(rng, attr=False)
    sc['load_mode'] = True
    # no outside change of what an expression port's driver reads: a forced evaluation would write it back at an instant that
    # depends on passes triggered by the faulty ports (see c15_worker.diff_views)
    exprs = {p['id'] for p in sc['ports'] if p['expr'] is not None}
    sc['steps'] = [st for st in sc['steps'] if not (st[0] == 'set' and st[1] in exprs)]
    exprs0 = {p['id'] for p in sc['ports'] if p['expr'] is not None}
    # with a read transform a pass is suspended while the transform is evaluated, and evaluation tasks run in between: the
    # *intermediate* values through which a chain of healthy expression ports converges then depend on that scheduling (not on
    # any failure), so transforms are generated only when no healthy expression port reads another expression port
    flat = not any(p['expr'] is not None and not p['faulty'] and any(d in exprs0 for d in p['expr'][1:]) for p in sc['ports'])
    for p in sc['ports']:
        if flat and p['faulty'] and rng.random() < 0.5:
            # a read transform; only on faulty ports and only in this family: evaluating it suspends the pass (function calls
            # gather their arguments), so passes are not atomic any more, which the Coq model of the other family assumes
            p['tr'] = rng.choice([['mul', 2], ['mul', 3], ['add', 1], ['mul', -1]])
    for p in sc['ports']:
        if p['faulty']:
            p['persisted'] = False
            if rng.random() < 0.85:
                p['enabled'] = True
                p['fault0'] = {rng.choice(LOAD_SITES): rng.choice(FAULTS)}
    healthy = [p['id'] for p in sc['ports'] if not p['faulty'] and p['expr'] is None]
    nb = 0
    for _ in range(rng.choice([0, 1, 1, 2])):
        # a batch of 2-4 new ports; at least one faulty, placed at a random position
        k = rng.randint(2, 4)
        batch = []
        fpos = rng.randrange(k)
        # enabling ANY port forces the evaluation of all expressions at the next pass (core/ports.py enable(), by design): the
        # batch therefore always contains an enabled healthy port, so that this happens with and without the faulty members
        hpos = rng.choice([i for i in range(k) if i != fpos])
        for i in range(k):
            pid = 'n%d' % nb
            nb += 1
            faulty = i == fpos or (i != hpos and rng.random() < 0.15)
            expr = None
            if healthy and rng.random() < 0.4:
                expr = ['port', rng.choice(healthy)]
            spec = {'id': pid, 'enabled': True if (faulty or i == hpos) else rng.random() < 0.9, 'writable': expr is not None or rng.random() < 0.5,
                    'internal': False, 'persisted': False, 'expr': expr, 'init': rng.randint(0, 9), 'faulty': faulty}
            if faulty and rng.random() < 0.9:
                spec['fault0'] = {rng.choice(LOAD_SITES): rng.choice(FAULTS)}
            batch.append(spec)
        ticks = [i for i, st in enumerate(sc['steps']) if st[0] == 'tick']
        at = rng.choice(ticks) + 1 if ticks else len(sc['steps'])
        sc['steps'].insert(at, ['load', batch])
        new_plain = [b['id'] for b in batch if b['expr'] is None]
        # the new ports take part in what follows
        for j in range(at + 1, len(sc['steps'])):
            st = sc['steps'][j]
            if st[0] == 'set' and new_plain and rng.random() < 0.3:
                sc['steps'][j] = ['set', rng.choice(new_plain), st[2]]
        sc['steps'].append(['set', rng.choice(new_plain), rng.randint(0, 9)]) if new_plain else None
        sc['steps'].append(['tick', rng.choice(DTS)])
    # PUT /ports with the hub's own document (every port is reset and restored), mostly while a faulty port's read raises / skips
    if rng.random() < 0.7:
        faulty = [p['id'] for p in all_specs(sc) if p['faulty']]
        for _ in range(rng.choice([1, 1, 2])):
            ticks = [i for i, st in enumerate(sc['steps']) if st[0] == 'tick']
            if not ticks:
                break
            at = rng.choice(ticks) + 1
            ins = [['restore']]
            if faulty and rng.random() < 0.8:
                f = rng.choice(faulty)
                first_load = min([i for i, st in enumerate(sc['steps']) if st[0] == 'load' and any(b['id'] == f for b in st[1])] or [-1])
                if first_load < at:
                    ins = [['fault', f, {'read': rng.choice(FAULTS)}], ['restore']]
            sc['steps'][at:at] = ins
    return sc


# ----------------------------------------------------------------------------------------------------------------
# worker processes

def wall_limit(ctx):
    """wall-clock seconds one worker process may take (a chunk of <= 250 pairs normally needs well under a minute)"""
    return ctx.n(240, 1500)


def run_worker(ctx, mode, data, tag, timeout=None):
    """-> parsed output; for mode 'pairs': (list of finished results, timed_out?)"""
    timeout = timeout or wall_limit(ctx)
    inp = os.path.join(ctx.workdir, 'c15_%s_in.json' % tag)
    outp = os.path.join(ctx.workdir, 'c15_%s_out.json' % tag)
    with open(inp, 'w') as f:
        json.dump(data, f)
    env = dict(os.environ)
    timed_out = False
    try:
        p = subprocess.run([sys.executable, '-m', WORKER, mode, inp, outp], capture_output=True, text=True, env=env,
                           timeout=timeout, cwd=coq.VERIF)
    except subprocess.TimeoutExpired:
        if mode != 'pairs':
            raise RuntimeError('c15 worker (%s) exceeded its wall-clock limit of %d s' % (mode, timeout))
        timed_out = True
        p = None
    if p is not None and p.returncode != 0:
        raise RuntimeError('c15 worker failed (rc=%s): %s' % (p.returncode, (p.stderr or p.stdout)[-1500:]))
    if mode == 'pairs':
        done = []
        try:
            with open(outp + 'l') as f:
                for line in f:
                    if line.endswith('\n'):
                        done.append(json.loads(line))
        except FileNotFoundError:
            pass
        return done, timed_out
    with open(outp) as f:
        return json.load(f)


def run_chunk(ctx, chunk, tag):
    """pairs for one chunk; a scenario on which the worker exceeds the wall-clock limit is reported (not raised) and the
    rest of the chunk is run by a fresh worker"""
    res = []
    attempt = 0
    while len(res) < len(chunk):
        rest = chunk[len(res):]
        if attempt >= 3:
            res += [{'error': 'not run: the worker already timed out %d times on this chunk' % attempt}] * len(rest)
            break
        done, timed_out = run_worker(ctx, 'pairs', rest, '%s_a%d' % (tag, attempt))
        res += done[:len(rest)]
        if timed_out and len(done) < len(rest):
            res.append({'error': 'the worker exceeded its wall-clock limit of %d s while running this scenario (a wait that '
                                 'advances neither real nor virtual time?)' % wall_limit(ctx), 'wall_timeout': True})
        elif len(done) < len(rest):
            res += [{'error': 'worker ended without a result for this scenario'}] * (len(rest) - len(done))
        attempt += 1
    return res


def run_pairs(ctx, scenarios, tag):
    k = max(1, min(PROCS, len(scenarios) // 8 or 1))
    chunks = [scenarios[i::k] for i in range(k)]
    with ThreadPoolExecutor(max_workers=k) as ex:
        outs = list(ex.map(lambda ic: run_chunk(ctx, ic[1], '%s_%d' % (tag, ic[0])), enumerate(chunks)))
    res = [None] * len(scenarios)
    for i, out in enumerate(outs):
        for j, r in enumerate(out):
            res[i + j * k] = r
    return res


# ----------------------------------------------------------------------------------------------------------------
# Coq case files

def c_val(v):
    return 'None' if v is None else '(Some %s)' % coq.z(v)


def c_expr(e, idx):
    if e is None:
        return 'None'
    if e[0] == 'port':
        return '(Some (CPort %d))' % idx[e[1]]
    return '(Some (CAdd %d %d))' % (idx[e[1]], idx[e[2]])


def case_text(sc, run, idx, healthy):
    """one `mkCase ...` from a scenario and the log of its run on the implementation"""
    ports = []
    for ps in sc['ports']:
        last, drv, parked = run['init'][ps['id']][:3]
        ports.append('mkPort %d %s %s %s %s %s %s []' % (
            idx[ps['id']], coq.boolean(ps.get('enabled', True)), coq.boolean(ps.get('internal')), c_expr(ps.get('expr'), idx),
            c_val(drv), c_val(last), '(Some 0)' if parked else 'None'))
    events, obs = [], []
    pending_changes = []

    def flush():
        pending_changes.sort()
        for _i, t in pending_changes:
            obs.append(t)
        del pending_changes[:]

    for it in run['log']:
        k = it[1]
        if k == 'change':
            pending_changes.append((idx[it[2]], '(OChange %d %s %s)' % (idx[it[2]], c_val(it[3]), c_val(it[4]))))
            continue
        flush()
        if k == 'adv':
            events.append('Advance %d' % it[2])
        elif k == 'set':
            events.append('SourceSet %d %s' % (idx[it[2]], c_val(it[3])))
        elif k == 'pass':
            outs = ['(%d, mkPout %s %s %s)' % (idx[p], coq.boolean(o[0]), {'val': 'RVal', 'skip': 'RSkip', 'err': 'RErr'}[o[1]],
                                              coq.boolean(o[2])) for p, o in it[4].items()]
            events.append('Pass [%s]' % '; '.join(outs))
        elif k == 'hb':
            obs.append('(OHb %d)' % idx[it[2]])
        elif k == 'read':
            obs.append('(ORead %d)' % idx[it[2]])
        elif k == 'push':
            obs.append('(OPush %d)' % idx[it[2]])
        elif k == 'eval':
            events.append('Eval %d' % idx[it[2]])
        elif k == 'evalwrite':
            obs.append('(OEvalWrite %d %s)' % (idx[it[2]], c_val(it[3])))
        elif k == 'write':
            r = 'WOk' if it[4] == 'ok' else 'WExc'
            events.append('Write %d %s %s' % (idx[it[2]], c_val(it[3]), r))
            if r == 'WOk' and len(it) > 5 and it[5] != it[3]:
                # a read transform: the driver holds v but a read yields T(v) (the model's echo driver would read back v)
                events.append('SourceSet %d %s' % (idx[it[2]], c_val(it[5])))
            obs.append('(OWrite %d %s %s)' % (idx[it[2]], c_val(it[3]), r))
    flush()
    final = run['states'][-1] if run['states'] else run['init']
    fin = ['(%d, %s, %s, %s)' % (idx[ps['id']], c_val(final[ps['id']][0]), c_val(final[ps['id']][1]),
                                 coq.boolean(final[ps['id']][2])) for ps in sc['ports']]
    return 'mkCase\n   [%s]\n   %d %d %s\n   [%s]\n   [%s]\n   [%s]' % (
        ';\n    '.join(ports), run['init_now_ms'], run['init_last_sec'], coq.zlist([idx[h] for h in healthy]),
        '; '.join(events), '; '.join(obs), '; '.join(fin))


HEADER = 'From QT Require Import C15.Run.\nOpen Scope Z_scope.\n'


def model_tie(ctx, res, items, tag):
    """items: list of (label, scenario, run, idx, healthy).  Evaluates bad_model / bad_spec by vm_compute."""
    if not items:
        return
    if not ctx.model_ok:
        res['tie_failures'].append('model not built; runs not replayed through the model')
        return
    shards, meta = [], []
    per = 250
    for i in range(0, len(items), per):
        part = items[i:i + per]
        shards.append('Definition cases : list case := [\n %s\n].\n' % ';\n '.join(case_text(s, r, ix, h) for _l, s, r, ix, h in part))
        meta.append(part)
    outs = coq.eval_shards(ctx.workdir, 'c15cases_' + tag, HEADER, shards, ['bad_model cases', 'bad_spec cases', 'model_diff cases'],
                           jobs=4)
    for (rc, lists, err), part in zip(outs, meta):
        if rc != 0 or len(lists) != 3:
            res['tie_failures'].append('coqc failed on a case shard: %s' % err[-600:])
            continue
        bad_model, bad_spec, diffs = lists
        for i in bad_model:
            label, sc, run, _ix, _h = part[i]
            res['tie_failures'].append({'note': 'model differs from implementation', 'run': label, 'scenario': sc,
                                        'first_differing_observation': diffs[i]})
        for i in bad_spec:
            label, sc, run, _ix, _h = part[i]
            res['violations'].append({
                'key': {'oracle': 'coq-spec', 'fault_sites': '+'.join(fault_sites(sc)), 'escaped_update': escaped(run)},
                'what': 'the healthy ports\' observations in the run with the faulty ports are not those of the system without '
                        'them (Run.spec_ok false on the implementation\'s log)',
                'case': sc, 'observed': {'run': label},
            })


def all_specs(sc):
    specs = list(sc['ports'])
    for st in sc['steps']:
        if st[0] == 'load':
            specs += st[1]
    return specs


def fault_sites(sc):
    s = set()
    for st in sc['steps']:
        if st[0] == 'fault':
            for site, k in st[2].items():
                if k:
                    s.add(site)
    for p in all_specs(sc):
        for site, k in (p.get('fault0') or {}).items():
            if k:
                s.add('load-' + site)
    return sorted(s)


def escaped(run):
    return any(it[1] == 'pass_exc' for it in run.get('log') or [])


# ----------------------------------------------------------------------------------------------------------------
# the check

def stats(sc, pr, dist):
    fr = pr['faulty_run']
    log = fr.get('log') or []
    H = {p['id'] for p in all_specs(sc) if not p.get('faulty')}
    fired = 0
    retries = 0
    parked = set()
    in_pass_outs = {}
    for it in log:
        if it[1] == 'pass':
            in_pass_outs = it[4]
        elif it[1] == 'read':
            o = in_pass_outs.get(it[2])
            if it[2] in parked:
                retries += 1
                parked.discard(it[2])
            if o and o[1] != 'val':
                fired += 1
                dist['fired:read:' + o[1]] = dist.get('fired:read:' + o[1], 0) + 1
                if o[1] == 'err':
                    parked.add(it[2])
        elif it[1] == 'hb':
            o = in_pass_outs.get(it[2])
            if o and o[0]:
                fired += 1
                dist['fired:hb'] = dist.get('fired:hb', 0) + 1
        elif it[1] == 'write' and it[4] == 'exc':
            fired += 1
            dist['fired:write'] = dist.get('fired:write', 0) + 1
        elif it[1] == 'change' and it[2] not in H:
            o = in_pass_outs.get(it[2])
            if o and o[2]:
                fired += 1
    for it in log:
        if it[1] == 'pass' and any(o[2] for o in it[4].values()):
            dist['passes_with_attr_fault'] = dist.get('passes_with_attr_fault', 0) + 1
    healthy_changes = sum(1 for it in log if it[1] == 'change' and it[2] in H)
    dist['retries_after_parking'] = dist.get('retries_after_parking', 0) + retries
    dist['passes'] = dist.get('passes', 0) + sum(1 for it in log if it[1] == 'pass')
    dist['healthy_value_changes'] = dist.get('healthy_value_changes', 0) + healthy_changes
    dist['faults_fired'] = dist.get('faults_fired', 0) + fired
    dist['ports:%d' % len(sc['ports'])] = dist.get('ports:%d' % len(sc['ports']), 0) + 1
    for st in sc['steps']:
        if st[0] == 'fault':
            for site, k in st[2].items():
                if k:
                    dist['%s@%s' % (k, site)] = dist.get('%s@%s' % (k, site), 0) + 1
    return fired > 0 and healthy_changes > 0


def handle_pairs(ctx, res, scenarios, results, tag, seen, max_shrink=2):
    items = []
    dist = res['distribution']
    shrunk = 0
    for n, (sc, pr) in enumerate(zip(scenarios, results)):
        res['evaluations'] += 1
        label = '%s#%d' % (tag, n)
        if pr.get('error'):
            res['tie_failures'].append({'note': 'scenario failed in the harness worker', 'run': label, 'error': pr['error'],
                                        'trace': pr.get('trace'), 'scenario': sc})
            continue
        if sc.get('load_mode'):
            dist['load_time_scenarios'] = dist.get('load_time_scenarios', 0) + 1
            dist['load_batches'] = dist.get('load_batches', 0) + 1 + sum(1 for st in sc['steps'] if st[0] == 'load')
            for p in all_specs(sc):
                for site, k in (p.get('fault0') or {}).items():
                    dist['%s@load-%s' % (k, site)] = dist.get('%s@load-%s' % (k, site), 0) + 1
            dist['restores'] = dist.get('restores', 0) + sum(1 for st in sc['steps'] if st[0] == 'restore')
            if pr['faulty_run'].get('load_failed'):
                dist['runs_with_a_failed_load'] = dist.get('runs_with_a_failed_load', 0) + 1
        if pr['faulty_run'].get('stuck'):
            dist['runs_with_a_stuck_pass'] = dist.get('runs_with_a_stuck_pass', 0) + 1
        nontrivial = stats(sc, pr, dist)
        h = hashlib.sha1(json.dumps(sc, sort_keys=True).encode()).hexdigest()
        if nontrivial and h not in seen:
            seen.add(h)
            res['distinct_nontrivial'] += 1
        if len(res['samples']) < 6:
            res['samples'].append({'scenario': sc, 'healthy_last_values_per_step': [
                {p: s[0] for p, s in st.items() if not any(q['id'] == p and q.get('faulty') for q in sc['ports'])}
                for st in pr['faulty_run']['states']][:6]})
        idx = {p['id']: i for i, p in enumerate(sc['ports'])}
        healthy = [p['id'] for p in sc['ports'] if not p.get('faulty')]
        if pr.get('diff'):
            small, spair = sc, pr
            if shrunk < max_shrink:
                shrunk += 1
                try:
                    out = run_worker(ctx, 'shrink', sc, '%s_shrink%d' % (tag, n))
                    if out['pair'].get('diff'):
                        small, spair = out['scenario'], out['pair']
                except Exception as e:  # noqa: BLE001
                    ctx.log('shrink failed: %s' % e)
            if spair['diff']['observable'].startswith('own:'):
                res['violations'].append({
                    'key': {'oracle': 'failing-port', 'rule': spair['diff']['observable'][4:],
                            'fault_sites': '+'.join(fault_sites(small))},
                    'what': 'the failing port itself does not keep its last good value / is not retried after 10 s / does not '
                            'recover / a port stops following its expression (rule "%s")' % spair['diff']['observable'][4:],
                    'case': small, 'expected': 'last value kept on error/skip; not read for 10 s after a read error, read at the '
                                               'first pass after that; driver value taken when the read succeeds',
                    'observed': spair['diff'],
                })
                continue
            res['violations'].append({
                'key': {'oracle': 'paired-run', 'fault_sites': '+'.join(fault_sites(small)),
                        'escaped_update': escaped(spair['faulty_run']), 'stuck': bool(spair['faulty_run'].get('stuck')),
                        'load_failed': bool(spair['faulty_run'].get('load_failed'))},
                'what': 'healthy ports behave differently with the faulty ports present (fault sites: %s%s%s%s): first differing '
                        'observable "%s"' % ('+'.join(fault_sites(small)) or '-',
                                             '; core_ports.load() of a batch failed: %s' % spair['faulty_run']['load_failed'][0]['error']
                                             if spair['faulty_run'].get('load_failed') else '',
                                             '; an exception escaped main.update()' if escaped(spair['faulty_run']) else '',
                                             '; a polling pass / API call never finished (every port frozen)'
                                             if spair['faulty_run'].get('stuck') else '',
                                             spair['diff']['observable']),
                'case': small, 'expected': 'identical healthy observables with and without the faulty ports',
                'observed': spair['diff'],
            })
            continue     # a run that contradicts the specification is not expected to follow the model
        if sc.get('load_mode'):
            continue     # loading is outside the Coq model (it starts from the settled state): paired oracle only
        items.append((label + ':faulty', sc, pr['faulty_run'], idx, healthy))
        ref = {'ports': [p for p in sc['ports'] if not p.get('faulty')], 'steps': sc['steps']}
        items.append((label + ':reference', ref, pr['reference_run'], idx, healthy))
    model_tie(ctx, res, items, tag)


def load_corpus():
    out = []
    for path in sorted(glob.glob(os.path.join(CORPUS, '*.json'))):
        with open(path) as f:
            d = json.load(f)
        out.append((os.path.basename(path), d.get('case') or d.get('scenario') or d))
    return out


def check(ctx, res):
    res['rule'] = (
        '3-7 ports (sources, writable echo ports, `$x` / `ADD($x,$y)` expression ports in a random DAG and a random iteration '
        'order; 10% disabled, some internal / persisted), 1..n/2 faulty ports; 4-14 rounds of {fault on/off per site read/write/hb/'
        'attr with a kind from PortReadError/Exception/OSError/TimeoutError/SkipRead, source changes, tick after 125 ms..12 s '
        '(incl. 9875/10000/10125 ms around the retry interval), API writes to healthy and faulty ports}.  distinct = distinct '
        'scenario; non-trivial = at least one fault actually fired (driver raised / skipped) and at least one healthy port '
        'changed value')
    t0 = time.time()
    seen = set()
    if ctx.replay:
        with open(ctx.replay) as f:
            d = json.load(f)
        sc = d.get('case') or d.get('scenario') or d
        handle_pairs(ctx, res, [sc], run_pairs(ctx, [sc], 'replay'), 'replay', seen)
        return
    corpus = load_corpus()
    if corpus:
        scs = [sc for _n, sc in corpus]
        handle_pairs(ctx, res, scs, run_pairs(ctx, scs, 'corpus'), 'corpus', seen)
        res['distribution']['corpus_cases'] = len(scs)
    n = ctx.n(200, 10000)
    scenarios = [gen_load_scenario(ctx.rng) if i % 4 == 3 else gen_scenario(ctx.rng) for i in range(n)]
    batch = 1000
    for b in range(0, n, batch):
        part = scenarios[b:b + batch]
        handle_pairs(ctx, res, part, run_pairs(ctx, part, 'gen%d' % b), 'gen%d' % b, seen)
        if res['violations'] and b + batch < n and len(res['violations']) > 50:
            break
    try:
        probes = run_worker(ctx, 'probes', None, 'probes')
        res['extra']['timing_probes'] = {k: v for k, v in probes.items() if k.startswith('timing:')}
        # reported, not part of the verdict (findings F-C15-3 in notes/C15.md)
        res['extra']['load_time_probes'] = {k: ('healthy ports unaffected' if v['diff'] is None and not v['error'] else
                                                {'healthy ports AFFECTED': v['diff'], 'load_failed': v['load_failed'], 'error': v['error']})
                                            for k, v in probes.items() if k.startswith('load:')}
    except Exception as e:  # noqa: BLE001
        res['extra']['timing_probes'] = 'failed: %s' % e
    res['extra']['impl_and_tie_wall_s'] = round(time.time() - t0, 2)


def search(ctx, res):
    """a proof or the tie broke and check() found no failing input: look harder (10x, more faults, longer histories)"""
    seen = set()
    n = ctx.n(2000, 20000)
    scenarios = [gen_load_scenario(ctx.rng) if i % 4 == 3 else gen_scenario(ctx.rng, fault_bias=0.8) for i in range(n)]
    for b in range(0, n, 1000):
        part = scenarios[b:b + 1000]
        handle_pairs(ctx, res, part, run_pairs(ctx, part, 'search%d' % b), 'search%d' % b, seen)
        if res['violations']:
            break


REPLAY_HELP = ('bin/check C15 --replay <this file>   (runs `case` on the real code twice on the virtual clock: with the ports '
               'marked "faulty" and without them; python -m harness.props.c15_worker pairs IN OUT does the same on a list)')

LEVEL_TEXT = (
    'Coq theorems over an executable transition system of the polling pass (heart beat, parked set with the 10 s retry rule, '
    'read outcomes value/skip/error, change detection, value-change events, evaluation pushes with snapshots, evaluation task, '
    'driver writes): for every trace, every dependency-closed set H of ports and every behaviour of the other ports, the '
    'projection of the run on H equals the run of the system without the other ports on the erased trace (simulation, induction '
    'over the trace); a read error or skip never changes the last value; after a read error the port is not read for 10 s, is '
    'read at the first pass after that and takes the driver\'s value when the read succeeds.  Expressions are abstract in the '
    'theorem (Section hypothesis: an expression reads only its declared dependencies, discharged for the concrete expressions).  '
    'Tie: paired runs of the real main.update()/ports/API/event handlers on a virtual clock, each replayed through the model.'
)
LEVEL_NOTE = (
    'Trusted: Coq kernel incl. vm_compute; the correspondence harness (c15.py, c15_worker.py, vloop.py) and its generator; '
    'asyncio scheduling and real drivers are modelled (zero-latency scripted drivers, passes atomic), tied by the correspondence '
    'only.  Out of scope and stated: BaseException faults, drivers that hang or are slow (they delay every port: measured in '
    'extra.timing_probes), sequences / enable-disable / transforms.  The model includes the candidate fix '
    'fixes/C15-contain-value-change-handling.diff; on the tree without it the check reports the attribute-getter violation.  '
    'No axioms (Print Assumptions: closed under the global context).'
)
TECHNIQUE = 'Coq proof (simulation by induction over traces of an executable LTS) + differential paired-run tie on a virtual clock'
